"""C06 -- Bonferroni and Holm-Bonferroni flag exactly the bins their
definitions reject.

Two entry points:

``kind == 'pvals'``   p-value arrays built from *tokens* (plain floats, NaN,
    ties, values placed exactly -- or one ulp away -- on ``level/m`` and on
    ``level/(m-k+1)``) go through the two static methods, then through the two
    test classes wrapped around a minimal first test that just hands out those
    p-values (1-3 "datasets"), then once more after a generated permutation +
    reshape of the bins.
``kind == 'student'`` the two classes wrapped around a real ``TestStudent`` on
    generated datasets (scalar to 3-D, 1-3 compared datasets, NaN on one or on
    both sides, zero errors) for the integration clauses.
"""
import math

import numpy as np
from hypothesis import strategies as st

from valjean.eponine.dataset import Dataset
from valjean.gavroche.test import Test, TestResult
from valjean.gavroche.stat_tests.student import TestStudent
from valjean.gavroche.stat_tests.bonferroni import TestBonferroni, TestHolmBonferroni
from vlib.core import Failure, Outcome, exc_failure

ID = 'C06'
LEVEL = 'exploration'
RULE = ('cases = (a) 1-3 float64 p-value arrays of one shape, 0-d to 3-D, 1-40 bins, built from '
        'tokens: uniform (0,1), log-uniform tiny, exact 0 / 1, NaN, copies of earlier bins (ties), '
        'level/m and level/(m-k+1) computed with the same float expression as the code and '
        'optionally moved by one ulp, values between two consecutive Holm thresholds; level in '
        '[1e-12,1); a permutation and a second shape of the same bins; C or Fortran memory layout; '
        'or (b) TestStudent on generated datasets (scalar to 3-D, 1-3 compared datasets, '
        't-values from |t|<1.5 to |t|~12, zero errors, NaN on one / both sides, ndf None or '
        '1..2000, user alpha log-uniform 1e-6..0.9; three regimes: all bins compatible / moderate discrepancies / anything) wrapped by both corrections. '
        'non-trivial = at least 2 bins and at least one of: two equal p-values, a NaN p-value, '
        'a p-value exactly on its Bonferroni or on its own Holm threshold, both flagged and '
        'unflagged bins in one array; distinct = structural hash of the case')
ASSUMPTIONS = [
    'levels are in [1e-12, 1): below that level/m underflows towards 0 and the thresholds of '
    'different ranks are no longer distinct floats',
    'p-value arrays are float64 numpy arrays (the documented type); scalar datasets are '
    'numpy.float64 or 0-d arrays',
    '"level" is the argument the method documents: bonferroni_correction receives level/m, '
    'holm_bonferroni_method receives level; the classes document that the user alpha is halved '
    '(two-sided), so for them level = alpha/2 and m = dsref.size',
    'Holm rank of tied / undefined p-values is not fixed by the property: any ordering that is '
    'non-decreasing with NaN last is accepted (validity predicate on (alphas_i, flag) pairs '
    'inside each group of equal values)',
    'a p-value exactly EQUAL to its own Holm threshold level/(m-k+1) may be flagged or not: '
    'the property text says "below", the module documentation says "<=" and the property\'s own '
    'relation Bonferroni-flagged (p <= level/m) subset-of Holm-flagged requires "<=" at rank 1; '
    'these bins are counted in excluded_or_boundary, every other clause stays strict on them',
    'the first test handed to the classes in entry (a) is a minimal Test subclass exposing '
    'dsref and evaluate().pvalue, the only two things the corrections read',
]
BUDGET = {'quick': {'cases': 20000, 'shards': 16, 'seconds': 120, 'shrink_s': 30},
          'thorough': {'cases': 400000, 'shards': 16, 'seconds': 900, 'shrink_s': 60}}
FLOORS = {'pvals': 0.5, 'student': 0.15, 'nontrivial': 0.5, 'tie': 0.15, 'nan': 0.10,
          'on_bonf_threshold': 0.05, 'on_holm_own_threshold': 0.08, 'mixed_flags': 0.25,
          'student_pass': 0.03, 'student_fail_bonf_pass': 0.02, 'multi_dataset': 0.2,
          'ndim3': 0.08, 'ndim0': 0.02}


# --------------------------------------------------------------------------
# generation

def _level():
    return st.one_of(
        st.floats(1e-12, 1.0, exclude_max=True),
        st.sampled_from([0.005, 0.025, 0.05, 0.5, 0.01, 0.1]),
        st.floats(-12.0, -0.01).map(lambda x: 10.0 ** x))


_PLAIN = st.one_of(
    st.floats(0.0, 1.0),
    st.floats(-14.0, -0.5).map(lambda x: 10.0 ** x),
    st.sampled_from([0.0, 1.0, 0.0, 1.0, float('nan')]),
    st.floats(-300.0, -14.0).map(lambda x: 10.0 ** x))
_ULP = st.sampled_from([0, 0, 0, -1, 1])


def _token(m):
    """One bin of the 'mix' family."""
    return st.one_of(
        _PLAIN, _PLAIN,
        st.tuples(st.just('t'), st.integers(0, 40)).map(list),               # tie
        st.tuples(st.just('b'), _ULP).map(list),                             # level/m
        st.tuples(st.just('h'), st.integers(1, m), _ULP).map(list),          # level/(m-k+1)
        st.tuples(st.just('g'), st.integers(1, m), st.floats(0.01, 0.99)).map(list))


@st.composite
def _ladder(draw, m):
    """Bins whose p-values sit on / around the threshold of (about) their own
    rank; shuffled afterwards by the case's permutation."""
    toks = []
    for i in range(m):
        k = min(m, max(1, i + 1 + draw(st.sampled_from([0, 0, 0, 0, -1, 1]))))
        what = draw(st.sampled_from('hhgGtn'))
        if what == 'h':
            toks.append(['h', k, draw(_ULP)])
        elif what == 'g':
            toks.append(['g', k, draw(st.floats(0.01, 0.99))])
        elif what == 'G':      # above thr_k, below thr_{k+1}: not flagged at rank k
            toks.append(['g', min(m, k + 1), draw(st.floats(0.01, 0.99))] if k < m
                        else draw(st.floats(0.0, 1.0)))
        elif what == 't' and toks:
            toks.append(['t', draw(st.integers(0, 40))])
        elif what == 'n' and draw(st.booleans()):
            toks.append(float('nan'))
        else:
            toks.append(draw(_PLAIN))
    return toks


@st.composite
def _shape(draw):
    ndim = draw(st.sampled_from([0, 1, 1, 1, 2, 2, 3, 3]))
    if ndim == 0:
        return []
    if ndim == 1:
        return [draw(st.one_of(st.integers(1, 6), st.integers(1, 40)))]
    if ndim == 2:
        a = draw(st.integers(1, 6))
        return [a, draw(st.integers(1, min(6, 40 // a)))]
    a = draw(st.integers(1, 4))
    b = draw(st.integers(1, 4))
    return [a, b, draw(st.integers(1, min(4, 40 // (a * b))))]


def _size(shape):
    m = 1
    for n in shape:
        m *= n
    return m


@st.composite
def _pvals_case(draw):
    shape = draw(_shape())
    m = _size(shape)
    narr = draw(st.sampled_from([1, 1, 2, 3]))
    arrays = []
    for _ in range(narr):
        if draw(st.booleans()):
            toks = draw(_ladder(m))
            toks = [toks[i] for i in draw(st.permutations(range(m)))]
        else:
            toks = draw(st.lists(_token(m), min_size=m, max_size=m))
        arrays.append(toks)
    return {'kind': 'pvals', 'level': draw(_level()), 'shape': shape, 'arrays': arrays,
            'perm': list(draw(st.permutations(range(m)))),
            'shape2': draw(st.integers(0, 50)), 'fortran': draw(st.booleans())}


@st.composite
def _student_case(draw):
    shape = draw(_shape().filter(lambda s: _size(s) <= 24))
    m = _size(shape)
    mode = draw(st.sampled_from(['calm', 'edge', 'edge', 'wild', 'wild']))
    alpha = draw(st.one_of(st.floats(-6.0 if mode != 'edge' else -2.0, -0.05).map(lambda x: 10.0 ** x),
                           st.sampled_from([0.01, 0.05, 0.1])))
    alpha_c = draw(st.sampled_from([None, None, None, 0.01, 0.3, 1e-4]))
    ndf = draw(st.one_of(st.none(), st.integers(1, 2000), st.sampled_from([1, 2, 5, 1000])))
    # calm: every bin compatible; edge: moderate discrepancies, nothing undefined (Student
    # fails while the corrections may pass); wild: everything incl. NaN and zero errors
    calm, wild = mode == 'calm', mode == 'wild'
    if calm:
        zed = st.floats(-1.2, 1.2)
    elif mode == 'edge':
        zed = st.one_of(st.floats(-1.5, 1.5), st.floats(-1.5, 1.5), st.floats(1.5, 3.5),
                        st.floats(-3.5, -1.5))
    else:
        zed = st.one_of(st.floats(-1.5, 1.5), st.floats(-1.5, 1.5), st.floats(1.5, 5.0),
                        st.floats(-5.0, -1.5), st.floats(4.0, 12.0), st.floats(-12.0, -4.0))
    spec = st.sampled_from([0] * 12 + [1, 2, 2]) if wild else st.just(0)
    ref = [[draw(st.floats(-50.0, 50.0)),
            draw(st.one_of(st.floats(0.01, 5.0), st.floats(0.01, 5.0),
                           st.sampled_from([0.0] if wild else [0.5]))),
            draw(st.sampled_from([False] * 15 + [wild]))] for _ in range(m)]
    nds = draw(st.sampled_from([1, 1, 2, 3]))
    others = [[[draw(zed), draw(st.sampled_from([1.0, 1.0, 0.5, 2.0, 0.0] if wild
                                                else [1.0, 0.5, 2.0])), draw(spec)]
               for _ in range(m)] for _ in range(nds)]
    return {'kind': 'student', 'shape': shape, 'alpha': alpha, 'alpha_c': alpha_c, 'ndf': ndf,
            'ref': ref, 'others': others, 'scalar_0d': draw(st.booleans())}


def strategy(tier):
    return st.one_of(_pvals_case(), _pvals_case(), _student_case())


# --------------------------------------------------------------------------
# building the inputs from a case

def _ulp(x, d):
    if d > 0:
        return math.nextafter(x, math.inf)
    if d < 0:
        return math.nextafter(x, -math.inf)
    return x


def _holm_thr(level, m, k):
    """Significance level of rank k (1-based): the same float expression as
    the definition, ``level / (m - k + 1)``."""
    return level / (m - k + 1)


def resolve(tokens, level):
    """Tokens -> list of floats (the flat p-value array)."""
    m = len(tokens)
    vals = []
    for tok in tokens:
        if isinstance(tok, (list, tuple)):
            what = tok[0]
            if what == 't':
                val = vals[tok[1] % len(vals)] if vals else 0.5
            elif what == 'b':
                val = _ulp(level / m, tok[1])
            elif what == 'h':
                val = _ulp(_holm_thr(level, m, (tok[1] - 1) % m + 1), tok[2])
            elif what == 'g':
                k = (tok[1] - 1) % m + 1
                low = _holm_thr(level, m, k - 1) if k > 1 else 0.0
                high = _holm_thr(level, m, k)
                val = low + tok[2] * (high - low)
            else:
                raise ValueError(f'unknown token {tok!r}')
        else:
            val = float(tok)
        vals.append(min(max(val, 0.0), 1.0) if val == val else val)
    return vals


def _shapes_of(m):
    """All shapes with 0 to 3 dimensions and m bins (deterministic order)."""
    out = [(m,)]
    if m == 1:
        out.append(())
    for a in range(1, m + 1):
        if m % a == 0:
            out.append((a, m // a))
            for b in range(1, m // a + 1):
                if (m // a) % b == 0:
                    out.append((a, b, m // a // b))
    return out


class _PvalResult(TestResult):
    """Result of the minimal first test: only carries p-values."""

    def __init__(self, test, pvalue):
        super().__init__(test)
        self.pvalue = pvalue

    def __bool__(self):
        return True


class _PvalTest(Test):
    """Minimal first test: a reference dataset (for the number of bins) and an
    ``evaluate()`` whose result has a ``pvalue`` list, one array per compared
    dataset."""

    def __init__(self, shape, pvalues):
        super().__init__(name='pvalues')
        self.dsref = Dataset(np.zeros(shape), np.zeros(shape))
        self._pvalues = pvalues

    def evaluate(self):
        return _PvalResult(self, [p.copy() for p in self._pvalues])


# --------------------------------------------------------------------------
# oracle

def _bits(x):
    return np.asarray(x, dtype=np.float64).tobytes()


def _groups(flat):
    """Indices sorted by p-value (NaN last) and cut into groups of equal
    values; returns [(first_rank (1-based), [indices], value)]."""
    idx = sorted(range(len(flat)), key=lambda i: (flat[i] != flat[i], flat[i] if flat[i] == flat[i] else 0.0))
    groups, pos = [], 0
    while pos < len(idx):
        val = flat[idx[pos]]
        end = pos + 1
        while end < len(idx) and (flat[idx[end]] == val or (val != val and flat[idx[end]] != flat[idx[end]])):
            end += 1
        groups.append((pos + 1, idx[pos:end], val))
        pos = end
    return groups


def _classify(pvals, level, m):
    """Labels + non-triviality of one p-value array, from the INPUT only (the
    expected flags come from the definitions, ties ranked in index order)."""
    flat = [float(x) for x in np.asarray(pvals, dtype=float).flatten()]
    labs = set()
    defined = [p for p in flat if p == p]
    if len(set(defined)) < len(defined) or len(flat) - len(defined) > 1:
        labs.add('tie')
    if len(defined) < len(flat):
        labs.add('nan')
    if any(p == level / m for p in defined):
        labs.add('on_bonf_threshold')
    bflags = [not p > level / m for p in flat]
    hflags = [None] * len(flat)
    for first, members, val in _groups(flat):
        for k, i in enumerate(members, first):
            thr = _holm_thr(level, m, k)
            hflags[i] = not val >= thr
            if val == thr:
                labs.add('on_holm_own_threshold')
    if len(set(bflags)) > 1 or len(set(hflags)) > 1:
        labs.add('mixed_flags')
    if any(h and not b for b, h in zip(bflags, hflags)):
        labs.add('holm_flags_more')
    if not any(bflags):
        labs.add('bonf_expected_pass')
    if labs & {'tie', 'nan', 'on_bonf_threshold', 'on_holm_own_threshold', 'mixed_flags'} \
            and len(flat) >= 2:
        labs.add('nontrivial')
    return labs


class _Verdicts:
    """Evaluation of the per-array clauses, shared by both entry points."""

    def __init__(self, out, where):
        self.out = out
        self.where = where      # 'static' | 'class' | 'student': only in details
        self.flags = {}

    def fail(self, clause, feature, detail):
        self.out.failures.append(Failure(clause, f'C06/{clause}/{feature}',
                                         f'[{self.where}] {detail}'))

    def shape_ok(self, method, got, shape, want_bool):
        arr = np.asarray(got)
        if arr.shape != tuple(shape):
            self.fail('result_shape', method, f'shape {arr.shape} for p-values of shape {tuple(shape)}')
            return False
        if want_bool and arr.dtype != np.bool_:
            self.fail('result_dtype', method, f'flags have dtype {arr.dtype}')
            return False
        return True

    def bonferroni(self, pvals, level, m, flags):
        """flag <=> p <= level/m ; NaN never accepted."""
        flat = [float(x) for x in np.asarray(pvals, dtype=float).flatten()]
        got = [bool(x) for x in np.asarray(flags).flatten()]
        thr = level / m
        for i, (p, flag) in enumerate(zip(flat, got)):
            if p != p:
                if not flag:
                    self.fail('nan_accepted', 'bonferroni',
                              f'bin {i} has an undefined p-value and is not flagged; '
                              f'p={flat} level/m={thr!r}')
                    break
        for i, (p, flag) in enumerate(zip(flat, got)):
            if p == p and flag != (p <= thr):
                feat = 'p_eq_threshold' if p == thr else 'other'
                self.fail('bonf_def', feat, f'bin {i}: p={p!r} level/m={thr!r} flagged={flag}; '
                                            f'p={flat} level={level!r} m={m}')
                break
        return flat, got

    def holm(self, pvals, level, m, alphas, flags):
        """Validity predicate, see ASSUMPTIONS."""
        flat = [float(x) for x in np.asarray(pvals, dtype=float).flatten()]
        got = [bool(x) for x in np.asarray(flags).flatten()]
        alp = [float(x) for x in np.asarray(alphas, dtype=float).flatten()]
        bad_alpha = bad_flag = None
        for first, members, val in _groups(flat):
            ranks = range(first, first + len(members))
            want = sorted(_holm_thr(level, m, k) for k in ranks)
            have = sorted(alp[i] for i in members)
            if _bits(want) != _bits(have):
                if bad_alpha is None:
                    bad_alpha = (f'bins {members} (p={val!r}, ranks {first}..{first + len(members) - 1}) '
                                 f'report levels {have}, expected {want}')
                continue
            for i in members:
                if val != val:
                    if not got[i]:
                        self.fail('nan_accepted', 'holm',
                                  f'bin {i} has an undefined p-value and is not flagged; '
                                  f'p={flat} level={level!r}')
                        break
                elif val == alp[i]:
                    self.out.excluded += 1      # exactly on its own threshold: either answer
                elif got[i] != (val < alp[i]):
                    if bad_flag is None:
                        bad_flag = ('tie' if len(members) > 1 else 'unique',
                                    f'bin {i}: p={val!r} level of its rank={alp[i]!r} flagged={got[i]}')
        if bad_alpha is not None:
            self.fail('holm_def', 'alphas', f'{bad_alpha}; p={flat} level={level!r} alphas_i={alp}')
        if bad_flag is not None:
            self.fail('holm_def', 'flags/' + bad_flag[0],
                      f'{bad_flag[1]}; p={flat} level={level!r} alphas_i={alp} flags={got}')
        return flat, got, alp

    def subset(self, flat, level, m, bflags, hflags):
        for i, (p, bfl, hfl) in enumerate(zip(flat, bflags, hflags)):
            if bfl and not hfl:
                feat = 'nan' if p != p else 'p_eq_bonf_threshold' if p == level / m else 'other'
                self.fail('bonf_subset_holm', feat,
                          f'bin {i} (p={p!r}) is flagged by Bonferroni (level/m={level / m!r}) '
                          f'but not by Holm-Bonferroni; p={flat} level={level!r}')
                break

    def summaries(self, method, res, per_ds_flags):
        """nb_rejected, oracles(), bool for a class result; per_ds_flags are the
        flags the result itself reports."""
        counts = [int(np.count_nonzero(f)) for f in per_ds_flags]
        try:
            nbr = [int(x) for x in res.nb_rejected]
            orc = [bool(x) for x in res.oracles()]
            verdict = bool(res)
        except Exception as exc:  # the property promises these observations
            self.out.failures.append(exc_failure('summary_raises', exc, method))
            return
        if nbr != counts:
            self.fail('nb_rejected', method, f'nb_rejected={nbr}, flags counted per dataset={counts}')
        if orc != [c == 0 for c in counts]:
            self.fail('oracles', method, f'oracles()={orc}, flags counted per dataset={counts}')
        if verdict != (sum(counts) == 0):
            self.fail('bool', method, f'bool(result)={verdict} with {counts} flagged bins per dataset')


def _check_array(ver, pvals, level, m, bonf, holm_alphas, holm_flags):
    """All per-array clauses given what the code returned."""
    shape = np.shape(pvals)
    okb = ver.shape_ok('bonferroni', bonf, shape, True)
    okh = ver.shape_ok('holm', holm_flags, shape, True) and \
        ver.shape_ok('holm_alphas', holm_alphas, shape, False)
    flat = bfl = hfl = alp = None
    if okb:
        flat, bfl = ver.bonferroni(pvals, level, m, bonf)
    if okh:
        flat, hfl, alp = ver.holm(pvals, level, m, holm_alphas, holm_flags)
    if okb and okh:
        ver.subset(flat, level, m, bfl, hfl)
    return bfl, hfl, alp


def _run_pvals(case, out):
    level = case['level']
    shape = tuple(case['shape'])
    m = _size(shape)
    labels = {'pvals', f'ndim{len(shape)}'}
    if len(case['arrays']) > 1:
        labels.add('multi_dataset')
    order = 'F' if case['fortran'] else 'C'
    arrays = []
    for toks in case['arrays']:
        arr = np.array(resolve(toks, level), dtype=np.float64).reshape(shape)
        arrays.append(np.asfortranarray(arr) if case['fortran'] and arr.ndim > 1 else arr)
        labels |= _classify(arr, level, m) - {'bonf_expected_pass'}

    # (1) the static methods
    ver = _Verdicts(out, 'static')
    first = None
    for arr in arrays:
        keep = arr.copy(order=order)
        try:
            bonf = TestBonferroni.bonferroni_correction(arr, level / m)
            halp, hfl = TestHolmBonferroni.holm_bonferroni_method(arr, level)
        except Exception as exc:  # defined for every p-value array
            out.failures.append(exc_failure('static_raises', exc))
            continue
        if _bits(arr) != _bits(keep):
            ver.fail('input_modified', 'static', 'the p-value array was modified')
        res = _check_array(ver, arr, level, m, bonf, halp, hfl)
        if first is None:
            first = (arr, res)

    # (1b) positions: permute + reshape the bins of the first array
    if first is not None and first[1][0] is not None and first[1][1] is not None:
        arr, (bfl, hfl, alp) = first
        perm = case['perm']
        shapes = _shapes_of(m)
        shape2 = shapes[case['shape2'] % len(shapes)]
        flat = arr.flatten()
        arr2 = flat[perm].reshape(shape2)
        try:
            bonf2 = TestBonferroni.bonferroni_correction(arr2, level / m)
            halp2, hfl2 = TestHolmBonferroni.holm_bonferroni_method(arr2, level)
        except Exception as exc:
            out.failures.append(exc_failure('static_raises', exc, 'permuted'))
        else:
            ver2 = _Verdicts(out, 'static/permuted')
            if ver2.shape_ok('bonferroni', bonf2, shape2, True) and \
                    ver2.shape_ok('holm', hfl2, shape2, True) and \
                    ver2.shape_ok('holm_alphas', halp2, shape2, False):
                b2 = [bool(x) for x in np.asarray(bonf2).flatten()]
                h2 = [bool(x) for x in np.asarray(hfl2).flatten()]
                a2 = [float(x) for x in np.asarray(halp2).flatten()]
                if b2 != [bfl[j] for j in perm]:
                    ver2.fail('permutation', 'bonferroni',
                              f'flags do not follow the bins: p={flat.tolist()} flags={bfl}; '
                              f'perm={perm} shape={shape2} flags={b2}')
                bad = None
                for _first, members, val in _groups([float(x) for x in flat]):
                    before = sorted((alp[i], hfl[i]) for i in members)
                    after = sorted((a2[j], h2[j]) for j, src in enumerate(perm) if src in members)
                    if [(_bits(a), f) for a, f in before] != [(_bits(a), f) for a, f in after]:
                        bad = (f'bins with p={val!r}: (level, flag) {before} before, {after} after '
                               f'perm={perm} shape={shape2}')
                        break
                if bad:
                    ver2.fail('permutation', 'holm', f'{bad}; p={flat.tolist()} level={level!r}')

    # (2) the classes around a first test that hands out these p-values
    if level < 0.5:
        alpha = 2.0 * level          # alpha / 2 == level exactly
        verc = _Verdicts(out, 'class')
        _run_classes(verc, _PvalTest(shape, arrays), alpha, level, m, out)
    out.labels.extend(sorted(labels))
    out.nontrivial = 'nontrivial' in labels


def _run_classes(ver, first_test, alpha, level, m, out):
    """Both classes on ``first_test``; returns (bool bonf, bool holm) or None."""
    verdicts = []
    for method, cls in (('bonferroni', TestBonferroni), ('holm', TestHolmBonferroni)):
        try:
            res = cls(name=method, test=first_test, alpha=alpha).evaluate()
            pvalues = list(res.first_test_res.pvalue)
            flags = list(res.rejected_null_hyp)
            alphas = list(res.alphas_i) if method == 'holm' else None
        except Exception as exc:  # evaluation is defined for every comparison
            out.failures.append(exc_failure('class_raises', exc, method))
            verdicts.append(None)
            continue
        if len(flags) != len(pvalues) or (alphas is not None and len(alphas) != len(pvalues)):
            ver.fail('per_dataset', method,
                     f'{len(flags)} flag arrays for {len(pvalues)} compared datasets')
            verdicts.append(None)
            continue
        verdicts.append((res, pvalues, flags, alphas))
    if None in verdicts:
        return None
    (bres, bpv, bflags, _), (hres, hpv, hflags, halphas) = verdicts
    if len(bpv) != len(hpv) or any(_bits(a) != _bits(b) for a, b in zip(bpv, hpv)):
        ver.fail('same_pvalues', 'classes', 'the two corrections did not see the same p-values')
        return None
    for pvals, bonf, halp, hfl in zip(bpv, bflags, halphas, hflags):
        if np.size(pvals) != m:
            ver.fail('per_dataset', 'size', f'{np.size(pvals)} p-values for {m} bins')
            continue
        _check_array(ver, pvals, level, m, bonf, halp, hfl)
    ver.summaries('bonferroni', bres, bflags)
    ver.summaries('holm', hres, hflags)
    try:
        return bool(bres), bool(hres), bpv
    except Exception:   # already reported by summaries()
        return None


def _run_student(case, out):
    shape = tuple(case['shape'])
    m = _size(shape)
    labels = {'student', f'ndim{len(shape)}'}
    if len(case['others']) > 1:
        labels.add('multi_dataset')

    def pack(vals):
        arr = np.array(vals, dtype=np.float64).reshape(shape)
        return arr if shape or case['scalar_0d'] else np.float64(arr)

    nan = float('nan')
    rval = [nan if isnan else v for v, _e, isnan in case['ref']]
    rerr = [e for _v, e, _n in case['ref']]
    dsref = Dataset(pack(rval), pack(rerr), name='ref')
    others = []
    for k, bins in enumerate(case['others']):
        vals, errs = [], []
        for (v, e, _isnan), (z, scale, special) in zip(case['ref'], bins):
            if special == 2:                      # exact copy of the reference bin
                vals.append(v if not _isnan else nan)
                errs.append(e)
                continue
            err2 = e * scale
            vals.append(nan if special == 1 else v + z * math.hypot(e, err2))
            errs.append(err2)
        others.append(Dataset(pack(vals), pack(errs), name=f'ds{k}'))
    alpha = case['alpha']
    alpha_c = alpha if case['alpha_c'] is None else case['alpha_c']
    student = TestStudent(dsref, *others, name='student', alpha=alpha, ndf=case['ndf'])
    sres = student.evaluate()        # the first test is not what C06 is about (see C05)
    spass = bool(sres)
    expected_pass = True
    for pvals in sres.pvalue:
        labs = _classify(pvals, alpha_c / 2, m)
        expected_pass &= 'bonf_expected_pass' in labs
        labels |= labs - {'bonf_expected_pass'}
    if spass:
        labels.add('student_pass')
    elif expected_pass:
        labels.add('student_fail_bonf_pass')
    ver = _Verdicts(out, 'student')
    got = _run_classes(ver, student, alpha_c, alpha_c / 2, m, out)
    if got is not None:
        bpass, hpass, pvals = got
        if len(pvals) != len(others) or any(_bits(a) != _bits(b) for a, b in zip(pvals, sres.pvalue)):
            ver.fail('per_dataset', 'pvalues', f'{len(pvals)} results for {len(others)} datasets, or '
                                               'not the p-values of the first test')
        if spass and case['alpha_c'] is None:
            for method, ok in (('bonferroni', bpass), ('holm', hpass)):
                if not ok:
                    ver.fail('student_pass_implies', method,
                             f'Student passes bin by bin at alpha={alpha!r} but the {method} '
                             f'correction fails at the same alpha; p={[np.asarray(p).tolist() for p in pvals]}')
    out.labels.extend(sorted(labels))
    out.nontrivial = 'nontrivial' in labels


def run_case(case):
    out = Outcome()
    if case['kind'] == 'pvals':
        _run_pvals(case, out)
    else:
        _run_student(case, out)
    # one failure per signature and case is enough
    seen, uniq = set(), []
    for fail in out.failures:
        if fail.signature not in seen:
            seen.add(fail.signature)
            uniq.append(fail)
    out.failures = uniq
    return out


# --------------------------------------------------------------------------
# predicates for known_findings.json (on the *input*)

def _has_nan_pvalue(case, _failure=None):
    if case['kind'] == 'pvals':
        return any(v != v for toks in case['arrays'] for v in resolve(toks, case['level']))
    # Student: the p-value is undefined when exactly one of the two values is NaN
    return any(sp != 2 and (isnan != (sp == 1))
               for bins in case['others'] for (_v, _e, isnan), (_z, _s, sp) in zip(case['ref'], bins))


def _has_p_on_bonf_threshold(case, _failure=None):
    if case['kind'] != 'pvals':
        return False
    level = case['level']
    return any(v == level / len(toks) for toks in case['arrays'] for v in resolve(toks, level))


KNOWN_PREDICATES = {'nan_pvalue': _has_nan_pvalue,
                    'p_on_bonferroni_threshold': _has_p_on_bonf_threshold}

MANIFEST = {
    'text': ('Generated search (Hypothesis) over float64 p-value arrays (0-d to 3-D, 1-40 bins, ties, '
             'exact 0/1, NaN, values constructed exactly on / one ulp around level/m and '
             'level/(m-k+1), C and Fortran layout, 1-3 compared datasets) through the two static '
             'methods and through TestBonferroni/TestHolmBonferroni, plus both classes wrapped around '
             'TestStudent on generated datasets. Oracle: Bonferroni flag <=> p <= level/m; '
             'Holm-Bonferroni validity predicate on (alphas_i, flag) pairs per group of equal '
             'p-values (any tie-breaking accepted, NaN ranked last); NaN always flagged; '
             'Bonferroni-flagged subset of Holm-flagged; flags follow a generated permutation + '
             'reshape; nb_rejected / oracles() / bool agree with the flags; Student passing at '
             'alpha implies both corrections pass at alpha. Exploration, not proof.'),
    'note': ('A p-value exactly equal to its own Holm threshold is accepted flagged or unflagged '
             '(property text "below" vs documented "<=" vs the subset relation); the p-values of the '
             'Student test itself are taken from the result (their correctness is C05).'),
    'technique': 'property-based testing (Hypothesis), definitional + validity-predicate oracle, metamorphic permutation/reshape',
    'design_ref': 'DESIGN.md section 3, C06',
}
