"""C15 -- generated tasks correspond one-to-one to what was asked for.

A case is either

* a *creation history* (``kind == 'hist'``): a pool of base tasks and a list of
  operations (``Use.from_func`` / ``using`` with stacking, ``get_task``, ``map``,
  ``RunTaskFactory.from_executable`` / ``from_task`` / ``copy`` / ``make``,
  ``UseRun`` pipelines, ``task_stats`` / ``test_stats`` /
  ``test_stats_by_labels``) that ``run_case`` interprets against the real
  objects and against a registry keyed by the *request*; the history ends with a
  job list taken from the tasks that were created, which is collected; or
* a *job graph* (``kind == 'job'``): a DAG of plain tasks with hard and soft
  edges and deliberately repeated names, collected through
  ``close_dependency_graph`` / ``check_unique_task_names`` / ``collect_tasks``.

The oracle never looks at task names or at the caches: a request is the tuple
(function object, injected (task, key) pairs, keyword names, dependency kind)
resp. (factory, requested name, command line, dependencies); identical requests
must return the very same task, different requests different task objects (or
an explicit exception), and ``task.do`` on an environment prepared from the
*requested* injected tasks must return what the *requested* function yields
(resp. ``/bin/echo`` must print the requested argument list).
"""
import errno
import functools
import os
import shutil
import tempfile

from hypothesis import strategies as st

from valjean.config import Config
from valjean.cosette.env import Env
from valjean.cosette.pythontask import PythonTask
from valjean.cosette.run import RunTask, RunTaskFactory
from valjean.cosette.task import Task, TaskStatus, close_dependency_graph
from valjean.cosette.use import Use, UseRun, using
from valjean.cambronne.common import check_unique_task_names, collect_tasks
from valjean.dyn_import import dyn_import
from valjean.gavroche.diagnostics import stats as vstats
from vlib.core import Failure, Outcome, exc_failure

ID = 'C15'
LEVEL = 'exploration'
RULE = ('case = creation history (8 in 10): 2-4 base tasks (names from a pool of 4; repeated names on '
        'distinct objects in 1 history out of 5), an initial run-task factory, and 1-10 (thorough: 1-16) '
        'operations drawn from one of five mixes (wide / Use-centred / stacking-centred / factory-centred / '
        'statistics-centred): Use.from_func / using on one of 15 functions (two "def alpha", "def beta", two '
        'lambdas, two callables with __qualname__ only, two functools.partial applications named alpha, two closures of one nested def with different captured values, two evaluations of one def with different defaults, two partial applications extending the positional arguments of another one) or '
        'stacked on an existing Use; injected task from the live pool (base tasks, Use tasks, RunTasks and '
        'stats tasks generated earlier; pool positions modulo the pool size, wrappers and UseRun objects '
        'counted from the most recent); key result / alt / stdout / None; positional or keyword kw0 / kw1 / kw2; '
        'hard / soft; serialize; get_task again; the same request rebuilt from scratch with the keyword '
        'injections stacked in the opposite order; map(f); RunTaskFactory.from_executable(/bin/echo) / '
        'from_task with 4 default-argument templates and factory name echo / fb / None, copy(); '
        'make(name n0 / n1 / None, extra_args as list or tuple, format keywords, deps, soft_deps); '
        'UseRun.from_factory / map / call; task_stats / test_stats / test_stats_by_labels with 2 names. '
        'Use._CACHE is emptied at the start of every case. Every returned task is compared by identity '
        'with the tasks of all earlier requests, its depends_on / soft_depends_on with the requested sets, '
        'and it is executed once (task.do on an Env built from the requested tasks; factory tasks really '
        'spawn /bin/echo). The history ends with a job list drawn from the live pool that is closed and '
        'name-checked. case = job graph (2 in 10): DAG of 1-8 plain tasks, hard / soft edges to earlier '
        'nodes, 8 names with two of them favoured, root list with repeats; close_dependency_graph, '
        'check_unique_task_names and collect_tasks (through a job file) against a DFS over object '
        'identities. non-trivial = history in which two different requests receive the same name under the '
        'documented naming scheme (sorted hard-dependency names + "." + function name; requested or hashed '
        'name + "." + factory name), decided from the requests before the code is called; or job graph with '
        'a repeated name whose closure is strictly larger than its root list. distinct = structural hash '
        'of the case')
ASSUMPTIONS = [
    'a request is identified by the function OBJECT, the injected (task, key) pairs with their position '
    'or keyword name, and the dependency kind; serialize is not part of the request (requests that '
    'differ only in serialize carry no identity assertion)',
    'two distinct task objects are interchangeable as injected tasks / dependencies only when they '
    'were generated for equivalent requests (e.g. the RunTasks two copies of a factory generate for '
    'one command line): requests that differ only in such a pair carry no identity assertion; two '
    'tasks that merely share a name are different tasks',
    'factory requests are compared by their effect: requested name, resulting command line, '
    'dependencies; "identical request => same task" is asserted only on the same factory object '
    '(the documentation says another factory defeats the cache); subprocess_args are not generated',
    'identical task_stats/test_stats requests carry no same-task assertion (the returned '
    'EvalTestTask is documented as a new task); only sharing between different requests is checked',
    'an exception from get_task()/make()/stats is accepted as the "explicit error" only when an '
    'earlier request that was not literally the same used the same function name (resp. the same '
    'factory name and the same requested task name / both unnamed, resp. the same stats name); a '
    'request literally identical to an earlier one must be answered with the task of that one',
    'stacked positional injection: the outer decorator provides the first positional argument '
    '(documented in valjean/cosette/use.py); the expected result is computed by calling the '
    'requested function directly on the model values',
    'job graphs are acyclic (close_dependency_graph does not terminate on a cycle; cycles are '
    "the dependency graph's business, C16)",
    'command-line tokens are plain words (no leading dash, no backslash) so that /bin/echo prints '
    'them verbatim',
    'serialize=True on a task whose generated name is longer than a file name may be (a Use over two '
    'tasks with hashed names) fails with ENAMETOOLONG when the task runs: counted as excluded, the '
    'property does not speak about output directories',
]
BUDGET = {'quick': {'cases': 20000, 'shards': 16, 'seconds': 150, 'shrink_s': 20},
          'thorough': {'cases': 600000, 'shards': 16, 'seconds': 840, 'shrink_s': 45}}
# fractions of generated cases showing the class at least once; about half of what the quick tier measures
FLOORS = {'nt-name-collision': 0.15, 'nt-job-closure-with-repeated-names': 0.03, 'req-use-stacked': 0.08,
          'req-use-kw': 0.15, 'req-use-mixed': 0.05, 'req-use-soft': 0.1, 'req-make-named': 0.1,
          'req-make-unnamed': 0.1, 'req-stats-task': 0.03, 'req-stats-test': 0.03, 'req-stats-bylabels': 0.03,
          'pair-function': 0.08, 'pair-key': 0.02, 'pair-kwarg': 0.012, 'pair-task': 0.12,
          'pair-make-named-arguments': 0.03, 'pair-make-unnamed-deps': 0.015, 'pair-stats-tasks': 0.012,
          'job-graph-duplicate-name-in-closure': 0.025, 'job-graph-duplicate-name-outside-closure': 0.025,
          'req-userun-posts=1': 0.012, 'req-map': 0.05, 'req-use-identical-repeated': 0.1,
          'req-make-identical-repeated': 0.025, 'req-rebuild': 0.03}

NAMES = ['t0', 't1', 't2', 't3']
FACTORY_NAMES = [None, 'echo', 'fb']
MAKE_NAMES = [None, 'n0', 'n1']
DARGS = [[], ['d'], ['{x}'], ['p{x}', '{y}']]
TOKENS = ['a', 'b', 'c c', '1']
STATS_NAMES = ['s0', 's1']
JOBFILE = os.path.join(os.path.dirname(os.path.dirname(os.path.abspath(__file__))),
                       'vlib', 'c15job', 'c15_jobfile.py')


# --------------------------------------------------------------------------
# generation (module constants: Hypothesis caches them)

# NB: one_of() drops repeated element strategies, so weights are expressed with sampled_from.
_FN = st.sampled_from([0, 0, 1, 1, 2, 3, 4, 5, 6, 7, 8, 9, 10, 9, 10, 11, 12, 7, 13, 14, 13])
_TASK = st.sampled_from([0, 1, 2, 3] * 4 + list(range(4, 24)))
_TASKS = st.lists(_TASK, max_size=2)
_SOME_TASKS = st.one_of(st.just([]), _TASKS)
_KEY = st.sampled_from([0, 0, 0, 1, 2])
_KWARG = st.sampled_from([None, None, None, None, 'kw0', 'kw1', 'kw2'])
_POOL = st.sampled_from([0, 1] * 6 + list(range(2, 14)))
_EXTRA = st.one_of(st.none(), st.lists(st.sampled_from(TOKENS), max_size=2))
_FMT = st.dictionaries(st.sampled_from(['x', 'y']), st.sampled_from(['1', '2']), max_size=2)
_MAKE = {'name': st.sampled_from([None, None, 'n0', 'n0', 'n1']), 'extra': _EXTRA,
         'tup': st.sampled_from([False, False, False, True]), 'kw': st.one_of(st.just({}), _FMT)}
_USE_FIELDS = {
    'op': st.just('use'), 'fn': _FN, 'on': st.none(), 't': _TASK,
    'key': _KEY, 'kwarg': _KWARG, 'soft': st.sampled_from([False, False, True]),
    'ser': st.sampled_from([False, False, False, True]), 'using': st.booleans(),
    'get': st.sampled_from([True, True, True, False])}
_USE = st.fixed_dictionaries(_USE_FIELDS)
_STACK = st.fixed_dictionaries(dict(_USE_FIELDS, on=_POOL, kwarg=st.sampled_from([None, 'kw0', 'kw1', 'kw2'])))
_GET = st.fixed_dictionaries({'op': st.just('get'), 'w': _POOL})
_REBUILD = st.fixed_dictionaries({'op': st.just('rebuild'), 'w': _POOL})
_MAP = st.fixed_dictionaries({'op': st.just('map'), 'w': _POOL, 'fn': _FN})
_FACTORY = st.fixed_dictionaries({
    'op': st.just('factory'), 'from_task': st.sampled_from([False, False, True]),
    'name': st.sampled_from(FACTORY_NAMES), 'dargs': st.integers(0, 3), 't': st.integers(0, 3),
    'deps': _SOME_TASKS, 'soft': _SOME_TASKS})
_FACTORY0 = st.fixed_dictionaries({
    'op': st.just('factory'), 'from_task': st.sampled_from([False, False, False, True]),
    'name': st.sampled_from(['echo', 'echo', None]), 'dargs': st.sampled_from([0, 0, 1, 2, 3, 3]),
    't': st.integers(0, 1), 'deps': st.just([]), 'soft': st.just([])})
_COPY = st.fixed_dictionaries({'op': st.just('copy'), 'f': _POOL})
_MAKEOP = st.fixed_dictionaries(dict(_MAKE, op=st.just('make'), f=_POOL, deps=_SOME_TASKS, soft=_SOME_TASKS))
_USERUN = st.fixed_dictionaries({'op': st.just('userun'), 'f': _POOL})
_URMAP = st.fixed_dictionaries({'op': st.just('urmap'), 'u': _POOL, 'fn': _FN})
_URCALL = st.fixed_dictionaries(dict(_MAKE, op=st.just('urcall'), u=_POOL, fn=_FN, kwarg=_KWARG))
_STATS = st.fixed_dictionaries({
    'op': st.just('stats'), 'kind': st.sampled_from(['task', 'test', 'bylabels']),
    'name': st.sampled_from([0, 0, 1]), 'tasks': st.lists(_TASK, min_size=1, max_size=3),
    'desc': st.sampled_from(['', '', 'about']), 'labels': st.sampled_from([None, None, {'l': 'v'}]),
    'by': st.sampled_from([('l',), ('l', 'm')])})
# focused ingredients: the same few again and again, so that requests differ in one component
_USE_NARROW = st.fixed_dictionaries({
    'op': st.just('use'), 'fn': st.sampled_from([0, 1, 3, 4, 7, 8]), 'on': st.none(), 't': st.integers(0, 1),
    'key': st.sampled_from([0, 0, 1]), 'kwarg': st.sampled_from([None, None, 'kw0']),
    'soft': st.sampled_from([False, False, True]), 'ser': st.just(False), 'using': st.booleans(),
    'get': st.just(True)})
_MAKE_NARROW = st.fixed_dictionaries({
    'op': st.just('make'), 'f': st.integers(0, 1), 'name': st.sampled_from([None, 'n0']),
    'extra': st.one_of(st.none(), st.lists(st.sampled_from(['a', 'b']), max_size=2)),
    'tup': st.just(False), 'kw': st.sampled_from([{}, {}, {'x': '1'}]),
    'deps': st.lists(st.integers(0, 1), max_size=1), 'soft': st.lists(st.integers(0, 1), max_size=1)})
_STATS_NARROW = st.fixed_dictionaries({
    'op': st.just('stats'), 'kind': st.sampled_from(['task', 'test', 'bylabels']), 'name': st.just(0),
    'tasks': st.lists(st.integers(0, 2), min_size=1, max_size=2), 'desc': st.sampled_from(['', '', 'about']),
    'labels': st.sampled_from([None, None, {'l': 'v'}]), 'by': st.sampled_from([('l',), ('l', 'm')])})
_STACK_NARROW = st.fixed_dictionaries(dict(
    _USE_FIELDS, on=st.integers(0, 1), t=st.integers(0, 5), key=st.just(0), ser=st.just(False),
    kwarg=st.sampled_from([None, 'kw0', 'kw0', 'kw1', 'kw1', 'kw2', 'kw2']),
    soft=st.sampled_from([False, False, False, True])))
_OPS = {'stack-narrow': _STACK_NARROW, 'rebuild': _REBUILD, 'use': _USE, 'stack': _STACK, 'get': _GET, 'map': _MAP, 'factory': _FACTORY, 'copy': _COPY,
        'make': _MAKEOP, 'userun': _USERUN, 'urmap': _URMAP, 'urcall': _URCALL, 'stats': _STATS,
        'use-narrow': _USE_NARROW, 'make-narrow': _MAKE_NARROW, 'stats-narrow': _STATS_NARROW}
_MIXES = {
    'wide': {'use': 5, 'stack': 3, 'get': 1, 'rebuild': 1, 'map': 2, 'factory': 1, 'copy': 1, 'make': 4, 'userun': 1,
             'urmap': 2, 'urcall': 3, 'stats': 2},
    'use': {'use-narrow': 6, 'stack': 1, 'map': 2, 'get': 1},
    'stack': {'use-narrow': 2, 'stack-narrow': 6, 'rebuild': 3, 'get': 1, 'make-narrow': 1},
    'make': {'make-narrow': 6, 'copy': 1, 'factory': 1, 'urmap': 1, 'urcall': 2},
    'stats': {'stats-narrow': 4, 'use-narrow': 2, 'make-narrow': 1},
}


def _op(mix):
    kinds = [kind for kind, weight in _MIXES[mix].items() for _ in range(weight)]
    return st.sampled_from(kinds).flatmap(_OPS.__getitem__)


_OP = {mix: _op(mix) for mix in _MIXES}
_MIX = st.sampled_from(['wide'] * 5 + ['use'] * 2 + ['stack'] * 2 + ['make'] * 2 + ['stats'])
_BASE_UNIQUE = st.lists(st.integers(0, 3), min_size=2, max_size=4, unique=True)
_BASE_ANY = st.lists(st.integers(0, 2), min_size=2, max_size=4)
_JOBSEL = st.lists(st.integers(0, 40), max_size=5)
_NODE = st.fixed_dictionaries({'n': st.sampled_from([0, 1, 2, 3, 4, 5, 6, 7, 0, 1]),
                               'hard': st.lists(st.integers(0, 7), max_size=2),
                               'soft': st.lists(st.integers(0, 7), max_size=2)})
_JOB = st.fixed_dictionaries({'kind': st.just('job'), 'nodes': st.lists(_NODE, min_size=1, max_size=8),
                              'roots': st.lists(st.integers(0, 7), min_size=1, max_size=4)})
_DICE = st.integers(0, 9)


@st.composite
def _case(draw, max_ops):
    if draw(_DICE) >= 8:
        return draw(_JOB)
    base = draw(_BASE_ANY if draw(_DICE) >= 8 else _BASE_UNIQUE)
    mix = draw(_MIX)
    ops = draw(st.lists(_OP[mix], min_size=1 if mix == 'wide' else 2, max_size=max_ops))
    return {'kind': 'hist', 'base': base, 'factory0': draw(_FACTORY0), 'ops': ops, 'job': draw(_JOBSEL)}


def strategy(tier):
    return _case(10 if tier == 'quick' else 16)


# --------------------------------------------------------------------------
# the functions that get wrapped

def _res(tag, args, kwargs):
    return (tag, list(args), sorted(kwargs.items(), key=lambda kv: kv[0]))


def _tagged(tag, *args, **kwargs):
    return _res(tag, args, kwargs)


class _QualnameOnly:
    """A callable whose ``__name__`` is None (Use then falls back on ``__qualname__``)."""
    __name__ = None

    def __init__(self, tag, qualname):
        self.tag = tag
        self.__qualname__ = qualname

    def __call__(self, *args, **kwargs):
        return _res(self.tag, args, kwargs)


def _make_funcs():
    def alpha(*args, **kwargs):
        return _res('alpha#0', args, kwargs)
    first = alpha

    def alpha(*args, **kwargs):   # pylint: disable=function-redefined
        return _res('alpha#1', args, kwargs)
    second = alpha

    def beta(*args, **kwargs):
        return _res('beta', args, kwargs)
    lam0 = lambda *args, **kwargs: _res('lambda#0', args, kwargs)   # noqa: E731
    lam1 = lambda *args, **kwargs: _res('lambda#1', args, kwargs)   # noqa: E731
    part = functools.partial(_tagged, 'alpha#partial')
    functools.update_wrapper(part, first)     # as valjean.eponine.tripoli4.use.partial does
    # a second partial application of the same function to another argument: what
    # tripoli4.use.using_parse_result(factory, batch_number) builds for two batch numbers
    part2 = functools.partial(_tagged, 'alpha#partial2')
    functools.update_wrapper(part2, first)
    # partial applications whose positional arguments are a strict prefix / extension of those
    # of ``part`` (same function, same keywords)
    part3 = functools.partial(_tagged, 'alpha#partial', 'more')
    functools.update_wrapper(part3, first)
    part4 = functools.partial(_tagged, 'alpha#partial', 'more', 'and more')
    functools.update_wrapper(part4, first)
    # two evaluations of ONE nested definition capturing different values (what a helper that
    # builds the function to wrap returns: same code object, same name, different closure),
    # and two evaluations of one definition with different default values
    def closing(tag):
        def delta(*args, **kwargs):
            return _res(tag, args, kwargs)
        return delta

    def defaulting(tag):
        def epsilon(*args, _tag=tag, **kwargs):
            return _res(_tag, args, kwargs)
        return epsilon
    return [first, second, beta, lam0, lam1, _QualnameOnly('gamma#0', 'gamma'),
            _QualnameOnly('gamma#1', 'gamma'), part, part2,
            closing('delta#0'), closing('delta#1'), defaulting('epsilon#0'),
            defaulting('epsilon#1'), part3, part4]


def _fname(func):
    return func.__qualname__ if func.__name__ is None else func.__name__


def _noop():
    return {}, TaskStatus.DONE


def _clear_caches():
    cache = getattr(Use, '_CACHE', None)
    if hasattr(cache, 'clear'):
        cache.clear()


# --------------------------------------------------------------------------
# the world of one history

class _World:
    def __init__(self, out):
        self.out = out
        self.funcs = _make_funcs()
        self.live = []        # dict(task, env, kind)
        self.uids = {}        # id(task) -> uid
        self.reqs = []        # dict(kind, same, diff, uid, conflict)
        self.wrappers = []    # dict(use, fn, pos, kw, soft, ser)
        self.factories = []   # dict(obj, name, exe, dargs, fkw, deps, soft)
        self.useruns = []     # dict(obj, f, posts)
        self.tmp = None
        self._config = None
        self.names = {}       # observed task name -> set of 'diff' keys
        self.predicted = {}   # name under the documented scheme -> set of 'diff' keys
        self.labels = set()
        self.step = 0
        self.factory0 = None

    # ---- plumbing
    def fail(self, clause, signature, detail):
        self.out.failures.append(Failure(clause, signature, f'step {self.step}: {detail}'[:600]))

    def exc(self, clause, exc, extra=''):
        fail = exc_failure(clause, exc, extra)
        fail.detail = f'step {self.step}: {fail.detail}'
        self.out.failures.append(fail)

    def config(self):
        if self._config is None:
            self.tmp = tempfile.mkdtemp(prefix='c15-', dir='/dev/shm')
            self._config = Config({'path': {'output-root': os.path.join(self.tmp, 'out'),
                                            'log-root': os.path.join(self.tmp, 'log'),
                                            'report-root': os.path.join(self.tmp, 'rep')}})
        return self._config

    def close(self):
        if self.tmp is not None:
            shutil.rmtree(self.tmp, ignore_errors=True)

    def add_live(self, task, env, kind):
        uid = len(self.live)
        self.live.append({'task': task, 'env': env, 'kind': kind, 'cid': uid})
        self.uids[id(task)] = uid
        return uid

    def cid(self, uid):
        """Content id: the uid of the first task generated for an equivalent request.  Two
        distinct objects with one cid are interchangeable (e.g. the RunTasks that two copies of
        a factory generate for the same command line); two tasks that merely share a name are not."""
        return self.live[uid]['cid']

    def task(self, uid):
        return self.live[uid]['task']

    def tname(self, uid):
        return self.live[uid]['task'].name

    def pick(self, idx):
        return idx % len(self.live)

    def key_for(self, uid, kidx):
        kind = self.live[uid]['kind']
        keys = {'base': ['result', 'alt', None], 'use': ['result', None], 'stats': ['result', None],
                'run': ['result', 'stdout', None]}[kind]
        return keys[kidx % len(keys)]

    def value(self, uid, key):
        env = self.live[uid]['env']
        if key is None:
            return (self.tname(uid), env)
        return env[key]

    def closure(self, uids):
        """Reference transitive closure (hard and soft) over object identities."""
        seen, order, stack = set(), [], [self.task(u) for u in uids]
        while stack:
            tsk = stack.pop()
            if id(tsk) in seen:
                continue
            seen.add(id(tsk))
            order.append(tsk)
            stack.extend(tsk.depends_on)
            stack.extend(tsk.soft_depends_on)
        return order

    def show(self, kind, diff):
        """Readable form of a request key (content ids replaced by task names)."""
        def nam(cid):
            return f'{self.tname(cid)}#{cid}'
        if kind == 'use':
            tag = self.funcs[diff[0]]()[0]
            return (f'{tag}(positional {[(nam(c), k) for c, k in diff[1]]}, keywords '
                    f'{[(a, nam(c), k) for a, (c, k) in diff[2]]}, {"soft" if diff[3] else "hard"})')
        if kind == 'make':
            return (f'make(name={diff[0]!r}, command {list(diff[1])}, deps {[nam(c) for c in diff[2]]}, '
                    f'soft_deps {[nam(c) for c in diff[3]]})')
        if kind == 'stats':
            return (f'{diff[0]}_stats(name={diff[1]!r}, tasks {[nam(c) for c in diff[2]]}, '
                    f'description={diff[3]!r}, labels={dict(diff[4])}, by_labels={diff[5]})')
        return f'{kind} {diff!r}'

    # ---- identity rules
    def judge(self, kind, same, diff, task, what, feature):
        """Compare the identity of a returned task with all earlier requests.
        Returns 'new', 'known' or None (a failure was recorded)."""
        if not isinstance(task, Task):
            self.fail(f'{what}_type', f'C15/{what}_type', f'{type(task).__name__} returned instead of a task')
            return None
        if same is not None:
            for req in self.reqs:
                if req['kind'] == kind and req['same'] == same:
                    if self.task(req['uid']) is not task:
                        self.fail(f'{what}_identical_not_same', f'C15/{what}_identical_not_same/{feature}',
                                  f'identical request returned {task!r} (id {id(task):#x}) instead of the '
                                  f'task of the first request {self.task(req["uid"])!r}: '
                                  f'{self.show(kind, diff)}')
                        return None
                    break
        for req in self.reqs:
            if (req['kind'] != kind or req['diff'] != diff) and self.task(req['uid']) is task:
                if feature == 'hard' and req['kind'] == 'use' and _differ(req, kind, diff) == 'task' and \
                        self.injected_names(req['diff']) == self.injected_names(diff):
                    # the only difference: distinct injected tasks that carry the same name
                    feature += '/same-named-tasks'
                self.fail(f'{what}_shared', f'C15/{what}_shared/{feature}',
                          f'task {task.name!r} of the earlier request {self.show(req["kind"], req["diff"])} '
                          f'was returned for the different request {self.show(kind, diff)} '
                          f'(differs in: {_differ(req, kind, diff)})')
                return None
        return 'known' if id(task) in self.uids else 'new'

    def injected_names(self, diff):
        return ([self.tname(c) for c, _ in diff[1]], [(a, self.tname(c)) for a, (c, _) in diff[2]])

    def record(self, kind, same, diff, uid, conflict):
        for req in self.reqs:
            if req['kind'] == kind and req['diff'] == diff:
                self.live[uid]['cid'] = min(self.cid(uid), self.cid(req['uid']))
                break
        self.reqs.append({'kind': kind, 'same': same, 'diff': diff, 'uid': uid, 'conflict': conflict})
        seen = self.names.setdefault(self.tname(uid), set())
        seen.add((kind, diff))
        if len(seen) > 1:
            self.labels.add(f'observed-one-name-two-requests-{kind}')

    def predict(self, kind, name, diff):
        """Non-triviality: the name the documented scheme gives to this request (anchors of the
        property: sorted hard-dependency names + '.' + function name; requested or hashed name +
        '.' + factory name) is also the name of a different request of this history.  Computed
        from the requests alone, before the code under test is called."""
        seen = self.predicted.setdefault(name, set())
        seen.add((kind, diff))
        if len(seen) > 1:
            self.out.nontrivial = True
            self.labels.add('nt-name-collision')
            self.labels.add(f'collision-{kind}')

    def orphan(self, *tasks):
        """Tasks that exist but could not be attributed to a request (because a check below them
        failed): they stay visible to the identity rules as the tasks of 'some other request'."""
        for task in tasks:
            if isinstance(task, Task) and id(task) not in self.uids:
                uid = self.add_live(task, None, 'use')
                self.reqs.append({'kind': 'orphan', 'same': None, 'diff': ('orphan', uid), 'uid': uid,
                                  'conflict': None})

    def error_allowed(self, kind, conflict, same):
        """An exception is the 'explicit error' of the property when an earlier request used the
        same function name (factory and task name, statistics name) without being literally the
        same request; an identical earlier request must be answered with its task."""
        return any(req['kind'] == kind and req['conflict'] == conflict
                   and (req['same'] is None or req['same'] != same) for req in self.reqs)

    def check_deps(self, task, hard, soft, what, feature):
        good = True
        for attr, want in (('depends_on', hard), ('soft_depends_on', soft)):
            got = getattr(task, attr)
            same = (sorted(self.cid(self.uids[id(t)]) if id(t) in self.uids else -1 for t in got)
                    == sorted(self.cid(u) for u in set(want)))
            if not same:
                good = False
                self.fail(f'{what}_deps', f'C15/{what}_deps/{attr}/{feature}',
                          f'{task.name!r}.{attr} = {sorted(t.name for t in got)}, requested '
                          f'{sorted(self.tname(u) for u in set(want))}')
        return good

    def env_for(self, uids):
        """Environment holding the model sections of the given tasks; None if it cannot be
        built (a dependency whose own check failed, or two different tasks with one name)."""
        env, owner = Env(), {}
        for uid in uids:
            sect = self.live[uid]['env']
            name = self.tname(uid)
            if sect is None or owner.setdefault(name, uid) != uid:
                return None
            env[name] = sect
        return env

    # ---- Use
    def new_wrapper(self, use, fn, pos, kw, soft, ser):
        self.wrappers.append({'use': use, 'fn': fn, 'pos': pos, 'kw': kw, 'soft': soft, 'ser': ser})
        return self.wrappers[-1]

    def use_keys(self, wmod):
        kws = sorted(wmod['kw'].items(), key=lambda kv: kv[0])
        ident = (wmod['fn'], tuple(wmod['pos']), tuple(kws), wmod['soft'])
        named = (wmod['fn'], tuple((self.cid(u), k) for u, k in wmod['pos']),
                 tuple((a, (self.cid(u), k)) for a, (u, k) in kws), wmod['soft'])
        return ident, named

    def use_request(self, wmod, getter):
        """One get_task() request on a wrapper.  Returns the uid of the task or None."""
        ident, named = self.use_keys(wmod)
        fname = _fname(self.funcs[wmod['fn']])
        feature = 'soft' if wmod['soft'] else 'hard'
        same = ident + (wmod['ser'],)
        self.note_pairs(wmod, named, fname)
        injected = list(wmod['pos']) + list(wmod['kw'].values())
        hard_names = [] if wmod['soft'] else sorted({self.tname(u) for u, _ in injected})
        self.predict('use', 'use:' + ','.join(hard_names) + '.' + fname, named)
        shape = ('mixed' if wmod['pos'] and wmod['kw'] else 'kw' if wmod['kw'] else 'pos')
        self.labels.add(f'req-use-{shape}')
        self.labels.add(f'req-use-{feature}')
        if len(injected) > 1:
            self.labels.add('req-use-stacked')
        if any(r['kind'] == 'use' and r['same'] == same for r in self.reqs):
            self.labels.add('req-use-identical-repeated')
        try:
            task = getter()
        except Exception as exc:   # the property allows an explicit error for a conflicting request
            if any(r['kind'] == 'use' and r['same'] == same for r in self.reqs):
                self.exc('use_identical_raises', exc, feature)
            elif self.error_allowed('use', fname, same):
                self.labels.add('explicit-error')
                self.out.nontrivial = True
            else:
                self.exc('use_raises', exc, feature)
            return None
        verdict = self.judge('use', same, named, task, 'use', feature)
        if verdict is None:
            return None
        if verdict == 'new':
            uid = self.add_live(task, None, 'use')
            first = True
        else:
            uid = self.uids[id(task)]
            first = not any(r['kind'] == 'use' and r['same'] == same for r in self.reqs)
            if first:
                self.labels.add('use-equivalent-request-interchangeable-task-or-serialize')
        self.record('use', same, named, uid, fname)
        if not first:
            self.labels.add('use-identical-request-repeated')
            return uid
        deps = [u for u, _ in injected]
        hard, soft = ([], deps) if wmod['soft'] else (deps, [])
        self.check_deps(task, hard, soft, 'use', feature)
        env = self.env_for(deps)
        if env is None:
            self.out.excluded += 1
            return uid
        expected = self.funcs[wmod['fn']](
            *[self.value(u, k) for u, k in reversed(wmod['pos'])],
            **{a: self.value(u, k) for a, (u, k) in wmod['kw'].items()})
        try:
            env_up, status = task.do(env=env, config=self.config())
            result = env_up[task.name]['result']
        except OSError as exc:
            if exc.errno == errno.ENAMETOOLONG and wmod['ser']:
                # serialize=True makes a directory called like the task; the name of a task over two
                # hash-named tasks exceeds what a file system accepts.  Not this property's business.
                self.out.excluded += 1
                self.labels.add('excluded-serialize-name-too-long')
                return uid
            self.exc('use_do_raises', exc, shape)
            return uid
        except Exception as exc:
            self.exc('use_do_raises', exc, shape)
            return uid
        if status != TaskStatus.DONE or result != expected:
            self.fail('use_behaviour', f'C15/use_behaviour/{shape}/{feature}',
                      f'{task.name!r}.do gave status {status}, result {result!r}; the requested '
                      f'function on the requested values gives {expected!r}')
            return uid
        if verdict == 'new':
            self.live[uid]['env'] = {'result': expected}
        self.labels.add(f'use-executed-{shape}')
        if len(injected) > 1:
            self.labels.add('use-stacked')
        return uid

    def note_pairs(self, wmod, named, fname):
        """Labels: in which component does this request differ from earlier ones that use a
        function of the same name?"""
        for req in self.reqs:
            if req['kind'] != 'use' or req['conflict'] != fname or req['diff'] == named:
                continue
            self.labels.add('pair-' + _differ(req, 'use', named).split(',')[0])

    # ---- factories
    def new_factory(self, obj, model):
        self.factories.append(dict(model, obj=obj))
        return self.factories[-1]

    def default_factory(self):
        if not self.factories:     # the first factory of a history is part of the case
            self.op_factory(self.factory0)
        return self.factories

    def make_keys(self, fidx, opn):
        fmod = self.factories[fidx]
        extra = list(opn['extra'] or [])
        merged = dict(fmod['fkw'])
        merged.update(opn['kw'])
        cli = [fmod['exe']] + [arg.format(**merged) for arg in fmod['dargs']] + extra
        hard = sorted(set(fmod['deps']) | {self.pick(t) for t in opn.get('deps', [])})
        soft = sorted(set(fmod['soft']) | {self.pick(t) for t in opn.get('soft', [])})
        same = (fidx, opn['name'], tuple(extra), tuple(sorted(opn['kw'].items())), tuple(hard), tuple(soft))
        diff = (opn['name'], tuple(cli), tuple(sorted({self.cid(u) for u in hard})),
                tuple(sorted({self.cid(u) for u in soft})))
        conflict = (fmod['name'], opn['name'])
        return same, diff, conflict, cli, hard, soft

    def make_kwargs(self, opn):
        kwargs = dict(opn['kw'])
        if opn['name'] is not None:
            kwargs['name'] = opn['name']
        if opn['extra'] is not None:
            kwargs['extra_args'] = tuple(opn['extra']) if opn['tup'] else list(opn['extra'])
        for key in ('deps', 'soft'):
            if opn.get(key):
                uids = []
                for idx in opn[key]:
                    if self.pick(idx) not in uids:
                        uids.append(self.pick(idx))
                kwargs['deps' if key == 'deps' else 'soft_deps'] = [self.task(u) for u in uids]
        return kwargs

    def make_request(self, fidx, opn, getter):
        same, diff, conflict, cli, hard, soft = self.make_keys(fidx, opn)
        feature = 'unnamed' if opn['name'] is None else 'named'
        for req in self.reqs:
            if req['kind'] == 'make' and req['diff'] != diff and req['conflict'] == conflict:
                self.labels.add('pair-make-' + feature + '-' + _differ(req, 'make', diff).split(',')[0])
        fmod = self.factories[fidx]
        fident = fmod['name'] or repr((fmod['exe'], fmod['dargs'], fmod['from']))
        given = opn['name'] or repr((list(opn['extra'] or []), sorted(dict(fmod['fkw'], **opn['kw']).items())))
        self.predict('make', f'make:{given}.{fident}', diff)
        self.labels.add(f'req-make-{feature}')
        if any(r['kind'] == 'make' and r['same'] == same for r in self.reqs):
            self.labels.add('req-make-identical-repeated')
        try:
            task = getter()
        except Exception as exc:
            if any(r['kind'] == 'make' and r['same'] == same for r in self.reqs):
                self.exc('make_identical_raises', exc, feature)
            elif self.error_allowed('make', conflict, same):
                self.labels.add('explicit-error')
                self.out.nontrivial = True
            else:
                self.exc('make_raises', exc, feature)
            return None
        verdict = self.judge('make', same, diff, task, 'make', feature)
        if verdict is None:
            return None
        if verdict == 'new':
            uid = self.add_live(task, None, 'run')
            first = True
        else:
            uid = self.uids[id(task)]
            first = not any(r['kind'] == 'make' and r['same'] == same for r in self.reqs)
            if first:
                self.labels.add('make-equivalent-request-other-factory')
        self.record('make', same, diff, uid, conflict)
        if not first:
            self.labels.add('make-identical-request-repeated')
            return uid
        self.check_deps(task, hard, soft, 'make', feature)
        if verdict != 'new':
            return uid
        env = self.env_for([fmod['from']] if fmod['from'] is not None else [])
        try:
            env_up, status = task.do(env=env, config=self.config())
            sect = env_up[task.name]
            with open(sect['stdout']) as fil:
                printed = fil.read()
        except Exception as exc:
            self.exc('make_do_raises', exc, feature)
            return uid
        want = ' '.join(cli[1:]) + '\n'
        if status != TaskStatus.DONE or printed != want or sect['clis'] != [cli]:
            self.fail('make_behaviour', f'C15/make_behaviour/{feature}',
                      f'{task.name!r} ran {sect["clis"]!r} and printed {printed!r} (status {status}); '
                      f'requested command line {cli!r}')
            return uid
        self.live[uid]['env'] = sect
        self.labels.add('make-executed')
        if fmod['from'] is not None:
            self.labels.add('make-from-task-factory')
        return uid

    # ---- operations
    def op_use(self, opn):
        tuid = self.pick(opn['t'])
        key = self.key_for(tuid, opn['key'])
        soft, ser, kwarg = opn['soft'], opn['ser'], opn['kwarg']
        base = self.wrappers[-1 - opn['on'] % len(self.wrappers)] if (
            opn['on'] is not None and self.wrappers) else None
        if base is None:
            func, fnidx, pos, kwm = self.funcs[opn['fn']], opn['fn'], [], {}
        else:
            func, fnidx, pos, kwm = base['use'], base['fn'], list(base['pos']), dict(base['kw'])
            self.labels.add('use-stack-on-existing')
        # one name, one task inside a request: an injection that would bring a second task with
        # the name of an already injected one is turned into a re-injection of the first
        for uid, _ in pos + list(kwm.values()):
            if self.tname(uid) == self.tname(tuid) and uid != tuid:
                tuid = uid
                key = self.key_for(tuid, opn['key'])
        if kwarg is None:
            pos.append((tuid, key))
        else:
            kwm[kwarg] = (tuid, key)
        if opn['using'] and not soft and not ser:
            use = using(key=key, task=self.task(tuid), kwarg=kwarg)(func)
            self.labels.add('via-using')
        else:
            use = Use.from_func(func=func, task=self.task(tuid), key=key, kwarg=kwarg,
                                deps_type='soft' if soft else 'hard', serialize=ser)
        wmod = self.new_wrapper(use, fnidx, pos, kwm, soft, ser)
        if opn['get']:
            self.use_request(wmod, use.get_task)

    def op_get(self, opn):
        if not self.wrappers:
            return
        wmod = self.wrappers[-1 - opn['w'] % len(self.wrappers)]
        self.use_request(wmod, wmod['use'].get_task)

    def op_rebuild(self, opn):
        """Build a second wrapper for the request of an existing one, from scratch, with the
        keyword injections stacked in the opposite order: an identical request."""
        if not self.wrappers:
            return
        # wrappers with the most keyword injections first, then the most recent ones
        order = sorted(range(len(self.wrappers)), key=lambda i: (-len(self.wrappers[i]['kw']), -i))
        wmod = self.wrappers[order[opn['w'] % len(order)]]
        steps = [(kwarg, uid, key) for kwarg, (uid, key) in reversed(list(wmod['kw'].items()))]
        steps += [(None, uid, key) for uid, key in wmod['pos']]
        use = self.funcs[wmod['fn']]
        for kwarg, uid, key in steps:
            use = Use.from_func(func=use, task=self.task(uid), key=key, kwarg=kwarg,
                                deps_type='soft' if wmod['soft'] else 'hard', serialize=wmod['ser'])
        new = self.new_wrapper(use, wmod['fn'], list(wmod['pos']), dict(wmod['kw']), wmod['soft'], wmod['ser'])
        self.labels.add('req-rebuild-kw-reordered' if len(wmod['kw']) > 1 else 'req-rebuild')
        self.use_request(new, use.get_task)

    def op_map(self, opn):
        if not self.wrappers:
            return
        wmod = self.wrappers[-1 - opn['w'] % len(self.wrappers)]
        # map() asks the wrapper for its task, then wraps the new function around it
        holder = {}
        self.labels.add('req-map')

        def mapped():
            holder['use'] = wmod['use'].map(self.funcs[opn['fn']])
            return next(iter(holder['use'].inj_args))[0]
        uid = self.use_request(wmod, mapped)
        if uid is None or 'use' not in holder:
            return
        self.labels.add('map')
        new = self.new_wrapper(holder['use'], opn['fn'], [(uid, 'result')], {}, False, False)
        self.use_request(new, holder['use'].get_task)

    def op_factory(self, opn):
        dargs = DARGS[opn['dargs']]
        fkw = {'x': 'fx', 'y': 'fy'} if any('{' in arg for arg in dargs) else {}
        hard = sorted({self.pick(t) for t in opn['deps']})
        soft = sorted({self.pick(t) for t in opn['soft']})
        kwargs = dict(fkw)
        if opn['name'] is not None:
            kwargs['name'] = opn['name']
        if dargs:
            kwargs['default_args'] = list(dargs)
        if hard:
            kwargs['deps'] = [self.task(u) for u in hard]
        if soft:
            kwargs['soft_deps'] = [self.task(u) for u in soft]
        model = {'name': opn['name'], 'dargs': dargs, 'fkw': fkw, 'deps': hard, 'soft': soft,
                 'from': None, 'exe': '/bin/echo'}
        if opn['from_task']:
            # from_task injects the dependency itself: deps is then not ours to pass
            base = [u for u, ent in enumerate(self.live) if ent['kind'] == 'base']
            tuid = base[opn['t'] % len(base)]
            kwargs.pop('deps', None)
            obj = RunTaskFactory.from_task(self.task(tuid), relative_path='echo', **kwargs)
            model.update({'from': tuid, 'deps': [tuid], 'exe': os.path.join('/bin', 'echo')})
            self.labels.add('factory-from-task')
        else:
            obj = RunTaskFactory.from_executable('/bin/echo', **kwargs)
        self.new_factory(obj, model)

    def op_copy(self, opn):
        fmod = self.default_factory()[opn['f'] % len(self.factories)]
        model = {k: v for k, v in fmod.items() if k != 'obj'}
        self.new_factory(fmod['obj'].copy(), model)
        self.labels.add('factory-copy')

    def op_make(self, opn):
        fidx = opn['f'] % len(self.default_factory())
        kwargs = self.make_kwargs(opn)
        obj = self.factories[fidx]['obj']
        self.make_request(fidx, opn, lambda: obj.make(**kwargs))

    def op_userun(self, opn):
        fidx = opn['f'] % len(self.default_factory())
        obj = UseRun.from_factory(self.factories[fidx]['obj'])
        self.useruns.append({'obj': obj, 'f': fidx, 'posts': [], 'made': self.watch(obj.factory)})

    @staticmethod
    def watch(factory):
        """Record the tasks that make() of this factory object returns (a UseRun calls it out of
        sight).  Returns the list that receives them."""
        made = getattr(factory, 'c15_made', None)
        if made is None:
            made, original = [], factory.make

            def make(**kwargs):
                task = original(**kwargs)
                made.append(task)
                return task
            factory.c15_made = made
            factory.make = make
        return made

    def default_userun(self):
        if not self.useruns:
            self.op_userun({'f': 0})
        return self.useruns

    def op_urmap(self, opn):
        umod = self.default_userun()[-1 - opn['u'] % len(self.useruns)]
        obj = umod['obj'].map(self.funcs[opn['fn']])
        # UseRun.map works on a copy of the factory
        fmod = self.factories[umod['f']]
        self.new_factory(obj.factory, {k: v for k, v in fmod.items() if k != 'obj'})
        self.useruns.append({'obj': obj, 'f': len(self.factories) - 1, 'posts': umod['posts'] + [opn['fn']],
                             'made': self.watch(obj.factory)})

    def op_urcall(self, opn):
        umod = self.default_userun()[-1 - opn['u'] % len(self.useruns)]
        fidx, posts = umod['f'], umod['posts']
        make_same, _diff, conflict, _cli, _hard, _soft = self.make_keys(fidx, opn)
        kwargs = self.make_kwargs(opn)
        feature = f'posts={min(len(posts), 2)}'
        self.labels.add('req-userun-' + feature)
        del umod['made'][:]
        try:
            use = umod['obj'](kwarg=opn['kwarg'], **kwargs)(self.funcs[opn['fn']])
            final = use.get_task()
        except Exception as exc:
            fnames = {_fname(self.funcs[f]) for f in posts + [opn['fn']]}
            if (self.error_allowed('make', conflict, make_same)
                    or any(r['kind'] == 'use' and r['conflict'] in fnames for r in self.reqs)):
                self.labels.add('explicit-error')
                self.out.nontrivial = True
            else:
                self.exc('userun_raises', exc, feature)
            return
        # the pipeline below the final task: one hard dependency per stage, down to the RunTask
        chain, cur = [], final
        for _ in range(len(posts) + 1):
            deps = list(getattr(cur, 'depends_on', ()))
            if len(deps) != 1 or getattr(cur, 'soft_depends_on', None):
                self.fail('userun_chain', f'C15/userun_chain/{feature}',
                          f'{cur!r} has hard dependencies {deps!r} and soft dependencies '
                          f'{getattr(cur, "soft_depends_on", None)!r}; a pipeline stage has exactly one '
                          f'hard dependency (posts {posts}, function {opn["fn"]})')
                self.orphan(final, *chain)
                return
            cur = deps[0]
            chain.append(cur)
        chain.reverse()
        if not isinstance(chain[0], RunTask):
            self.fail('userun_chain', f'C15/userun_chain/{feature}',
                      f'the pipeline of {final!r} ends in {chain[0]!r}, not in a RunTask')
            self.orphan(final, *chain)
            return
        # what make() really returned to the UseRun, and what the pipeline hangs on: the same task,
        # or two interchangeable ones
        made = umod['made'][-1] if umod['made'] else chain[0]
        uid = self.make_request(fidx, opn, lambda: made)
        if uid is not None and chain[0] is not made:
            below = self.uids.get(id(chain[0]))
            if below is None or self.cid(below) != self.cid(uid):
                # the stage above the RunTask was requested on `made` and came back as the task of
                # an earlier request on another task: if both carry one name this is the sharing of
                # Use tasks between same-named injected tasks, seen from below
                same_name = getattr(chain[0], 'name', None) == made.name
                self.fail('use_shared' if same_name else 'userun_chain',
                          'C15/use_shared/hard/same-named-tasks' if same_name
                          else 'C15/userun_chain/other-run-task',
                          f'the UseRun got {made!r} from its factory for command '
                          f'{self.show("make", self.make_keys(fidx, opn)[1])}, but the pipeline of '
                          f'{final!r} runs on {chain[0]!r}, a task generated for a different request')
                self.orphan(final, *chain)
                return
            uid = below
        for post, stage in zip(posts, chain[1:]):
            if uid is None:
                self.orphan(final, *chain)
                return
            use_stage = Use.from_func(func=self.funcs[post], task=self.task(uid), key='result')
            wmod = self.new_wrapper(use_stage, post, [(uid, 'result')], {}, False, False)
            uid = self.use_request(wmod, lambda stage=stage: stage)
        if uid is None:
            self.orphan(final, *chain)
            return
        pos, kwm = ([(uid, 'result')], {}) if opn['kwarg'] is None else ([], {opn['kwarg']: (uid, 'result')})
        wmod = self.new_wrapper(use, opn['fn'], pos, kwm, False, False)
        if self.use_request(wmod, lambda: final) is not None:
            self.labels.add('userun-pipeline-' + feature)

    def op_stats(self, opn):
        kind, name = opn['kind'], STATS_NAMES[opn['name']]
        uids = []
        for idx in opn['tasks']:
            if self.pick(idx) not in uids:
                uids.append(self.pick(idx))
        tasks = [self.task(u) for u in uids]
        kwargs = {'name': name, 'tasks': tasks}
        if opn['desc']:
            kwargs['description'] = opn['desc']
        if opn['labels'] is not None:
            kwargs['labels'] = dict(opn['labels'])
        if kind == 'task':
            want = [self.uids.get(id(t)) for t in self.closure(uids)]
            if None in want:      # a dependency set that already failed its own check
                self.out.excluded += 1
                return
            func, cls = vstats.task_stats, vstats.TestStatsTasks
        elif kind == 'test':
            want, func, cls = uids, vstats.test_stats, vstats.TestStatsTests
        else:
            want, func, cls = uids, vstats.test_stats_by_labels, vstats.TestStatsTestsByLabels
            kwargs['by_labels'] = tuple(opn['by'])
        labels = tuple(sorted((opn['labels'] or {}).items()))
        diff = (kind, name, tuple(sorted(self.cid(u) for u in want)), opn['desc'], labels,
                tuple(opn['by']) if kind == 'bylabels' else None)
        for req in self.reqs:
            if req['kind'] == 'stats' and req['conflict'] == name and req['diff'] != diff:
                self.labels.add('pair-stats-' + _differ(req, 'stats', diff).split(',')[0])
        self.predict('stats', f'use:.{name}.stats', diff)
        self.labels.add(f'req-stats-{kind}')
        try:
            evalt = func(**kwargs)
        except Exception as exc:
            if self.error_allowed('stats', name, None):
                self.labels.add('explicit-error')
                self.out.nontrivial = True
            else:
                self.exc('stats_raises', exc, kind)
            return
        deps = list(getattr(evalt, 'depends_on', ()))
        if not isinstance(evalt, Task) or len(deps) != 1:
            self.fail('stats_shape', f'C15/stats_shape/{kind}',
                      f'{evalt!r} depends on {deps!r}: expected one task creating the test')
            return
        create = deps[0]
        verdict = self.judge('stats', None, diff, create, 'stats', 'create-task')
        if verdict is None:
            return
        known = verdict == 'known'
        uid = self.uids[id(create)] if known else self.add_live(create, None, 'stats')
        self.record('stats', None, diff, uid, name)
        if known:
            self.labels.add('stats-identical-request-same-create-task')
            return
        self.check_deps(create, [], want, 'stats', kind)
        env = self.env_for(want)
        if env is None:
            self.out.excluded += 1
            return
        try:
            env_up, status = create.do(env=env, config=self.config())
            tests = env_up[create.name]['result']
            test = tests[0]
            seen = sorted(res[0] for res in test.task_results)
        except Exception as exc:
            self.exc('stats_do_raises', exc, kind)
            return
        good = (status == TaskStatus.DONE and len(tests) == 1 and type(test) is cls   # noqa: E721
                and test.name == name and test.description == opn['desc']
                and test.labels == (opn['labels'] or {})
                and seen == sorted(self.tname(u) for u in want)
                and (kind != 'bylabels' or tuple(test.by_labels) == tuple(opn['by'])))
        if not good:
            self.fail('stats_behaviour', f'C15/stats_behaviour/{kind}',
                      f'{create.name!r} produced {[type(t).__name__ for t in tests]} name '
                      f'{test.name!r} description {test.description!r} labels {test.labels!r} over '
                      f'{seen}; requested {cls.__name__} {name!r} {opn["desc"]!r} '
                      f'{opn["labels"]!r} over {sorted(self.tname(u) for u in want)}')
            return
        self.live[uid]['env'] = {'result': tests}
        self.labels.add(f'stats-executed-{kind}')

    def run(self, case):
        self.factory0 = case.get('factory0') or {'from_task': False, 'name': 'echo', 'dargs': 0, 't': 0,
                                                 'deps': [], 'soft': []}
        for nidx in case['base']:
            task = PythonTask(NAMES[nidx], _noop)
            uid = self.add_live(task, None, 'base')
            self.live[uid]['env'] = {'result': f'r{uid}', 'alt': f'a{uid}', 'output_dir': '/bin'}
            self.reqs.append({'kind': 'base', 'same': uid, 'diff': uid, 'uid': uid, 'conflict': None})
        if len({ent['task'].name for ent in self.live}) < len(self.live):
            self.labels.add('base-tasks-share-a-name')
        for step, opn in enumerate(case['ops']):
            self.step = step
            getattr(self, 'op_' + opn['op'])(opn)
        self.step = len(case['ops'])
        roots = [self.task(self.pick(i)) for i in case['job']]
        if roots:
            _check_job(self.out, roots, [ent['task'] for ent in self.live], 'hist', self.labels)


def _differ(req, kind, diff):
    """Names of the request components in which ``diff`` differs from the earlier request."""
    if req['kind'] != kind:
        return 'kind'
    old = req['diff']
    if kind == 'use':
        comps = []
        if old[0] != diff[0]:
            comps.append('function')
        if [t for t, _ in old[1]] + [t for _, (t, _) in old[2]] != \
                [t for t, _ in diff[1]] + [t for _, (t, _) in diff[2]]:
            comps.append('task')
        if [k for _, k in old[1]] + [k for _, (_, k) in old[2]] != \
                [k for _, k in diff[1]] + [k for _, (_, k) in diff[2]]:
            comps.append('key')
        if len(old[1]) != len(diff[1]) or [a for a, _ in old[2]] != [a for a, _ in diff[2]]:
            comps.append('kwarg')
        if old[3] != diff[3]:
            comps.append('deps_type')
        return ','.join(comps) or 'order'
    if kind == 'make':
        names = ['name', 'arguments', 'deps', 'soft_deps']
    else:
        names = ['kind', 'name', 'tasks', 'description', 'labels', 'by_labels']
    return ','.join(n for n, a, b in zip(names, old, diff) if a != b)


# --------------------------------------------------------------------------
# collecting the tasks of a job

def _check_job(out, roots, universe, origin, labels):
    """close_dependency_graph / check_unique_task_names on a root list, against a DFS over
    object identities.  ``universe``: every task that exists (to see that none is modified)."""
    before = [(t.name, set(map(id, t.depends_on)), set(map(id, t.soft_depends_on))) for t in universe]
    roots_before = list(roots)
    seen, want, stack = set(), [], list(roots)
    soft_only = None
    while stack:
        tsk = stack.pop()
        if id(tsk) in seen:
            continue
        seen.add(id(tsk))
        want.append(tsk)
        stack.extend(tsk.depends_on)
        stack.extend(tsk.soft_depends_on)
    names = [t.name for t in want]
    dup = len(set(names)) < len(names)
    if dup:
        # is the duplicate reached through hard edges alone?
        hseen, stack = set(), list(roots)
        while stack:
            tsk = stack.pop()
            if id(tsk) not in hseen:
                hseen.add(id(tsk))
                stack.extend(tsk.depends_on)
        hnames = [t.name for t in want if id(t) in hseen]
        soft_only = len(set(hnames)) == len(hnames)
    feature = f'{origin}/' + ('dup' if dup else 'nodup')
    labels.add(f'job-{origin}-' + ('duplicate-name-in-closure' if dup else 'unique-names'))
    if soft_only:
        labels.add(f'job-{origin}-duplicate-reached-through-soft-edge-only')
    if len(want) > len({id(t) for t in roots}):
        labels.add(f'job-{origin}-closure-larger-than-roots')
    if len(roots) > len({id(t) for t in roots}):
        labels.add(f'job-{origin}-root-listed-twice')
    all_names = [t.name for t in universe]
    if origin == 'graph' and len(set(all_names)) < len(all_names):
        if len(want) > len({id(t) for t in roots}):
            out.nontrivial = True
            labels.add('nt-job-closure-with-repeated-names')
        if not dup:
            labels.add('job-graph-duplicate-name-outside-closure')
    try:
        got = close_dependency_graph(roots)
    except Exception as exc:
        out.failures.append(exc_failure('closure_raises', exc, origin))
        return None
    if not isinstance(got, list):
        out.failures.append(Failure('closure', f'C15/closure/type/{origin}', f'{type(got).__name__} returned'))
        return None
    gids = [id(t) for t in got]
    if len(gids) != len(set(gids)):
        out.failures.append(Failure('closure', f'C15/closure/duplicate/{origin}',
                                    f'{sorted(t.name for t in got)} contains a task twice'))
    missing = [t.name for t in want if id(t) not in set(gids)]
    extra = [getattr(t, 'name', t) for t in got if id(t) not in seen]
    if missing:
        out.failures.append(Failure('closure', f'C15/closure/missing/{origin}',
                                    f'dependencies {sorted(missing)} of roots '
                                    f'{[t.name for t in roots]} are not collected'))
    if extra:
        out.failures.append(Failure('closure', f'C15/closure/extra/{origin}',
                                    f'{extra} collected but not reachable from the roots'))
    after = [(t.name, set(map(id, t.depends_on)), set(map(id, t.soft_depends_on))) for t in universe]
    if after != before or any(a is not b for a, b in zip(roots, roots_before)) or len(roots) != len(roots_before):
        out.failures.append(Failure('closure_mutates', f'C15/closure_mutates/{origin}',
                                    'collecting modified the tasks or the root list'))
    if missing or extra or len(gids) != len(set(gids)):
        return None
    _check_unique(out, got, dup, 'unique_names', feature, names)
    return want, dup


def _check_unique(out, tasks, dup, clause, feature, names):
    try:
        check_unique_task_names(tasks)
        raised = None
    except ValueError as exc:
        raised = exc
    except Exception as exc:
        out.failures.append(exc_failure(clause + '_raises', exc, feature))
        return
    if dup and raised is None:
        out.failures.append(Failure(clause, f'C15/{clause}/missed/{feature}',
                                    f'two different tasks share a name in {sorted(names)}: accepted'))
    if not dup and raised is not None:
        out.failures.append(Failure(clause, f'C15/{clause}/spurious/{feature}',
                                    f'names {sorted(names)} are unique but: {raised}'))


def _run_job(case, out):
    nodes = []
    for idx, node in enumerate(case['nodes']):
        hard = [nodes[j % idx] for j in node['hard']] if idx else []
        soft = [nodes[j % idx] for j in node['soft']] if idx else []
        kwargs = {}
        if hard:
            kwargs['deps'] = hard
        if soft:
            kwargs['soft_deps'] = soft
        nodes.append(PythonTask(f'n{node["n"]}', _noop, **kwargs))
    roots = [nodes[i % len(nodes)] for i in case['roots']]
    labels = set()
    if any(n['hard'] for i, n in enumerate(case['nodes']) if i) and \
            any(n['soft'] for i, n in enumerate(case['nodes']) if i):
        labels.add('job-graph-hard-and-soft-edges')
    res = _check_job(out, roots, nodes, 'graph', labels)
    if res is not None:
        want, dup = res
        # the whole path a command takes: job file -> closure -> name check
        module = dyn_import(JOBFILE)
        module.CURRENT = list(roots)
        try:
            got = collect_tasks(JOBFILE, [], {})
            raised = None
        except ValueError as exc:
            got, raised = None, exc
        except Exception as exc:
            out.failures.append(exc_failure('collect_raises', exc, 'dup' if dup else 'nodup'))
            got, raised = None, True
        finally:
            module.CURRENT = []
        if raised is None:
            if dup:
                out.failures.append(Failure('collect', 'C15/collect/missed-duplicate',
                                            f'collect_tasks accepted {sorted(t.name for t in got)}'))
            elif sorted(map(id, got)) != sorted(map(id, want)):
                out.failures.append(Failure('collect', 'C15/collect/wrong-set',
                                            f'collect_tasks returned {sorted(t.name for t in got)}, the '
                                            f'closure is {sorted(t.name for t in want)}'))
        elif raised is not True and not dup:
            out.failures.append(Failure('collect', 'C15/collect/spurious-error',
                                        f'unique names {sorted(t.name for t in want)} but: {raised}'))
    out.labels = sorted(labels | {'job-graph'})


# --------------------------------------------------------------------------

def run_case(case):
    out = Outcome()
    _clear_caches()
    if case['kind'] == 'job':
        _run_job(case, out)
        return out
    world = _World(out)
    try:
        world.run(case)
    finally:
        world.close()
        _clear_caches()
    out.labels = sorted(world.labels | {'history'})
    out.evals = 1
    return out


def _known_use_sharing(case, failure):
    """Predicate for a known finding on the process-wide Use cache: the failure is a task of an
    earlier Use / stats request handed out for a different one, in a creation history."""
    return (case.get('kind') == 'hist'
            and failure.signature.startswith(('C15/use_shared/', 'C15/stats_shared/')))


def _known_make_sharing(case, failure):
    """Predicate for a known finding on RunTaskFactory.cache: a task of an earlier make() request
    handed out for a different one, in a history that calls make (or a UseRun) at least twice."""
    makes = [op for op in case.get('ops', []) if op.get('op') in ('make', 'urcall')]
    return (case.get('kind') == 'hist' and len(makes) >= 2
            and failure.signature.startswith('C15/make_shared/'))


KNOWN_PREDICATES = {'use_cache_shares_task': _known_use_sharing,
                    'factory_cache_shares_task': _known_make_sharing}

MANIFEST = {
    'text': ('Generated search (Hypothesis) over creation histories of argument-injection wrappers '
             '(Use.from_func / using / stacking / rebuilt identical stacks / map / get_task), run-task '
             'factories (from_executable, from_task, copy, make), UseRun pipelines and the statistics '
             'helpers, with same-named functions, lambdas, partial applications, hard / soft, positional / '
             'keyword injection, different keys, arguments and dependencies, plus generated job graphs '
             'with repeated names. Oracle = a registry keyed by the request (object identities, never '
             'task names or caches): identical request => same task object, different request => '
             'different object or explicit error; every new task is executed on an environment built '
             'from the requested tasks and must return what the requested function gives on the '
             'requested values (factory tasks really run /bin/echo and must print the requested argument '
             'list); dependency sets equal the requested sets; close_dependency_graph / '
             'check_unique_task_names / collect_tasks against a DFS over object identities. '
             'Exploration, not proof: histories of at most 10 (thorough 16) steps over 9 functions, '
             '4 task names, 3 factory names.'),
    'note': ('Requests that differ only by two interchangeable task objects (generated for equivalent '
             'requests, e.g. by two copies of a factory) or only in serialize carry no identity '
             'assertion; identical statistics requests carry no same-task assertion; subprocess_args of '
             'make() are not generated; cyclic job graphs are excluded (close_dependency_graph does not '
             'terminate on them); an exception counts as the allowed explicit error only when an earlier '
             'different request used the same function / factory+task / statistics name.'),
    'technique': 'property-based testing (Hypothesis), history of operations against a request registry '
                 '(reference model) + behavioural execution of every generated task',
    'design_ref': 'DESIGN.md section 3, C15',
}
