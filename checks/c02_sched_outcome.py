"""C02 -- the outcome of a run depends on the graph and the task results only,
not on the schedule."""
from hypothesis import strategies as st

from valjean.cosette.task import TaskStatus
from vlib.core import Failure, Outcome
from vlib import schedcase as sc

ID = 'C02'
LEVEL = 'exploration'
RULE = ('case = (acyclic hard/soft/both DAG over 1-7 probe tasks, independent outcome per task with '
        '~45% failing kinds {FAILED, raise, None, non-pair, 3-tuple, bad status, non-mapping update}, '
        '1-4 workers, 3 generated schedules) on the unmodified back-end under the controlled '
        'scheduler; each case is executed under its 3 schedules (and worker counts w, w+1); plus '
        'depth-first enumeration of all schedules with <= P pre-emptions for small configurations. '
        'Oracle: reference model computed from the graph alone (SKIPPED iff a hard dependency is '
        'FAILED/SKIPPED, else DONE/FAILED by the outcome), execution counters, every status a '
        'TaskStatus, equality of the status maps across schedules. non-trivial = a failing task with '
        'a dependent, or a malformed return; distinct = (graph, outcomes)')
RULE_ADDENDA = (' Decorations shared by the scheduler checks (vlib/schedcase.py): generated insertion order, nested graphs as nodes, a top-level key shared by all updates, back-end first used on another graph, spurious wake-ups, graphs sorted before their last edits, reloaded / resumed initial environment, Scheduler scheduled again, tasks returning their whole own section, updates that are mappings but not dicts, statuses WAITING / PENDING / 1 / 2.0, a well-formed update followed by an entry that can never be merged, a task that schedules a graph of its own with default back-ends (overlapping calls), and (C02, C03) four wide graphs of 300-2100 ready tasks.')
RULE = RULE + RULE_ADDENDA
ASSUMPTIONS = ['empty initial environment; acyclic graphs',
               'runs that do not come back (deadlock) are recorded here and judged by C03',
               'tasks returning WAITING/PENDING/SKIPPED for themselves are not generated (nothing '
               'documents them as legal return values)',
               'interleavings at the granularity of synchronisation operations (DESIGN.md section 2)']
BUDGET = {'quick': {'cases': 8000, 'shards': 16, 'seconds': 150, 'shrink_s': 40},
          'thorough': {'cases': 600000, 'shards': 16, 'seconds': 1500, 'shrink_s': 120}}
FLOORS = {'nontrivial': 0.3, 'soft-failed-dep': 0.1, 'multi-failure': 0.1}


@st.composite
def _case(draw):
    n, edges = draw(sc.graphs(max_tasks=7))
    outs = draw(sc.outcomes(n, 0.45))
    workers = draw(st.sampled_from([1, 2, 2, 3, 4]))
    scheds = [draw(sc.schedules(max_len=100)) for _ in range(3)]
    case = {'n': n, 'edges': edges, 'outcomes': outs, 'workers': workers, 'scheds': scheds}
    case.update(draw(sc.extras(n)))
    case.update(draw(sc.preludes(n, with_init=False)))
    return case


def strategy(tier):
    return _case()


def _small_configs(tier):
    confs = []
    alpha = ['done', 'failed', 'raise', 'none', 'nonpair', 'badstatus_str', 'badupdate_int']
    for kind in 'hs':
        for out0 in alpha:
            confs.append({'n': 2, 'edges': [(1, 0, kind)], 'outcomes': [out0, 'done'], 'workers': 2})
    shapes3 = {
        'chain': [(1, 0, 'h'), (2, 1, 'h')],
        'chain-soft-hard': [(1, 0, 's'), (2, 1, 'h')],
        'join': [(2, 0, 'h'), (2, 1, 's')],
    }
    for _name, edges in shapes3.items():
        for outs in (['failed', 'done', 'done'], ['done', 'raise', 'done'], ['nonpair', 'failed', 'done'],
                     ['raise', 'raise', 'done']):
            confs.append({'n': 3, 'edges': edges, 'outcomes': outs, 'workers': 2})
    return confs


def enumerations(tier):
    def gen():
        for conf in _small_configs(tier):
            if tier == 'thorough':
                parts = 16 if conf['n'] == 2 else 64
                for k in range(parts):
                    yield dict(conf, sched=('dfs', 2, (k, parts)))
            else:
                yield dict(conf, sched=('dfs', 1, (0, 1)))
    return [('dfs-bounded-preemption', gen, True),
            ('wide-graphs-300-to-2100-tasks', sc.wide_cases, True)]


def judge(case, rec, replay_case=None):
    """C02 clauses on one run that came back; returns (failures, status map or None)."""
    fails = []
    model, execs = sc.model_statuses(case)

    def add(clause, sig, detail):
        fail = Failure(clause, sig, detail)
        fail.case = replay_case
        fails.append(fail)

    came_back = rec.how == 'returned'
    for idx in range(case['n']):
        kind = case['outcomes'][idx]
        if rec.executions[idx] > 1:
            add('executed_once', f'C02/executed_twice/outcome={kind}',
                f't{idx} executed {rec.executions[idx]} times')
        if model[idx] == 'SKIPPED' and rec.executions[idx] > 0:
            add('skipped_not_executed', f'C02/skipped_but_executed/outcome={kind}',
                f't{idx} has a failed/skipped hard dependency but was executed')
    if not came_back:
        if rec.verdict and rec.verdict[0] == 'deadlock':
            # "after scheduling every task is in exactly one final state": the call never comes
            # back (C03 says why), and these tasks never reach a final state
            stuck = {f't{idx}': (st_.name if isinstance(st_, TaskStatus) else repr(st_))
                     for idx, st_ in sorted(rec.statuses.items())
                     if not isinstance(st_, TaskStatus) or st_ not in sc.FINAL}
            add('final_state', 'C02/no_final_state/scheduling-never-ends',
                f'no runnable thread left ({rec.verdict[1]}); tasks without a final state: {stuck}; '
                f'dead workers: { {k: repr(v)[:80] for k, v in rec.deaths.items()} }')
        return fails, None
    statuses = {}
    for idx in range(case['n']):
        kind = case['outcomes'][idx]
        got = rec.statuses[idx]
        statuses[idx] = got.name if isinstance(got, TaskStatus) else repr(got)
        if not isinstance(got, TaskStatus):
            add('status_type', f'C02/status_not_a_taskstatus/outcome={kind}',
                f't{idx} ended with status {got!r}')
            continue
        if got.name != model[idx]:
            add('status_model', f'C02/status/expected={model[idx]}/got={got.name}/outcome={kind}',
                f't{idx} ended {got.name}, reference model says {model[idx]}')
        if rec.executions[idx] != execs[idx]:
            add('execution_count', f'C02/executions/expected={execs[idx]}/outcome={kind}',
                f't{idx} executed {rec.executions[idx]} times, expected {execs[idx]}')
    return fails, statuses


def _classify(case, out):
    hard, soft = sc.deps_of(case)
    outs = case['outcomes']
    dependents = {i: [k for k in hard if i in hard[k] or i in soft[k]] for i in hard}
    failing = [i for i, o in enumerate(outs) if o != 'done']
    if any(dependents[i] for i in failing) or any(o in sc.OUTCOMES_MALFORMED for o in outs):
        out.nontrivial = True
        out.labels.append('nontrivial')
    if len(failing) >= 2:
        out.labels.append('multi-failure')
    if any(i in soft[k] and i not in hard[k] for i in failing for k in soft):
        out.labels.append('soft-failed-dep')
    if any(o in sc.OUTCOMES_MALFORMED for o in outs):
        out.labels.append('malformed')


def run_case(case):
    out = Outcome()
    out.labels.extend(sc.shape_labels(case))
    _classify(case, out)
    out.key = repr((case['n'], case['edges'], case['outcomes']))
    if 'sched' in case and case['sched'][0] == 'dfs':
        spec = case['sched']
        seen_sigs = set()
        maps = {}

        def visit(choices, rec):
            fails, statuses = judge(case, rec, dict(case, sched=('choices', list(choices))))
            for fail in fails:
                if fail.signature not in seen_sigs:
                    seen_sigs.add(fail.signature)
                    out.failures.append(fail)
            if statuses is not None:
                maps.setdefault(repr(sorted(statuses.items())), list(choices))
        count = sc.dfs_run(case, spec[1], visit, part=tuple(spec[2]))
        if len(maps) > 1:
            out.failures.append(Failure('schedule_independent', 'C02/status_map_differs/dfs',
                                        f'status maps over the schedules: {sorted(maps)}'))
        out.evals = count
        out.labels.append(f'dfs-P{spec[1]}')
        out.info = {'schedules': count}
        return out
    runs = []
    if 'scheds' in case:
        for k, spec in enumerate(case['scheds']):
            workers = case['workers'] + (1 if k == 2 else 0)
            runs.append((spec, workers))
    else:
        runs.append((case['sched'], case['workers']))
    maps = {}
    for spec, workers in runs:
        sub = {k: v for k, v in case.items() if k != 'scheds'}     # keeps order / groups / prelude
        sub.update(workers=workers, sched=spec)
        rec = sc.execute(sub)
        fails, statuses = judge(sub, rec, sub)
        out.failures.extend(fails)
        out.labels.append('ended=' + (rec.verdict[0] if rec.verdict else rec.how))
        if statuses is not None:
            maps.setdefault(repr(sorted(statuses.items())), (spec, workers))
    out.evals = len(runs)
    if len(maps) > 1:
        out.failures.append(Failure('schedule_independent', 'C02/status_map_differs',
                                    f'different status maps for one graph: {maps}'))
    return out


REAL_CASES = {'quick': 12, 'thorough': 250}      # per shard


def shard_extra(tier, seed, shard, nshards, tally, deadline):
    """Corroboration on real threads (vlib/realrun.py): the status map and the execution counts
    of generated cases run on the unmodified modules with real threads are compared with the
    same schedule-free model.  A disagreement is looked for under the controlled scheduler (the
    case's schedules, the default one, all schedules with <= 1 pre-emption); what is reproduced
    there is reported with its schedule, the rest is counted as unconfirmed."""
    from vlib import realrun
    cases = [dict({k: v for k, v in case.items() if k != 'scheds'}, sched=case['scheds'][0])
             for case in realrun.collect_cases(_case(), seed * 1000 + 500 + shard, REAL_CASES[tier])]
    observations = realrun.corroborate(cases)
    stats = {'real_thread_runs': 0, 'real_thread_agree_with_model': 0, 'real_thread_suspect': 0,
             'real_thread_suspect_confirmed': 0, 'real_thread_unconfirmed': 0, 'real_thread_not_run': 0}
    for case, obs in zip(cases, observations):
        if obs['how'] == 'not-run':
            stats['real_thread_not_run'] += 1
            continue
        stats['real_thread_runs'] += 1
        model, execs = sc.model_statuses(case)
        agree = (obs['how'] == 'returned'
                 and all(obs['statuses'].get(str(i)) == model[i] for i in range(case['n']))
                 and all(obs['executions'].get(str(i)) == execs[i] for i in range(case['n'])))
        if agree:
            stats['real_thread_agree_with_model'] += 1
            continue
        stats['real_thread_suspect'] += 1
        found = {}
        for spec in (case['sched'], ('choices', [])):
            fails, _st = judge(case, sc.execute(case, spec), dict(case, sched=spec))
            for fail in fails:
                found.setdefault(fail.signature, fail)

        def visit(choices, rec, case=case, found=found):
            fails, _st = judge(case, rec, dict(case, sched=('choices', list(choices))))
            for fail in fails:
                found.setdefault(fail.signature, fail)
        if not found and case['n'] <= 4:
            sc.dfs_run(case, 1, visit, limit=400)
        out = Outcome()
        out.labels.append('real-threads-suspect')
        if found:
            stats['real_thread_suspect_confirmed'] += 1
            out.failures.extend(found.values())
        else:
            stats['real_thread_unconfirmed'] += 1
        tally.add(case, out, 'real-threads')
    return stats


MANIFEST = {
    'text': ('Graphs may contain nested graph nodes (groups), generated insertion order, back-end reuse after '
             'another graph over the same names; malformed returns include falsy non-mappings; 12/250 cases per '
             'shard are also run on real threads in a child process and compared with the same model '
             '(disagreements count only when reproduced under the controlled scheduler). '
             'Generated search over (DAG, failing subset incl. malformed returns, worker count, schedules) on '
             'the real back-end under the controlled scheduler; the final status map and execution counters '
             'of every run are compared with a reference model that has no schedule input, and with each '
             'other across 3 schedules / 2 worker counts per graph; all schedules with <= 1 (quick) or <= 2 '
             '(thorough) pre-emptions are enumerated for small configurations. Exploration, not proof.'),
    'note': ('Trusts vlib/vsched.py primitives; the reference model is 10 lines computed from the generated '
             'graph (vlib/schedcase.model_statuses).'),
    'technique': 'property-based testing with a controlled thread scheduler, reference-model and differential (across schedules) oracle',
    'design_ref': 'DESIGN.md sections 2 and 3 (C02)',
}
