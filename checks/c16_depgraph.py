"""C16 -- the dependency graph mirrors a plain node/edge set under any edit
history; topological sort, transitive reduction/closure, depends and flatten
agree with independently computed graph theory; RList mirrors a Python list.

Three kinds of cases (all plain values):

``{'kind': 'hist', 'salt': int, 'ops': [...]}``
    an edit history interpreted against several live DepGraph objects, each
    with a reference model ``dict node-id -> set of node-ids``;
``{'kind': 'rlist', 'key': ..., 'init': [...], 'ops': [...]}``
    an edit history of an RList against a Python list;
``('topo', n, mask)`` / ``('topoblk', n, start, count)`` / ``('dag', n, mask)``
    one labelled digraph on n nodes given by its edge bit-mask (exhaustive
    enumerations).
"""
import itertools
import os

from hypothesis import strategies as st

from valjean.cosette.depgraph import DepGraph, DepGraphError
from valjean.cosette.rlist import RList
from vlib.core import Failure, Outcome, exc_failure, valjean_frame

ID = 'C16'
LEVEL = 'exploration'
RULE = ('cases = edit histories (<= 25 steps quick, <= 40 thorough) over <= 5 live graphs: '
        'add_node, add_dependency, remove_node, remove_dependency (present or absent edge), '
        'merge / += / +, copy, invert, from_dependency_dictionary, new nested-graph node '
        '(empty / single-node / copy of a live graph, inserted as node, dependency, dependee or '
        'between two nodes), graft, flatten(recurse True/False), in-place transitive reduction / '
        'closure; nodes = 7 distinct plain objects + the nested graphs; every operation may hit '
        'an original, a copy or a derived graph. Plus RList histories (set/del/insert/swap/append/'
        'copy, 3 key functions) and the exhaustive enumeration of all labelled digraphs '
        '(topological_sort) and all labelled DAGs (reduction, closure, depends) on <= 4 nodes '
        '(quick) / <= 5 nodes (thorough). non-trivial = a history with >= 2 node removals on one '
        'graph with a node addition in between, or a graft/flatten of a nested graph, or a '
        'mutation of a copy/derived graph or of a graph that has been copied; an RList history '
        'with a duplicate key; an enumerated graph with >= 1 edge. distinct = structural hash')
ASSUMPTIONS = [
    'plain nodes are distinct interned strings (identity == equality == RList membership)',
    'nested graph nodes are frozen when created (never edited afterwards, never self-containing)',
    'topological_sort() and dict(graph) are exercised only on graphs whose nodes are all '
    'hashable, i.e. without un-grafted DepGraph nodes (DepGraph defines __eq__ and is therefore '
    'unhashable; topological_sort keys a dict by node) -- quantifier "hashable nodes"',
    'transitive_reduction/closure, depends(recurse=True), graft and flatten are exercised on '
    'acyclic graphs only (property: "on acyclic graphs"); on cyclic ones they do not terminate',
    'remove_node / remove_dependency are applied to nodes present in the graph; for an absent '
    'edge KeyError and an unchanged graph are expected',
    'flatten(recurse=True): node set and reachability between plain nodes are compared with the '
    'reference (exact edges are not prescribed), then the model is re-read from the graph',
    '== and <= are compared with the model only in states where no two distinct nested graph '
    'nodes compare equal (e.g. two empty nested graphs): node identity is then ambiguous for '
    'these operators and the property does not speak about them (counted in excluded_or_boundary)',
    'flatten is not compared with the reference when one nested graph object without plain nodes '
    'occupies several places of the nesting hierarchy (the same object used as a node at two '
    'levels): the implementation merges the edges it has at the different levels and the '
    'ordering that this expresses is undefined; counted, label flatten-skipped-aliased-transparent',
    'RList.index() on a list holding several elements of the same key may return any occurrence '
    'inside the bounds (a dependency graph never stores duplicates)',
    'RList: indices for set/del/swap are in range (negative ones included); index(start, stop) '
    'with non-negative bounds; copy() is checked for content and independence only',
]
BUDGET = {'quick': {'cases': 8000, 'shards': 16, 'seconds': 150,
                    'shrink_s': int(os.environ.get('C16_SHRINK_S', 30))},
          'thorough': {'cases': 60000, 'shards': 16, 'seconds': 1200, 'shrink_s': 60}}
FLOORS = {}
CASE_TIMEOUT = 60
FLOORS_WANTED = {'hist': 0.10, 'rlist': 0.02, 'nt-rm-interleaved': 0.03, 'nt-nested-graft-flatten': 0.03,
          'nt-copy-mutated': 0.03, 'nested-transparent': 0.02, 'topo-acyclic': 0.05,
          'topo-cyclic': 0.05}

# set to True to also demand topological_sort() on graphs that still contain
# nested (unhashable) DepGraph nodes -- see ASSUMPTIONS
TOPO_ON_NESTED = False

NPLAIN = 7
PLAIN = ['n%d' % i for i in range(NPLAIN)]
NESTED0 = 100          # ids of nested graph nodes start here
MAXLIVE = 5
MAXNESTED = 5
MAXDEPTH = 3


# --------------------------------------------------------------------------
# reference graph theory on models  {node id: set of node ids}

def m_copy(model):
    return {k: set(v) for k, v in model.items()}


def m_reach(model):
    """node -> set of nodes reachable by a path of length >= 1."""
    out = {}
    for src in model:
        seen = set()
        stack = list(model[src])
        while stack:
            cur = stack.pop()
            if cur in seen:
                continue
            seen.add(cur)
            stack.extend(model[cur])
        out[src] = seen
    return out


def m_acyclic(model):
    reach = m_reach(model)
    return all(n not in reach[n] for n in model)


def m_reduction(model):
    """unique transitive reduction of a DAG: drop u->v when v is reachable
    from another direct successor of u."""
    reach = m_reach(model)
    return {u: {v for v in vs if not any(v in reach[w] for w in vs if w != v)}
            for u, vs in model.items()}


def m_edges(model):
    return sorted((u, v) for u in model for v in model[u])


def m_union(left, right):
    res = m_copy(left)
    for key, vals in right.items():
        res.setdefault(key, set())
        for val in vals:
            res.setdefault(val, set())
            res[key].add(val)
    return res


def m_invert(model):
    res = {k: set() for k in model}
    for key, vals in model.items():
        for val in vals:
            res[val].add(key)
    return res


def closure_pairs(pairs):
    model = {}
    for u, v in pairs:
        model.setdefault(u, set()).add(v)
        model.setdefault(v, set())
    reach = m_reach(model)
    return {(u, v) for u in reach for v in reach[u]}


# --------------------------------------------------------------------------
# per-case state

class Ctx:
    def __init__(self):
        self.objs = {i: PLAIN[i] for i in range(NPLAIN)}
        self.oid = {id(PLAIN[i]): i for i in range(NPLAIN)}
        self.nmodel = {}       # nested id -> frozen model
        self.ndepth = {}
        self.live = []
        self.salt = 0

    def node(self, ref):
        nested = sorted(self.nmodel)
        if ref < 0 and nested:
            return nested[(-ref - 1) % len(nested)]
        if ref < 0:
            return (-ref - 1) % NPLAIN
        return ref % NPLAIN

    def ids(self, objects):
        return [self.oid.get(id(o), -1) for o in objects]

    def is_nested(self, nid):
        return nid >= NESTED0

    # ---- reference semantics of nesting
    def plains(self, nid, _memo=None):
        if not self.is_nested(nid):
            return {nid}
        res = set()
        for sub in self.nmodel[nid]:
            res |= self.plains(sub)
        return res

    def all_plains(self, model):
        res = set()
        for nid in model:
            res |= self.plains(nid)
        return res

    def levels_acyclic(self, model):
        if not m_acyclic(model):
            return False
        return all(self.levels_acyclic(self.nmodel[n]) for n in model if self.is_nested(n))

    def has_transparent(self, model):
        for nid in model:
            if self.is_nested(nid):
                if not self.plains(nid) or self.has_transparent(self.nmodel[nid]):
                    return True
        return False

    def nested_occurrences(self, model, _acc=None):
        """nested id -> number of places it occupies in the nesting hierarchy of model."""
        acc = {} if _acc is None else _acc
        for nid in model:
            if self.is_nested(nid):
                acc[nid] = acc.get(nid, 0) + 1
                self.nested_occurrences(self.nmodel[nid], acc)
        return acc

    def aliased_transparent(self, model):
        """True if one nested graph object WITHOUT plain nodes sits at several places of
        the hierarchy: the implementation sees one node, so edges given to it at different
        levels combine; which ordering between plain nodes that expresses is not defined
        by the property (nor by the documentation)."""
        return any(cnt > 1 and not self.plains(nid)
                   for nid, cnt in self.nested_occurrences(model).items())

    def constraints(self, model):
        """generating pairs (x, y): plain x must come after plain y."""
        pairs = set()
        for nid in sorted(model):
            if self.is_nested(nid):
                pairs |= self.constraints(self.nmodel[nid])
        for nid in sorted(model):
            mine = self.plains(nid)
            if not mine:
                continue
            seen = set()
            stack = sorted(model[nid])
            while stack:
                cur = stack.pop()
                if cur in seen:
                    continue
                seen.add(cur)
                theirs = self.plains(cur)
                if theirs:
                    pairs |= {(x, y) for x in mine for y in theirs}
                else:          # no plain node inside: transparent
                    stack.extend(sorted(model[cur]))
        return pairs


def m_graft(ctx, model, gid, transparent=True):
    """documented construction: dependees -> initial nodes of the nested graph,
    its terminal nodes -> dependencies; a graph without nodes is transparent
    (with ``transparent=False``: the construction taken literally, where an
    empty graph has nothing to attach the edges to)."""
    deps = set(model[gid])
    dependees = {n for n in model if gid in model[n]}
    res = {n: set(v) - {gid} for n, v in model.items() if n != gid}
    sub = ctx.nmodel[gid]
    res = m_union(res, sub)
    targets = set()
    for vals in sub.values():
        targets |= vals
    inits = [n for n in sub if n not in targets]
    terms = [n for n in sub if not sub[n]]
    def add(node, on):     # add_dependency: missing end points become nodes
        res.setdefault(node, set()).add(on)
        res.setdefault(on, set())
    for dep in sorted(deps):
        for term in terms:
            add(term, dep)
    for dependee in sorted(dependees):
        for init in inits:
            add(dependee, init)
        if not sub and transparent:
            for dep in sorted(deps):
                if dependee != gid and dep != gid and dependee != dep:   # loops carry no ordering
                    add(dependee, dep)
    return res


def m_flatten(ctx, model, transparent):
    """graft every nested node until none is left (levels are acyclic and
    nesting is finite, so this terminates)."""
    res = m_copy(model)
    for _ in range(1000):
        nest = sorted(n for n in res if ctx.is_nested(n))
        if not nest:
            return res
        res = m_graft(ctx, res, nest[0], transparent)
    raise RuntimeError(f'reference flatten of {model} does not terminate')   # harness error


def build(ctx, model, reverse=True):
    graph = DepGraph()
    for nid in sorted(model, reverse=reverse):
        graph.add_node(ctx.objs[nid])
    for u, v in m_edges(model):
        graph.add_dependency(ctx.objs[u], on=ctx.objs[v])
    return graph


# --------------------------------------------------------------------------
# calling the code under test

def _try(out, clause, extra, fun, *args, **kwargs):
    """(True, result) or (False, None) + a Failure; an exception that does not
    come out of the code under test is a harness error and is re-raised."""
    try:
        return True, fun(*args, **kwargs)
    except Exception as exc:   # every public operation is expected to succeed here
        if valjean_frame(exc)[1] == 'outside-valjean':
            raise
        out.failures.append(exc_failure(clause, exc, extra))
        return False, None


def fail(out, clause, sig, detail):
    out.failures.append(Failure(clause, 'C16/' + sig, detail[:600]))


# --------------------------------------------------------------------------
# observers

def observe_state(ctx, entry, out, sig, what):
    """nodes(), len() and dependencies() of one graph against its model.
    Returns the list of node ids in nodes() order, or None on failure."""
    graph, model = entry['g'], entry['m']
    okay, objs = _try(out, 'state', sig, lambda: list(graph.nodes()))
    if not okay:
        return None
    ids = ctx.ids(objs)
    problems = []
    if sorted(ids) != sorted(model):
        problems.append(f'nodes() {ids} vs model {sorted(model)}')
    okay, size = _try(out, 'state', sig, len, graph)
    if not okay:
        return None
    if size != len(model):
        problems.append(f'len {size} vs {len(model)}')
    if not problems:
        for nid in sorted(model):
            okay, deps = _try(out, 'state', sig, graph.dependencies, ctx.objs[nid])
            if not okay:
                return None
            dids = ctx.ids(deps)
            if len(set(dids)) != len(dids) or set(dids) != model[nid]:
                problems.append(f'dependencies({nid}) {sorted(dids)} vs {sorted(model[nid])}')
    if problems:
        fail(out, 'state', sig, f'{what}: ' + '; '.join(problems[:4]))
        return None
    return ids


def perturbations(ctx, model, salt):
    """(name, model', graph == , graph <=, >= graph) expected truth values."""
    res = []
    edges = m_edges(model)
    if edges:
        u, v = edges[salt % len(edges)]
        less = m_copy(model)
        less[u].discard(v)
        res.append(('minus-edge', less, False, False, True))
    absent = [n for n in sorted(ctx.objs) if n not in model]
    if absent:
        more = m_copy(model)
        more[absent[salt % len(absent)]] = set()
        res.append(('plus-node', more, False, True, False))
    missing = [(u, v) for u in sorted(model) for v in sorted(model) if v not in model[u]]
    if missing:
        u, v = missing[salt % len(missing)]
        more = m_copy(model)
        more[u].add(v)
        res.append(('plus-edge', more, False, True, False))
    return res


def eq_nested_pair(ctx, model):
    nest = [n for n in model if ctx.is_nested(n)]
    return any(ctx.nmodel[a] == ctx.nmodel[b] for a, b in itertools.combinations(nest, 2))


def observe_derived(ctx, entry, out, opname, salt):
    """every other observer of one graph whose state agrees with the model."""
    graph, model = entry['g'], entry['m']
    objs = ctx.objs
    order = sorted(model)
    # membership
    for nid in sorted(objs):
        okay, isin = _try(out, 'contains', '', lambda o=objs[nid]: o in graph)
        if okay and bool(isin) != (nid in model):
            fail(out, 'contains', 'contains', f'{nid} in graph = {isin}, model {nid in model}')
    # dependees
    inv = m_invert(model)
    for nid in order:
        okay, res = _try(out, 'dependees', '', graph.dependees, objs[nid])
        if okay:
            rids = ctx.ids(res)
            if len(set(rids)) != len(rids) or set(rids) != inv[nid]:
                fail(out, 'dependees', f'dependees/op={opname}',
                     f'dependees({nid}) = {sorted(rids)} vs {sorted(inv[nid])}')
    # iteration / dict
    okay, pairs = _try(out, 'iter', '', lambda: list(graph))
    if okay:
        got = {}
        dup = False
        for key, vals in pairs:
            kid = ctx.ids([key])[0]
            dup |= kid in got
            got[kid] = set(ctx.ids(vals))
        if dup or got != model:
            fail(out, 'iter', 'iter', f'iteration gives {got} vs {model}')
    allplain = not any(ctx.is_nested(n) for n in model)
    if allplain:
        okay, dct = _try(out, 'dict', '', dict, graph)
        if okay:
            got = {ctx.ids([k])[0]: set(ctx.ids(v)) for k, v in dct.items()}
            if got != model or len(dct) != len(model):
                fail(out, 'dict', 'dict', f'dict(graph) = {got} vs {model}')
    # == and <= against graphs built from the model
    # Two *distinct* nested graphs that compare equal (e.g. two empty ones) make
    # the identity of a node ambiguous for == / <= (identity for membership,
    # equality inside dependency lists); the property says nothing about these
    # comparison operators, so such states are skipped for this clause and counted.
    eqn = int(eq_nested_pair(ctx, model))
    same = build(ctx, model)
    if eqn:
        out.excluded += 1
    for name, fun, exp in (() if eqn else
                          (('eq', lambda: graph == same, True),
                           ('eq-rev', lambda: same == graph, True),
                           ('le', lambda: graph <= same, True),
                           ('le-rev', lambda: same <= graph, True))):
        okay, res = _try(out, 'eq_le', name, fun)
        if okay and bool(res) != exp:
            fail(out, 'eq_le', f'eq_le/{name[:2]}/eqnested={eqn}',
                 f'{name} against the graph built from the model {model} is {res}')
    perts = perturbations(ctx, model, salt)
    if perts and (eqn or eq_nested_pair(ctx, perts[salt % len(perts)][1])):
        out.excluded += 1
        perts = []
    if perts:
        pname, pmodel, e_eq, e_le, e_ge = perts[salt % len(perts)]
        other = build(ctx, pmodel, reverse=bool(salt & 1))
        eqn = int(eq_nested_pair(ctx, pmodel))
        for name, fun, exp in (('eq', lambda: graph == other, e_eq),
                               ('eq-rev', lambda: other == graph, e_eq),
                               ('le', lambda: graph <= other, e_le),
                               ('le-rev', lambda: other <= graph, e_ge)):
            okay, res = _try(out, 'eq_le', name, fun)
            if okay and bool(res) != exp:
                fail(out, 'eq_le', f'eq_le/{name[:2]}/eqnested={eqn}',
                     f'{name} against model {pname} is {res}, expected {exp}; model {model}, '
                     f'other {pmodel}')
    # reachability
    reach = m_reach(model)
    acyclic = all(n not in reach[n] for n in model)
    for nid in order:
        okay, res = _try(out, 'dependencies_recurse', '', graph.dependencies, objs[nid],
                         recurse=True)
        if okay and (set(ctx.ids(res)) != reach[nid] or len(res) != len(reach[nid])):
            fail(out, 'dependencies_recurse', 'dependencies_recurse',
                 f'dependencies({nid}, recurse=True) = {sorted(ctx.ids(res))} vs '
                 f'{sorted(reach[nid])}; model {model}')
    for u in order:
        for v in order:
            okay, res = _try(out, 'depends', 'direct', graph.depends, objs[u], objs[v])
            if okay and bool(res) != (v in model[u]):
                fail(out, 'depends', 'depends/recurse=False',
                     f'depends({u}, {v}) = {res}; model {model}')
            if acyclic:
                okay, res = _try(out, 'depends', 'recurse', graph.depends, objs[u], objs[v],
                                 recurse=True)
                if okay and bool(res) != (v in reach[u]):
                    fail(out, 'depends', 'depends/recurse=True',
                         f'depends({u}, {v}, recurse=True) = {res}; model {model}')
    # topological sort
    if allplain or TOPO_ON_NESTED:
        check_topo(ctx, graph, model, acyclic, out, 'plain' if allplain else 'nested-node')
    elif model:
        out.labels.append('topo-skipped-unhashable-node')
    # reduction / closure on copies
    if acyclic:
        out.labels.append('acyclic-observed')
        check_reduction_closure(ctx, graph, model, reach, out)
        if observe_state(ctx, entry, out, 'independence/op=reduce-close-on-copy',
                         'original after reducing/closing copies') is None:
            return
    else:
        out.labels.append('cyclic-observed')


def check_topo(ctx, graph, model, acyclic, out, feat):
    try:
        res = graph.topological_sort()
    except DepGraphError:
        out.labels.append('topo-cyclic')
        if acyclic:
            fail(out, 'topo', 'topo/raises-on-acyclic', f'DepGraphError on acyclic {model}')
        return
    except Exception as exc:
        if valjean_frame(exc)[1] == 'outside-valjean':
            raise
        out.failures.append(exc_failure('topo', exc, feat))
        return
    if not acyclic:
        out.labels.append('topo-cyclic')
        fail(out, 'topo', 'topo/no-raise-on-cyclic', f'{ctx.ids(res)} returned for cyclic {model}')
        return
    out.labels.append('topo-acyclic')
    ids = ctx.ids(res)
    if sorted(ids) != sorted(model):
        fail(out, 'topo', 'topo/not-a-permutation', f'{ids} for nodes {sorted(model)}')
        return
    pos = {n: i for i, n in enumerate(ids)}
    bad = [(u, v) for u, v in m_edges(model) if pos[v] >= pos[u]]
    if bad:
        fail(out, 'topo', 'topo/order', f'{ids}: node before its dependency for {bad}; '
             f'model {model}')


def check_reduction_closure(ctx, graph, model, reach, out):
    okay, cpy = _try(out, 'reduction', 'copy', graph.copy)
    if okay:
        okay, red = _try(out, 'reduction', '', cpy.transitive_reduction)
    if okay:
        if red is not cpy:
            fail(out, 'reduction', 'reduction/returns', 'does not return the graph itself')
        got = read_model(ctx, cpy, out, 'reduction')
        if got is not None:
            exp = m_reduction(model)
            if set(got) != set(model):
                fail(out, 'reduction', 'reduction/nodes', f'{sorted(got)} vs {sorted(model)}')
            elif m_reach(got) != reach:
                fail(out, 'reduction', 'reduction/reachability',
                     f'{model} reduced to {got}: reachability changed')
            elif got != exp:
                fail(out, 'reduction', 'reduction/not-minimal',
                     f'{model} reduced to {got}, minimal is {exp}')
    okay, cpy = _try(out, 'closure', 'copy', graph.copy)
    if okay:
        okay, clo = _try(out, 'closure', '', cpy.transitive_closure)
    if okay:
        if clo is not cpy:
            fail(out, 'closure', 'closure/returns', 'does not return the graph itself')
        got = read_model(ctx, cpy, out, 'closure')
        if got is not None and got != reach:
            fail(out, 'closure', 'closure/edges', f'{model} closed to {got}, paths {reach}')


def read_model(ctx, graph, out, clause):
    """model read back from a graph through nodes() and dependencies()."""
    okay, nodes = _try(out, clause, 'read', lambda: list(graph.nodes()))
    if not okay:
        return None
    got = {}
    for obj in nodes:
        okay, deps = _try(out, clause, 'read', graph.dependencies, obj)
        if not okay:
            return None
        nid = ctx.ids([obj])[0]
        if nid in got:
            fail(out, clause, f'{clause}/duplicate-node', f'node {nid} twice')
            return None
        got[nid] = set(ctx.ids(deps))
    return got


# --------------------------------------------------------------------------
# history interpreter

MUTATORS = {'add_node', 'add_dep', 'rm_node', 'rm_dep', 'merge', 'nest', 'graft', 'flatten',
            'reduce', 'close'}


def new_entry(graph, model, origin):
    return {'g': graph, 'm': model, 'origin': origin, 'has_child': False,
            'removals': 0, 'added_since_rm': False, 'rm_interleaved': False}


def push(ctx, entry, slot):
    if len(ctx.live) < MAXLIVE:
        ctx.live.append(entry)
        return len(ctx.live) - 1
    idx = slot % MAXLIVE
    ctx.live[idx] = entry
    return idx


def run_hist(case):
    out = Outcome()
    out.labels.append('hist')
    ctx = Ctx()
    ctx.salt = case.get('salt', 0)
    ctx.live.append(new_entry(DepGraph(), {}, 'new'))
    flags = set()
    nsteps = 0
    for step, oper in enumerate(case['ops']):
        touched = apply_op(ctx, oper, out, flags)
        nsteps += 1
        if out.failures:
            break
        salt = ctx.salt + step
        for idx, entry in enumerate(ctx.live):
            if idx in touched:
                sig = f'state/op={oper["op"]}'
                if observe_state(ctx, entry, out, sig, f'graph {idx} ({entry["origin"]}) after '
                                 f'{oper}') is not None:
                    observe_derived(ctx, entry, out, oper['op'], salt)
            else:
                tor = '+'.join(sorted({ctx.live[t]['origin'] for t in touched
                                       if t < len(ctx.live)}))
                sig = f'independence/op={oper["op"]}/touched={tor}/broken={entry["origin"]}'
                observe_state(ctx, entry, out, sig,
                              f'graph {idx} (not an operand) after {oper} on {sorted(touched)}')
        if out.failures:
            break
    if not out.failures:
        salt = ctx.salt + nsteps
        for idx, entry in enumerate(ctx.live):
            if observe_state(ctx, entry, out, 'state/final',
                             f'graph {idx} ({entry["origin"]}) at the end') is not None:
                observe_derived(ctx, entry, out, 'final', salt)
        for nid in sorted(ctx.nmodel):
            frozen = {'g': ctx.objs[nid], 'm': ctx.nmodel[nid]}
            observe_state(ctx, frozen, out, 'independence/nested-node-changed',
                          f'nested graph {nid} used as a node')
    for entry in ctx.live:
        if entry['rm_interleaved']:
            flags.add('nt-rm-interleaved')
    out.nontrivial = any(f.startswith('nt-') for f in flags)
    out.labels = sorted(set(out.labels) | flags)
    return out


def note_mutation(entry, flags):
    if entry['origin'] in ('copy', 'invert', 'plus') or entry['has_child']:
        flags.add('nt-copy-mutated')


def apply_op(ctx, oper, out, flags):
    """apply one operation to the real graphs and to the models; returns the
    set of indices of the live graphs that were operands."""
    name = oper['op']
    live = ctx.live
    gi = oper.get('g', 0) % len(live)
    entry = live[gi]
    graph, model = entry['g'], entry['m']
    objs = ctx.objs

    if name == 'new':
        return {push(ctx, new_entry(DepGraph(), {}, 'new'), oper['d'])}

    if name == 'from_dict':
        deps = {}
        for key, vals in oper['deps']:
            deps.setdefault(key % NPLAIN, set()).update(v % NPLAIN for v in vals)
        arg = {objs[k]: [objs[v] for v in sorted(vs)] for k, vs in sorted(deps.items())}
        okay, res = _try(out, 'op', name, DepGraph.from_dependency_dictionary, arg)
        if not okay:
            return set()
        return {push(ctx, new_entry(res, m_union({}, deps), 'from_dict'), oper['d'])}

    if name == 'add_node':
        nid = ctx.node(oper['n'])
        if nid not in model:
            entry['added_since_rm'] = True
        okay, res = _try(out, 'op', name, graph.add_node, objs[nid])
        model.setdefault(nid, set())
        note_mutation(entry, flags)
        if okay and res is not graph:
            fail(out, 'returns', 'returns/add_node', 'add_node does not return the graph')
        return {gi}

    if name == 'add_dep':
        a, b = ctx.node(oper['a']), ctx.node(oper['b'])
        if a not in model or b not in model:
            entry['added_since_rm'] = True
        okay, res = _try(out, 'op', name, graph.add_dependency, objs[a], on=objs[b])
        model.setdefault(a, set())
        model.setdefault(b, set())
        model[a].add(b)
        note_mutation(entry, flags)
        if okay and res is not graph:
            fail(out, 'returns', 'returns/add_dependency', 'does not return the graph')
        return {gi}

    if name == 'rm_node':
        if not model:
            return {gi}
        nid = sorted(model)[oper['k'] % len(model)]
        _try(out, 'op', name, graph.remove_node, objs[nid])
        del model[nid]
        for vals in model.values():
            vals.discard(nid)
        entry['removals'] += 1
        if entry['removals'] >= 2 and entry['added_since_rm']:
            entry['rm_interleaved'] = True
        entry['added_since_rm'] = False
        note_mutation(entry, flags)
        return {gi}

    if name == 'rm_dep':
        if not model:
            return {gi}
        edges = m_edges(model)
        if edges and not oper['absent']:
            a, b = edges[oper['k'] % len(edges)]
        else:
            order = sorted(model)
            a, b = order[oper['a'] % len(order)], order[oper['b'] % len(order)]
        present = b in model[a]
        try:
            graph.remove_dependency(objs[a], objs[b])
            if not present:
                fail(out, 'rm_absent_edge', 'rm_absent_edge/no-KeyError',
                     f'removing the absent edge {a}->{b} did not raise')
        except KeyError as exc:
            if present:
                out.failures.append(exc_failure('op', exc, name))
            flags.add('absent-edge-keyerror')
        except Exception as exc:
            if valjean_frame(exc)[1] == 'outside-valjean':
                raise
            out.failures.append(exc_failure('op', exc, name + ('' if present else '-absent')))
        model[a].discard(b)
        if present:
            note_mutation(entry, flags)
        return {gi}

    if name == 'merge':
        hi = oper['h'] % len(live)
        other = live[hi]
        if oper['how'] == 'iadd':
            def doit():
                tmp = graph
                tmp += other['g']
                return tmp
            okay, res = _try(out, 'op', 'iadd', doit)
        else:
            okay, res = _try(out, 'op', 'merge', graph.merge, other['g'])
        if okay and res is not graph:
            fail(out, 'returns', 'returns/merge', 'in-place merge does not return the graph')
        entry['m'] = m_union(model, other['m'])
        if set(entry['m']) != set(model):
            entry['added_since_rm'] = True
        note_mutation(entry, flags)
        return {gi, hi}

    if name == 'plus':
        hi = oper['h'] % len(live)
        other = live[hi]
        okay, res = _try(out, 'op', name, lambda: graph + other['g'])
        if not okay:
            return {gi, hi}
        entry['has_child'] = other['has_child'] = True
        return {gi, hi, push(ctx, new_entry(res, m_union(model, other['m']), 'plus'), oper['d'])}

    if name == 'copy':
        okay, res = _try(out, 'op', name, graph.copy)
        if not okay:
            return {gi}
        entry['has_child'] = True
        return {gi, push(ctx, new_entry(res, m_copy(model), 'copy'), oper['d'])}

    if name == 'invert':
        okay, res = _try(out, 'op', name, graph.invert)
        if not okay:
            return {gi}
        entry['has_child'] = True
        return {gi, push(ctx, new_entry(res, m_invert(model), 'invert'), oper['d'])}

    if name == 'nest':
        return op_nest(ctx, oper, out, flags, gi)

    if name == 'graft':
        nest = sorted(n for n in model if ctx.is_nested(n))
        if not nest:
            return {gi}
        if not ctx.levels_acyclic(model):
            flags.add('graft-skipped-cyclic')
            return {gi}
        gid = nest[oper['k'] % len(nest)]
        sub = ctx.nmodel[gid]
        between = bool(model[gid]) and any(gid in model[n] for n in model)
        flags.add('nt-nested-graft-flatten')
        flags.add('graft-empty' if not sub else 'graft-single' if len(sub) == 1 else 'graft-many')
        okay, res = _try(out, 'op', name, graph.graft, objs[gid])
        entry['m'] = m_graft(ctx, model, gid)
        if set(entry['m']) - set(model):
            entry['added_since_rm'] = True
        note_mutation(entry, flags)
        if okay and res is not graph:
            fail(out, 'returns', 'returns/graft', 'graft does not return the graph')
        if okay and not sub and between:
            flags.add('nested-transparent')
            # a transparent nested graph carries the ordering dependees -> deps:
            # one root cause, one bucket, shared with flatten
            got = read_model(ctx, graph, out, 'nested_order')
            if got is not None and got != entry['m']:
                literal = m_graft(ctx, model, gid, transparent=False)
                kind = 'transparent-carries-order' if got == literal else 'transparent-other'
                fail(out, 'nested_order', f'nested_order/{kind}',
                     f'graft of the empty nested graph {gid} in {model}: got {got}, the '
                     f'dependees must still come after the dependencies: {entry["m"]}')
        return {gi}

    if name == 'flatten':
        return op_flatten(ctx, oper, out, flags, gi)

    if name in ('reduce', 'close'):
        if not m_acyclic(model):
            flags.add('reduce-close-skipped-cyclic')
            return {gi}
        meth = graph.transitive_reduction if name == 'reduce' else graph.transitive_closure
        okay, res = _try(out, 'op', name, meth)
        if name == 'reduce':
            entry['m'] = m_reduction(model)
        else:
            entry['m'] = m_reach(model)
        if entry['m'] != model:
            note_mutation(entry, flags)
            flags.add('inplace-' + name)
        if okay and res is not graph:
            fail(out, 'returns', 'returns/' + name, 'does not return the graph')
        return {gi}

    raise ValueError(f'unknown operation {name!r}')   # harness error


def op_nest(ctx, oper, out, flags, gi):
    """create a nested graph node and insert it into graph gi."""
    live = ctx.live
    entry = live[gi]
    graph, model = entry['g'], entry['m']
    if len(ctx.nmodel) >= MAXNESTED:
        return {gi}
    kind = oper['kind']
    touched = {gi}
    if kind == 'empty':
        sub_model, sub = {}, DepGraph()
        depth = 1
    elif kind == 'single':
        nid = ctx.node(oper['n'])
        sub_model = {nid: set()}
        sub = DepGraph().add_node(ctx.objs[nid])
        depth = 1 + ctx.ndepth.get(nid, 0)
    else:
        hi = oper['h'] % len(live)
        src = live[hi]
        depth = 1 + max([ctx.ndepth.get(n, 0) for n in src['m']] or [0])
        okay, sub = _try(out, 'op', 'copy', src['g'].copy)
        if not okay:
            return {gi, hi}
        sub_model = m_copy(src['m'])
        src['has_child'] = True
        touched.add(hi)
    if depth > MAXDEPTH:
        return touched
    nid = NESTED0 + len(ctx.nmodel)
    ctx.nmodel[nid] = sub_model
    ctx.ndepth[nid] = depth
    ctx.objs[nid] = sub
    ctx.oid[id(sub)] = nid
    flags.add('nested-' + kind if kind != 'copy' else
              'nested-copy-empty' if not sub_model else 'nested-copy')
    how = oper['how']
    a, b = ctx.node(oper['a']), ctx.node(oper['b'])
    if a == nid or b == nid or not model:
        how = 'node' if how == 'between' and not model else how
    calls = []
    if how == 'node':
        calls.append((nid, None))
    if how in ('dependee', 'between') and a != nid:
        calls.append((a, nid))
    if how in ('dependency', 'between') and b != nid:
        calls.append((nid, b))
    if not calls:
        calls.append((nid, None))
    for u, v in calls:
        if v is None:
            _try(out, 'op', 'add_node', graph.add_node, ctx.objs[u])
            model.setdefault(u, set())
        else:
            _try(out, 'op', 'add_dep', graph.add_dependency, ctx.objs[u], on=ctx.objs[v])
            model.setdefault(u, set())
            model.setdefault(v, set())
            model[u].add(v)
    entry['added_since_rm'] = True
    note_mutation(entry, flags)
    return touched


def op_flatten(ctx, oper, out, flags, gi):
    entry = ctx.live[gi]
    graph, model = entry['g'], entry['m']
    nest = [n for n in model if ctx.is_nested(n)]
    recurse = bool(oper['recurse'])
    if nest and not ctx.levels_acyclic(model):
        flags.add('flatten-skipped-cyclic')
        return {gi}
    if nest and ctx.aliased_transparent(model):
        # see Ctx.aliased_transparent: outside the domain (the combined edges may
        # even form a cycle through the aliased node); the operation is not performed
        flags.add('flatten-skipped-aliased-transparent')
        out.excluded += 1
        return {gi}
    if nest:
        flags.add('nt-nested-graft-flatten')
        flags.add('flatten-recurse' if recurse else 'flatten-once')
        note_mutation(entry, flags)
        entry['added_since_rm'] = True
    if not recurse:
        # grafts of the top-level nested nodes, in the order of nodes()
        okay, before = _try(out, 'op', 'flatten', lambda: list(graph.nodes()))
        if not okay:
            return {gi}
        todo = [n for n in ctx.ids(before) if n in model and ctx.is_nested(n)]
        expected = literal = model
        for gid in todo:
            if gid in expected:
                expected = m_graft(ctx, expected, gid)
            if gid in literal:
                literal = m_graft(ctx, literal, gid, transparent=False)
        transparent = expected != literal
        okay, res = _try(out, 'op', 'flatten', graph.flatten, recurse=False)
        entry['m'] = expected
        if okay and res is not graph:
            fail(out, 'returns', 'returns/flatten', 'flatten does not return the graph')
        if okay and transparent:
            flags.add('nested-transparent')
            got = read_model(ctx, graph, out, 'nested_order')
            if got is not None and got != expected:
                kind = 'transparent-carries-order' if got == literal else 'transparent-other'
                fail(out, 'nested_order', f'nested_order/{kind}',
                     f'flatten(recurse=False) of {model} (nested {ctx.nmodel}): got {got}, '
                     f'expected {expected}')
        return {gi}
    # recursive flatten: reference = ordering constraints between plain nodes
    want_nodes = ctx.all_plains(model)
    want = closure_pairs(ctx.constraints(model))
    # does a nested graph without plain nodes carry part of this ordering?  (the
    # documented graft construction taken literally loses exactly that part)
    lit = m_reach(m_flatten(ctx, model, transparent=False))
    lit = {(u, v) for u, vs in lit.items() for v in vs}
    carries = lit != want
    strict = not any(u == v for u, v in want)
    if carries:
        flags.add('nested-transparent')
    if ctx.has_transparent(model):
        flags.add('flatten-has-plainless-nested')
    okay, res = _try(out, 'op', 'flatten', graph.flatten)
    if not okay:
        return {gi}
    if res is not graph:
        fail(out, 'returns', 'returns/flatten', 'flatten does not return the graph')
    got = read_model(ctx, graph, out, 'flatten')
    if got is None:
        return {gi}
    feat = 'transparent' if carries else 'plain'
    if set(got) != want_nodes:
        fail(out, 'flatten', f'flatten/nodes/{feat}',
             f'flatten of {model} (nested {ctx.nmodel}) has nodes {sorted(got)}, expected the '
             f'plain nodes {sorted(want_nodes)}')
        entry['m'] = got
        return {gi}
    have = {(u, v) for u, vs in m_reach(got).items() for v in vs}
    if not strict:
        # the nested graphs share plain nodes in a way that makes the ordering
        # constraints cyclic: there is no ordering to preserve
        flags.add('flatten-cyclic-constraints')
        entry['m'] = got
        return {gi}
    flags.add('flatten-ordering-checked')
    if want - have:
        kind = ('plain' if not carries else
                'transparent-carries-order' if have == lit else 'transparent-other')
        fail(out, 'nested_order', f'nested_order/{kind}',
             f'flatten of {model} (nested {ctx.nmodel}) = {got}: ordering constraints lost: '
             f'{sorted(want - have)[:6]}')
    if have - want:
        fail(out, 'flatten', f'flatten/invented-order/{feat}',
             f'flatten of {model} (nested {ctx.nmodel}) = {got}: constraints not in the nested '
             f'graph: {sorted(have - want)[:6]}')
    entry['m'] = got     # exact edges are not prescribed: continue from what is there
    return {gi}


# --------------------------------------------------------------------------
# RList histories

KEYS = {'id': None, 'ident': lambda x: x, 'mod3': lambda x: x % 3}
RVALS = list(range(6))


def _valid(idx, size):
    return idx % size if idx >= 0 else -((-idx - 1) % size) - 1


def run_rlist(case):
    out = Outcome()
    out.labels.append('rlist')
    keyname = case['key']
    keyf = KEYS[keyname]
    mkey = keyf if keyf is not None else (lambda x: x)   # small ints: id <=> value
    model = [v % 6 for v in case['init']]
    okay, rlst = _try(out, 'rlist_op', 'init',
                      (lambda: RList(model)) if keyf is None else (lambda: RList(model, key=keyf)))
    if not okay:
        return out
    dups = False
    for oper in case['ops']:
        name = oper['op']
        size = len(model)
        if name == 'set' and size:
            idx = _valid(oper['i'], size)
            val = oper['v'] % 6

            def doit(idx=idx, val=val):
                rlst[idx] = val
            okay, _ = _try(out, 'rlist_op', name, doit)
            model[idx] = val
        elif name == 'del' and size:
            idx = _valid(oper['i'], size)

            def doit(idx=idx):
                del rlst[idx]
            okay, _ = _try(out, 'rlist_op', name, doit)
            del model[idx]
        elif name == 'insert':
            val = oper['v'] % 6
            okay, _ = _try(out, 'rlist_op', name, rlst.insert, oper['i'], val)
            model.insert(oper['i'], val)
        elif name == 'append':
            val = oper['v'] % 6
            okay, _ = _try(out, 'rlist_op', name, rlst.append, val)
            model.append(val)
        elif name == 'swap' and size:
            i, j = _valid(oper['i'], size), _valid(oper['j'], size)
            okay, _ = _try(out, 'rlist_op', name, rlst.swap, i, j)
            model[i], model[j] = model[j], model[i]
        elif name == 'copy':
            okay, cpy = _try(out, 'rlist_op', name, rlst.copy)
            if okay:
                okay2, lst = _try(out, 'rlist_op', name, list, cpy)
                if okay2 and lst != model:
                    fail(out, 'rlist', 'rlist/copy-content', f'copy {lst} vs {model}')
                _try(out, 'rlist_op', name, cpy.append, 0)
                if len(cpy) > 1:
                    _try(out, 'rlist_op', name, cpy.swap, 0, len(cpy) - 1)
        else:
            continue
        if out.failures:
            break
        keys = [mkey(v) for v in model]
        isdup = len(set(keys)) != len(keys)
        dups |= isdup
        feat = f'key={keyname}/dups={int(isdup)}'
        check_rlist(rlst, model, mkey, oper, out, feat, case.get('salt', 0))
        if out.failures:
            break
    out.labels.append('rlist-dups' if dups else 'rlist-unique')
    out.nontrivial = dups
    return out


def check_rlist(rlst, model, mkey, oper, out, feat, salt):
    okay, lst = _try(out, 'rlist', 'list', list, rlst)
    if not okay:
        return
    if lst != model or len(rlst) != len(model):
        fail(out, 'rlist', f'rlist/content/op={oper["op"]}',
             f'after {oper}: {lst} (len {len(rlst)}) vs {model}')
        return
    okay, res = _try(out, 'rlist', 'eq', lambda: rlst == list(model))
    if okay and res is not True:
        fail(out, 'rlist', 'rlist/eq-list', f'{lst} == {model} is {res}')
    size = len(model)
    for idx in range(-size, size):
        okay, res = _try(out, 'rlist', 'getitem', lambda i=idx: rlst[i])
        if okay and res != model[idx]:
            fail(out, 'rlist', 'rlist/getitem', f'[{idx}] = {res} vs {model[idx]}')
    start = salt % (size + 1)
    stop = start + 1 + (salt // 7) % (size + 2)
    for val in RVALS:
        where = [i for i, v in enumerate(model) if mkey(v) == mkey(val)]
        okay, res = _try(out, 'rlist', 'contains', lambda v=val: v in rlst)
        if okay and bool(res) != bool(where):
            fail(out, 'rlist', f'rlist/contains/{feat}',
                 f'{val} in {model} = {res} after {oper}')
        try:
            got = sorted(rlst.indices(val))
            if got != where:
                fail(out, 'rlist', f'rlist/indices/{feat}',
                     f'indices({val}) = {got} vs {where} in {model} after {oper}')
        except KeyError:
            if where:
                fail(out, 'rlist', f'rlist/indices/{feat}',
                     f'indices({val}) raises KeyError, expected {where} in {model}')
        for bounds in ((), (start, stop)):
            cand = [i for i in where if not bounds or bounds[0] <= i < bounds[1]]
            try:
                got = rlst.index(val, *bounds)
                # with several elements of the same key any occurrence inside the
                # bounds is accepted: the dependency graph never stores duplicates,
                # and the property does not speak about which one is returned
                if not cand or (got != cand[0] if len(where) == 1 else got not in cand):
                    kind = 'not-first' if got in cand else 'wrong'
                    fail(out, 'rlist_index', f'rlist_index/{kind}/{feat[feat.index("dups"):]}',
                         f'index({val}, {bounds}) = {got}, occurrences {where} in {model} '
                         f'after {oper}')
            except ValueError:
                if cand:
                    fail(out, 'rlist_index', f'rlist_index/ValueError/{feat}',
                         f'index({val}, {bounds}) raises ValueError, occurrences {where} in '
                         f'{model} after {oper}')
        okay, res = _try(out, 'rlist', 'get_index', rlst.get_index, val, None)
        if okay and ((res is None) != (not where) or (res is not None and res not in where)):
            fail(out, 'rlist', f'rlist/get_index/{feat}',
                 f'get_index({val}) = {res}, occurrences {where} in {model}')


# --------------------------------------------------------------------------
# exhaustive enumerations: labelled digraphs given by (n, edge bit-mask)

_PAIRS = {n: [(i, j) for i in range(n) for j in range(n) if i != j] for n in range(6)}


def mask_model(n, mask):
    model = {i: set() for i in range(n)}
    for bit, (i, j) in enumerate(_PAIRS[n]):
        if mask >> bit & 1:
            model[i].add(j)
    return model


def mask_acyclic(n, mask):
    out = [0] * n
    for bit, (i, j) in enumerate(_PAIRS[n]):
        if mask >> bit & 1:
            out[i] |= 1 << j
    alive = (1 << n) - 1
    changed = True
    while changed and alive:
        changed = False
        for i in range(n):
            if alive >> i & 1 and not out[i] & alive:
                alive &= ~(1 << i)
                changed = True
    return alive == 0


def build_enum(model):
    graph = DepGraph()
    for i in sorted(model):
        graph.add_node(PLAIN[i])
    for u, v in m_edges(model):
        graph.add_dependency(PLAIN[u], on=PLAIN[v])
    return graph


class _EnumCtx:
    objs = {i: PLAIN[i] for i in range(NPLAIN)}
    _oid = {id(PLAIN[i]): i for i in range(NPLAIN)}

    def ids(self, objects):
        return [self._oid.get(id(o), -1) for o in objects]

    @staticmethod
    def is_nested(_nid):
        return False


ENUM = _EnumCtx()


def run_topo(n, masks, out):
    for mask in masks:
        model = mask_model(n, mask)
        graph = build_enum(model)
        before = len(out.failures)
        check_topo(ENUM, graph, model, mask_acyclic(n, mask), out, 'plain')
        for failure in out.failures[before:]:
            failure.detail = f'(n={n}, mask={mask}) ' + failure.detail
        if mask:
            out.nontrivial = True


def run_dag(n, mask, out):
    model = mask_model(n, mask)
    if not mask_acyclic(n, mask) or not m_acyclic(model):
        raise ValueError(f'enumerated DAG ({n}, {mask}) is cyclic')   # harness error
    graph = build_enum(model)
    reach = m_reach(model)
    entry = {'g': graph, 'm': model}
    if observe_state(ENUM, entry, out, 'state/enum', f'dag ({n}, {mask})') is None:
        return
    for u in range(n):
        okay, res = _try(out, 'dependencies_recurse', '', graph.dependencies, PLAIN[u],
                         recurse=True)
        if okay and (set(ENUM.ids(res)) != reach[u] or len(res) != len(reach[u])):
            fail(out, 'dependencies_recurse', 'dependencies_recurse',
                 f'dependencies({u}, recurse=True) = {sorted(ENUM.ids(res))}; model {model}')
        for v in range(n):
            for rec, exp in ((False, v in model[u]), (True, v in reach[u])):
                okay, res = _try(out, 'depends', str(rec), graph.depends, PLAIN[u], PLAIN[v],
                                 recurse=rec)
                if okay and bool(res) != exp:
                    fail(out, 'depends', f'depends/recurse={rec}',
                         f'depends({u}, {v}, recurse={rec}) = {res}; model {model}')
    check_topo(ENUM, graph, model, True, out, 'plain')
    check_reduction_closure(ENUM, graph, model, reach, out)
    observe_state(ENUM, entry, out, 'independence/op=reduce-close-on-copy',
                  f'dag ({n}, {mask}) after reducing/closing copies')
    out.nontrivial = bool(mask)


def enumerations(tier):
    nmax = 4 if tier == 'quick' else 5

    def digraphs():
        for n in range(0, 5):
            for mask in range(1 << len(_PAIRS[n])):
                yield ('topo', n, mask)
        if nmax >= 5:
            for start in range(0, 1 << 20, 256):
                yield ('topoblk', 5, start, 256)

    def dags():
        for n in range(0, nmax + 1):
            for mask in range(1 << len(_PAIRS[n])):
                if mask_acyclic(n, mask):
                    yield ('dag', n, mask)
    return [(f'all-labelled-digraphs-n<={nmax}-topological-sort', digraphs, True),
            (f'all-labelled-dags-n<={nmax}-reduction-closure-depends', dags, True)]


# --------------------------------------------------------------------------
# strategies

def _fd(name, **fields):
    return st.fixed_dictionaries(dict(op=st.just(name), **fields))


def _op_strategy():
    gix = st.sampled_from([0, 0, 0, 0, 1, 1, 1, 2, 2, 3, 4])
    node = st.integers(-4, NPLAIN - 1)
    kth = st.integers(0, 23)
    flag = st.booleans()
    deps = st.lists(st.tuples(st.integers(0, NPLAIN - 1),
                              st.lists(st.integers(0, NPLAIN - 1), max_size=3)),
                    min_size=0, max_size=5)
    add_node = _fd('add_node', g=gix, n=node)
    add_dep = _fd('add_dep', g=gix, a=node, b=node)
    rm_node = _fd('rm_node', g=gix, k=kth)
    rm_dep = _fd('rm_dep', g=gix, k=kth, absent=st.sampled_from([False, False, False, True]),
                 a=kth, b=kth)
    merge = _fd('merge', g=gix, h=gix, how=st.sampled_from(['merge', 'iadd']))
    plus = _fd('plus', g=gix, h=gix, d=gix)
    copy = _fd('copy', g=gix, d=gix)
    invert = _fd('invert', g=gix, d=gix)
    new = _fd('new', d=gix)
    from_dict = _fd('from_dict', deps=deps, d=gix)
    nest = _fd('nest', g=gix, kind=st.sampled_from(['empty', 'single', 'copy', 'copy']),
               n=node, h=gix, how=st.sampled_from(['node', 'dependee', 'dependency', 'between',
                                                   'between']),
               a=node, b=node)
    graft = _fd('graft', g=gix, k=kth)
    flatten = _fd('flatten', g=gix, recurse=st.sampled_from([True, True, False]))
    reduce_ = _fd('reduce', g=gix)
    close = _fd('close', g=gix)
    table = {'add_node': (add_node, 2), 'add_dep': (add_dep, 7), 'rm_node': (rm_node, 4),
             'rm_dep': (rm_dep, 2), 'merge': (merge, 1), 'plus': (plus, 1), 'copy': (copy, 2),
             'invert': (invert, 1), 'new': (new, 1), 'from_dict': (from_dict, 2),
             'nest': (nest, 4), 'graft': (graft, 3), 'flatten': (flatten, 3),
             'reduce': (reduce_, 1), 'close': (close, 1)}
    # (one_of() drops repeated strategies, so the weights go through sampled_from)
    names = [name for name, (_s, weight) in sorted(table.items()) for _ in range(weight)]
    return st.sampled_from(names).flatmap(lambda name: table[name][0])


def _sized_lists(elements, maxlen):
    """lists whose length is spread over 1..maxlen (st.lists alone averages ~6)."""
    return st.sampled_from([1, 3, 6, 10, 15, 20]).flatmap(
        lambda low: st.lists(elements, min_size=min(low, maxlen), max_size=maxlen))


def _hist(maxlen):
    return st.fixed_dictionaries({'kind': st.just('hist'), 'salt': st.integers(0, 999),
                                  'ops': _sized_lists(_op_strategy(), maxlen)})


def _rlist(maxlen):
    idx = st.integers(-9, 9)
    val = st.integers(0, 5)
    oper = st.one_of(_fd('set', i=idx, v=val), _fd('del', i=idx),
                     _fd('insert', i=st.integers(-12, 12), v=val), _fd('append', v=val),
                     _fd('swap', i=idx, j=idx), _fd('copy'))
    return st.fixed_dictionaries({'kind': st.just('rlist'), 'salt': st.integers(0, 999),
                                  'key': st.sampled_from(['id', 'id', 'ident', 'mod3']),
                                  'init': st.lists(val, max_size=6),
                                  'ops': _sized_lists(oper, maxlen)})


def strategy(tier):
    maxlen = 25 if tier == 'quick' else 40
    hist, rlist = _hist(maxlen), _rlist(maxlen)
    return st.sampled_from([0, 0, 0, 0, 0, 1]).flatmap(lambda k: rlist if k else hist)


# --------------------------------------------------------------------------

def run_case(case):
    if isinstance(case, dict):
        if case['kind'] == 'hist':
            return run_hist(case)
        return run_rlist(case)
    out = Outcome()
    kind = case[0]
    if kind == 'topo':
        out.labels.append('enum-topo')
        run_topo(case[1], [case[2]], out)
    elif kind == 'topoblk':
        out.labels.append('enum-topo-block')
        run_topo(case[1], range(case[2], case[2] + case[3]), out)
    elif kind == 'dag':
        out.labels.append('enum-dag')
        run_dag(case[1], case[2], out)
    else:
        raise ValueError(f'unknown case {case!r}')
    return out


KNOWN_PREDICATES = {}

MANIFEST = {
    'text': ('Generated edit histories (Hypothesis; <= 25/40 steps) interpreted against up to 5 live '
             'DepGraph objects and a reference model dict node -> set per graph: add/remove node and '
             'edge (absent edge => KeyError), merge/+=/+, copy, invert, from_dependency_dictionary, '
             'nested graph nodes (empty, single-node, copies), graft, flatten, in-place reduction/'
             'closure, on originals, copies and derived graphs alike. After every step nodes(), len, '
             'in, dependencies, dependees, iteration/dict, == and <= against graphs rebuilt from the '
             'model (and one perturbed model), depends, recursive dependencies, topological_sort '
             '(order / DepGraphError iff cyclic), transitive reduction (unique minimum) and closure '
             '(edge iff path) are compared with independently computed graph theory for the graphs '
             'touched, and every other live graph is compared with its own model (independence). '
             'Flatten is compared with a reference ordering relation between plain nodes (nested '
             'graphs without plain nodes are transparent). RList histories are compared with a '
             'Python list. All labelled digraphs (topological_sort) and all labelled DAGs '
             '(reduction, closure, depends) on <= 4 nodes (quick) / <= 5 nodes (thorough) are '
             'enumerated exhaustively. Exploration beyond the enumerated sizes, not proof.'),
    'note': ('Nested graph nodes are frozen at creation; topological_sort and dict() only on graphs '
             'without un-grafted (unhashable) DepGraph nodes; transitive operations, graft and '
             'flatten only on acyclic inputs; after a recursive flatten the model is re-read from '
             'the graph once node set and reachability agree with the reference.'),
    'technique': ('property-based testing of operation histories against a reference model '
                  '(Hypothesis) + exhaustive enumeration of small labelled digraphs'),
    'design_ref': 'DESIGN.md section 3, C16',
}
