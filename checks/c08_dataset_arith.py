"""C08 -- Dataset arithmetic propagates uncorrelated errors and keeps datasets
well formed; operands are never modified; a copy shares no data.

A case is a small *history*: a few initial datasets (same shape and bins) and a
list of operations interpreted against the pool of live datasets.  A "flat"
case is the special case one dataset + one operation.
"""
import operator
from collections import OrderedDict

import numpy as np
from hypothesis import strategies as st

from valjean.eponine.dataset import Dataset
from vlib.core import Failure, Outcome, exc_failure
from vlib import dsutil
from vlib.dsarith import expect_cell, close, TOL

ID = 'C08'
LEVEL = 'exploration'
RULE = ('case = 1-3 initial datasets (shape () to 4-D, 0-4 cells per dimension, float64 values of '
        'either sign with magnitude in [1e-100,1e100] U {0} (small int64 datasets in flat cases), errors >= 0, bins per '
        'dimension as N+1 edges / N centres / none, optionally masked) + a list of operations '
        '(flat: exactly 1; chain: 2-10) interpreted against the pool of live datasets: + - * / '
        'with right operand = live dataset with identical bins | fresh dataset with identical bins '
        '| ndarray of the same shape | Python int | Python float (negative included, divisors '
        'never contain 0), copy(), mask(m), squeeze(), mutate-a-copy (write into value, error and '
        'every bin array of a copy, and of the copy\'s own copy). Oracle after EVERY operation: per-cell '
        'first-order uncorrelated propagation in Python floats (math.hypot of the partial-'
        'derivative terms; constant factor c: value*c, error*|c|) at 1e-12 relative, '
        'well-formedness, error >= 0 where the inputs\' errors are, bins == left operand\'s bins, '
        'byte snapshot of every live dataset / array operand unchanged, mutated copy leaves '
        'original (and copy-of-copy) unchanged. non-trivial = some operation has a negative '
        'number / an array with a negative cell as right operand, or an array/dataset right '
        'operand with >= 2 cells, or the history has >= 3 operations including a copy; distinct '
        '= structural hash of the case')
RULE_ADDENDA = (' Also: right operands that numpy broadcasts, operands of dtype uint8 / uint64 / int64 / bool, right datasets with or without bins, C / Fortran / strided / negative-stride layouts, one binary operation in five in its augmented form (x += y: the object on the left is an operand).')
RULE = RULE + RULE_ADDENDA
ASSUMPTIONS = [
    'numpy float64 arithmetic and math.hypot are the reference for the plain array operation',
    'cells where a straightforward double evaluation of the textbook formula over/underflows '
    '(dominant partial-derivative term outside [1e-150,1e150], r*r or l*dr outside '
    '[1e-290,1e290], non-finite inputs produced earlier in a chain) are excluded and counted, '
    'not compared',
    'on masked datasets only cells unmasked in both operands are compared; such cells must '
    'stay unmasked in the result',
    'dataset right operands have bins identical to the left operand (or neither has bins); '
    'reflected operations (number op dataset) and slicing are outside this property',
    'the name/what strings of results are not asserted (the property does not state them)',
]
BUDGET = {'quick': {'cases': 24000, 'shards': 16, 'seconds': 120, 'shrink_s': 30},
          'thorough': {'cases': 220000, 'shards': 16, 'seconds': 900, 'shrink_s': 60}}
FLOORS = {'flat': 0.80, 'chain': 0.06, 'rhs=neg-number': 0.06, 'rhs=neg-array-cell': 0.04,
          'rhs=dataset': 0.15, 'op=mutate': 0.05, 'op=copy': 0.03, 'op=mask': 0.04,
          'op=squeeze': 0.04, 'op=div': 0.08, 'op=mul': 0.10, 'bins=edges': 0.1,
          'bins=centres': 0.1, 'bins=mixed': 0.1, 'masked-operand': 0.05, 'ndim>=2': 0.2}

BINOPS = {'add': operator.add, 'sub': operator.sub, 'mul': operator.mul,
          'div': operator.truediv}
# the augmented forms (x += y ...): Dataset defines no in-place operators, so they mean
# x = x + y -- a new dataset, the object x was bound to is an operand like any other
AUGOPS = {'add': operator.iadd, 'sub': operator.isub, 'mul': operator.imul,
          'div': operator.itruediv}

# --------------------------------------------------------------------------
# generation

_MODERATE = st.floats(1e-3, 1e3)
_WIDE = st.builds(lambda m, e: min(max(m * 10.0 ** e, 1e-100), 1e100),
                  st.floats(1.0, 10.0, exclude_max=True), st.integers(-100, 99))
_ROUND = st.sampled_from([1.0, 2.0, 0.5, 3.0, 10.0, 0.1, 1e100, 1e-100])
_MAG = st.one_of(_MODERATE, _ROUND, _WIDE)
_NONZERO = st.builds(lambda s, m: s * m, st.sampled_from([1.0, -1.0]), _MAG)
_VAL = st.one_of(_NONZERO, _NONZERO, _NONZERO, _NONZERO, _NONZERO, st.just(0.0))
_ERR = st.one_of(_MAG, _MAG, _MAG, st.just(0.0))
_TEXT = st.sampled_from(['', 'a', 'b', 'flux', 'ds'])


def _vals(nonzero=False):
    return st.lists(_NONZERO if nonzero else _VAL, min_size=1, max_size=5)


_ERRS = st.lists(_ERR, min_size=1, max_size=4)
_MASK = st.lists(st.booleans(), min_size=1, max_size=5)


@st.composite
def _shape(draw):
    ndim = draw(st.sampled_from([0, 1, 1, 2, 2, 3, 4]))
    dims = st.sampled_from([1, 1, 1, 2, 2, 2, 3, 3, 3, 4, 4, 0])
    shape = [draw(dims) for _ in range(ndim)]
    kinds = None
    if ndim and draw(st.sampled_from([True, True, True, False])):
        kinds = [draw(st.sampled_from('ec')) for _ in range(ndim)]
    return shape, kinds


@st.composite
def _dsdesc(draw, dtype, maskable=True):
    desc = {'name': draw(_TEXT), 'what': draw(_TEXT), 'mask': None}
    if dtype == 'i':
        desc['vals'] = draw(st.lists(st.integers(-999, 999), min_size=1, max_size=5))
        desc['errs'] = draw(st.lists(st.integers(0, 99), min_size=1, max_size=4))
    else:
        desc['vals'] = draw(_vals())
        desc['errs'] = draw(_ERRS)
    if maskable and draw(st.integers(0, 3)) == 3:
        desc['mask'] = draw(_MASK)
    return desc


@st.composite
def _rhs(draw, op, chain):
    nonzero = op == 'div'
    kind = draw(st.sampled_from(['pool', 'pool', 'fresh', 'arr', 'arr', 'barr', 'int', 'float', 'float']
                                if chain else
                                ['fresh', 'fresh', 'arr', 'arr', 'barr', 'int', 'int', 'float', 'float',
                                 'pool']))
    if kind == 'barr':      # ndarray of another shape that numpy broadcasts against the dataset
        return {'kind': 'barr', 'vals': draw(_vals(nonzero)),
                'mode': draw(st.sampled_from(['lead', 'lead', 'ones', 'one'])),
                'ax': draw(st.integers(0, 3))}
    if kind == 'pool':
        return {'kind': 'pool', 'i': draw(st.integers(0, 7))}
    if kind == 'fresh':
        return {'kind': 'fresh', 'vals': draw(_vals(nonzero)), 'errs': draw(_ERRS),
                'share': draw(st.booleans()), 'what': draw(_TEXT),
                # the right operand may lack bins, or be the only one to have some
                'binmode': draw(st.sampled_from(['same', 'same', 'same', 'none', 'only-rhs']))}
    if kind == 'arr':
        return {'kind': 'arr', 'vals': draw(_vals(nonzero)),
                # the array operand may hold unsigned integers (detector counts) or booleans
                'dtype': draw(st.sampled_from(['f', 'f', 'f', 'f', 'f', 'u1', 'u8', 'i8', '?']))}
    if kind == 'int':
        num = draw(st.integers(-50, 50))
        return {'kind': 'int', 'c': num if (num or not nonzero) else -7}
    return {'kind': 'float', 'c': draw(_NONZERO if nonzero else _VAL)}


@st.composite
def _op(draw, chain):
    kind = draw(st.sampled_from(['add', 'sub', 'mul', 'mul', 'div', 'div', 'copy', 'mask',
                                 'squeeze', 'mutate']))
    opd = {'op': kind, 'l': draw(st.integers(0, 7)) if chain else 0}
    if kind in BINOPS:
        opd['rhs'] = draw(_rhs(kind, chain))
        if draw(st.integers(0, 4)) == 2:
            opd['aug'] = True
    elif kind == 'mask':
        opd['m'] = draw(_MASK)
    elif kind == 'mutate':
        opd.update(idx=draw(st.integers(0, 63)), w=draw(_NONZERO), we=draw(_MAG),
                   delta=draw(st.sampled_from([0.25, -0.25, 8.0])))
    return opd


@st.composite
def _case(draw):
    chain = draw(st.integers(0, 10)) == 10      # 'flat' is the simpler alternative for shrinking
    shape, kinds = draw(_shape())
    dtype = 'f' if chain else draw(st.sampled_from('fffffffi'))
    case = {'shape': shape, 'kinds': kinds, 'dtype': dtype,
            'form': draw(st.sampled_from(['arr', 'np', 'py'])) if not shape else 'arr',
            'layout': draw(st.sampled_from(dsutil.LAYOUTS))}
    if chain:
        case['init'] = draw(st.lists(_dsdesc('f'), min_size=1, max_size=3))
        case['ops'] = draw(st.lists(_op(True), min_size=2, max_size=10))
    else:
        case['init'] = [draw(_dsdesc(dtype))]
        case['ops'] = [draw(_op(False))]
    return case


def strategy(tier):
    return _case()


# --------------------------------------------------------------------------
# building live objects from the plain case

def _tile(vals, shape, dtype=float):
    size = int(np.prod(shape)) if len(shape) else 1
    flat = [vals[i % len(vals)] for i in range(size)]
    return np.array(flat, dtype=dtype).reshape(shape)


def _build(case, desc):
    shape = tuple(case['shape'])
    dtype = np.int64 if case['dtype'] == 'i' else np.float64
    value = _tile(desc['vals'], shape, dtype)
    error = _tile(desc['errs'], shape, dtype)
    value = dsutil.relayout(value, case.get('layout', 'C'))       # same numbers, other memory layout
    error = dsutil.relayout(error, case.get('layout', 'C'))
    if desc['mask'] is not None:
        mask = _tile(desc['mask'], shape, bool)
        value = np.ma.masked_array(value, mask=mask.copy())
        error = np.ma.masked_array(error, mask=mask.copy())
    elif not shape and case['form'] != 'arr':
        value, error = value[()], error[()]            # numpy scalars
        if case['form'] == 'py':
            value, error = value.item(), error.item()  # Python numbers
    bins = dsutil.make_bins(shape, case['kinds']) if case['kinds'] else None
    return Dataset(value, error, bins=bins, name=desc['name'], what=desc['what'])


class _Live:
    """A live dataset of the pool with its reference snapshot."""
    def __init__(self, dset, origin):
        self.ds = dset
        self.origin = origin
        self.snap = dsutil.snapshot(dset)


def _cells(arr):
    """(data as Python numbers, mask as bools), flattened in C order."""
    data = np.ma.getdata(arr)
    return (np.asarray(data).ravel().tolist(),
            np.ma.getmaskarray(arr).ravel().tolist())


def _bins_of(snap):
    return snap[2]


def _same_bins(snap_a, snap_b):
    return _bins_of(snap_a) == _bins_of(snap_b)


def _bins_class(kinds):
    if not kinds:
        return 'none'
    if set(kinds) == {'e'}:
        return 'edges'
    if set(kinds) == {'c'}:
        return 'centres'
    return 'mixed'


_COMPONENTS = ('value', 'error', 'bins', 'name', 'what')


def _changed(before, after):
    return [name for name, a, b in zip(_COMPONENTS, before, after) if a != b]


class _Abort(Exception):
    """Stop interpreting a history whose live state was corrupted (after the failure was recorded)."""


class _Run:
    """Interpreter state of one case."""

    def __init__(self, case, out):
        self.case = case
        self.out = out
        self.pool = []
        self.aux = []      # (label, array, bytes) of ndarray operands / mask arguments still alive
        self.labels = set()
        self.nt_neg = False
        self.nt_multi = False
        self.ncopy = 0

    def fail(self, clause, signature, detail):
        self.out.failures.append(Failure(clause, signature, detail[:400]))

    # ---- non-interference -------------------------------------------------
    def check_untouched(self, step, what, skip=()):
        """Every live dataset and auxiliary array is byte-identical to its
        snapshot.  Returns the changed components (for the caller's signature)."""
        hits = []
        for pos, live in enumerate(self.pool):
            if live in skip:
                continue
            now = dsutil.snapshot(live.ds)
            if now != live.snap:
                comps = _changed(live.snap, now)
                hits.append((pos, live.origin, comps))
                live.snap = now        # report once, go on from the new state
        for entry in self.aux:
            label, arr, ref = entry
            if arr.tobytes() != ref:
                hits.append((-1, label, ['array']))
                entry[2] = arr.tobytes()
        return hits

    def operands_unchanged(self, num, opname, feat):
        """Clause 'operands are never modified' after the operation of step
        ``num``; a modified operand ends the history (what follows would only
        be consequences of the corrupted state)."""
        hits = self.check_untouched(num, opname)
        for pos, origin, comps in hits:
            self.fail('operands_unchanged', f'C08/operand_modified/{feat}/{"+".join(comps)}',
                      f'step {num}: {origin} (pool index {pos}) changed in {comps} by {opname}')
        if hits:
            raise _Abort()

    # ---- one step ---------------------------------------------------------
    def step(self, num, opd):
        kind = opd['op']
        lhs = self.pool[opd['l'] % len(self.pool)]
        if kind in BINOPS:
            self.binop(num, kind, lhs, opd['rhs'], bool(opd.get('aug')))
        elif kind == 'copy':
            self.copy(num, lhs)
        elif kind == 'mask':
            self.mask(num, lhs, opd['m'])
        elif kind == 'squeeze':
            self.squeeze(num, lhs)
        elif kind == 'mutate':
            self.mutate(num, lhs, opd)
        else:
            raise ValueError(f'unknown op {kind!r}')

    def common_result_checks(self, num, opname, lhs, res, expect_bins):
        for why in dsutil.wellformed(res):
            self.fail('wellformed', f'C08/wellformed/op={opname}', f'step {num}: {why}')
        got = dsutil.snapshot(res)[2]
        if got != expect_bins:
            self.fail('bins_kept', f'C08/bins_kept/op={opname}',
                      f'step {num}: result bins {[(k, a[1]) for k, a in got]} (or their content) '
                      f'differ from the expected {[(k, a[1]) for k, a in expect_bins]}')

    # ---- binary operations ------------------------------------------------
    def make_rhs(self, lhs, rhs):
        """-> (kind class, python object handed to the operator, live-or-None)"""
        shape = lhs.ds.value.shape if hasattr(lhs.ds.value, 'shape') else ()
        rkind = rhs['kind']
        if rkind == 'pool':
            cands = [p for p in self.pool
                     if np.shape(p.ds.value) == shape and _same_bins(p.snap, lhs.snap)]
            other = cands[rhs['i'] % len(cands)]     # lhs itself always qualifies
            return 'dataset', other.ds, other
        if rkind == 'fresh':
            bins = OrderedDict((k, v if rhs['share'] else v.copy())
                               for k, v in lhs.ds.bins.items())
            binmode = rhs.get('binmode', 'same')
            if binmode == 'none' and bins:
                bins = OrderedDict()
                self.labels.add('rhs=dataset-without-bins')
            elif binmode == 'only-rhs' and not bins and shape:
                bins = dsutil.make_bins(shape, ['e' if n % 2 else 'c' for n in shape])
                self.labels.add('rhs=dataset-with-bins-lhs-without')
            try:
                dset = Dataset(_tile(rhs['vals'], shape), _tile(rhs['errs'], shape),
                               bins=bins, name='fresh', what=rhs['what'])
            except Exception:
                # only possible when an earlier step corrupted the live left operand (already
                # reported as a failure): the rest of the history is meaningless.  Without a
                # recorded failure this is a defect of the harness: re-raise (exit 2).
                if self.out.failures:
                    raise _Abort() from None
                raise
            live = _Live(dset, 'fresh-rhs')
            return 'dataset', dset, live
        if rkind == 'arr':
            arr = _tile(rhs['vals'], shape)
            dtype = rhs.get('dtype', 'f')
            if dtype != 'f':
                small = np.abs(np.nan_to_num(arr, nan=1.0, posinf=3.0, neginf=2.0)) % 200.0
                if dtype == '?':
                    arr = np.asarray(small >= 1.0)
                elif dtype == 'i8':
                    sign = np.where(np.nan_to_num(arr) < 0, -1.0, 1.0)
                    arr = np.asarray(sign * np.floor(small + 1.0)).astype(np.int64)
                else:
                    arr = np.asarray(np.floor(small) + 1.0).astype(dtype)   # never zero (divisor)
                self.labels.add('rhs=array-dtype-' + {'?': 'bool', 'i8': 'int64'}.get(dtype, 'uint'))
            return 'array', arr, None
        if rkind == 'barr':
            arr = _tile(rhs['vals'], shape)
            if not shape or arr.size == 0 or np.ma.isMaskedArray(lhs.ds.value):
                return 'array', arr, None
            if rhs['mode'] == 'lead':        # one more leading dimension: the result would be larger
                return 'array-bcast-up', np.stack([arr, arr[..., ::-1] if arr.ndim else arr]), None
            if rhs['mode'] == 'one':
                return 'array-bcast-down', arr.reshape(-1)[:1].copy(), None
            axis = rhs['ax'] % len(shape)
            if shape[axis] > 1:
                return 'array-bcast-down', np.take(arr, [0], axis=axis), None
            return 'array', arr, None
        if rkind == 'int':
            return 'number', int(rhs['c']), None
        return 'number', float(rhs['c']), None

    def binop(self, num, kind, lhs, rhs, aug=False):
        rclass, other, rlive = self.make_rhs(lhs, rhs)
        lval, lmask = _cells(lhs.ds.value)
        lerr, lemask = _cells(lhs.ds.error)
        ncell = len(lval)
        if rclass == 'dataset':
            rval, rmask = _cells(other.value)
            rerr, remask = _cells(other.error)
        elif rclass == 'array':
            rval, rmask = _cells(other)
            rerr, remask = None, rmask
        elif rclass == 'array-bcast-down':
            rval, rmask = _cells(np.broadcast_to(other, np.shape(lhs.ds.value)))
            rerr, remask = None, rmask
        elif rclass == 'array-bcast-up':
            return self.binop_bcast_up(num, kind, lhs, other)
        else:
            rval, rmask = [other] * ncell, [False] * ncell
            rerr, remask = None, rmask
        if kind == 'div' and any(x == 0 for x in rval):
            kind = 'mul'        # divisors never contain 0 (construction, not rejection)
            self.labels.add('div-by-zero->mul')
        opname = kind
        # labels / non-triviality
        self.labels.update({f'op={kind}', f'rhs={rclass}'})
        if rclass == 'number' and other < 0:
            self.labels.add('rhs=neg-number')
            self.nt_neg = True
        if rclass in ('array', 'array-bcast-down') and any(x < 0 for x in rval):
            self.labels.add('rhs=neg-array-cell')
            self.nt_neg = True
        if rclass in ('array', 'array-bcast-down', 'dataset') and ncell >= 2:
            self.nt_multi = True
        if rclass == 'dataset' and other is lhs.ds:
            self.labels.add('rhs=self')
        if any(lmask) or any(rmask):
            self.labels.add('masked-operand')
        extra = []
        if rlive is not None and rlive not in self.pool:
            extra = [rlive]
        if rclass in ('array', 'array-bcast-down'):
            self.aux.append([f'ndarray operand of step {num}', other, other.tobytes()])
        feat = f'op={opname}/rhs={rclass}'
        self.pool.extend(extra)      # a fresh right operand stays alive from now on
        if aug:
            self.labels.add('augmented-assignment')
        try:
            res = (AUGOPS if aug else BINOPS)[kind](lhs.ds, other)
        except Exception as exc:   # the property promises a dataset for these operands
            self.out.failures.append(exc_failure('C08/op_raises', exc, feat))
            self.operands_unchanged(num, opname, feat)
            return
        if not isinstance(res, Dataset):
            self.fail('result_type', f'C08/result_type/{feat}', f'step {num}: {type(res)}')
            return
        self.common_result_checks(num, opname, lhs, res, _bins_of(lhs.snap))
        # operands untouched
        self.operands_unchanged(num, opname, feat)
        if rclass in ('array', 'array-bcast-down'):
            self.aux.pop()       # only referenced by this step
        # numbers
        if np.shape(res.value) != np.shape(lhs.ds.value) or \
                np.shape(res.error) != np.shape(lhs.ds.value):
            self.fail('shape', f'C08/shape/{feat}',
                      f'step {num}: result shapes {np.shape(res.value)}/{np.shape(res.error)} '
                      f'for operand shape {np.shape(lhs.ds.value)}')
        else:
            self.compare(num, kind, rclass, feat, res,
                         (lval, lmask, lerr, lemask), (rval, rmask, rerr, remask))
        self.pool.append(_Live(res, f'result of step {num} ({opname})'))

    def binop_bcast_up(self, num, kind, lhs, other):
        """ndarray operand with one more leading dimension: the plain array operation gives
        a value larger than the dataset.  Refusing the operands (ValueError) is fine; a result,
        if any, must be a well-formed dataset and the operands must be untouched."""
        if kind == 'div' and np.any(other == 0):
            kind = 'mul'
        feat = f'op={kind}/rhs=array-bcast-up'
        self.labels.update({f'op={kind}', 'rhs=array-bcast-up'})
        self.aux.append([f'ndarray operand of step {num}', other, other.tobytes()])
        try:
            res = BINOPS[kind](lhs.ds, other)
        except ValueError:
            self.labels.add('bcast-up-refused')
            res = None
        except Exception as exc:
            self.out.failures.append(exc_failure('C08/op_raises', exc, feat))
            res = None
        self.operands_unchanged(num, kind, feat)
        self.aux.pop()
        if res is None:
            return
        self.labels.add('bcast-up-result')
        if not isinstance(res, Dataset):
            self.fail('result_type', f'C08/result_type/{feat}', f'step {num}: {type(res)}')
            return
        for why in dsutil.wellformed(res):
            self.fail('wellformed', f'C08/wellformed/{feat}', f'step {num}: {why}')
            return
        if np.shape(res.value) != np.shape(res.error):
            self.fail('shape', f'C08/shape/{feat}',
                      f'step {num}: value shape {np.shape(res.value)} vs error shape '
                      f'{np.shape(res.error)}')

    def compare(self, num, kind, rclass, feat, res, left, right):
        lval, lmask, lerr, lemask = left
        rval, rmask, rerr, remask = right
        gval, gvmask = _cells(res.value)
        gerr, gemask = _cells(res.error)
        seen = set()
        for cell in range(len(lval)):
            if lmask[cell] or lemask[cell] or rmask[cell] or remask[cell]:
                continue
            rer = rerr[cell] if rerr is not None else None
            exp_v, exp_e, okay = expect_cell(kind, lval[cell], lerr[cell], rval[cell], rer)
            where = (f'step {num} cell {cell}: ({lval[cell]!r} +- {lerr[cell]!r}) {kind} '
                     f'({rval[cell]!r}' + (f' +- {rer!r})' if rer is not None else ')'))
            if gvmask[cell] or gemask[cell]:
                if okay and 'masked' not in seen:
                    seen.add('masked')
                    self.fail('value', f'C08/result_masked/{feat}',
                              where + ' is masked in the result although both operands are not')
                continue
            inputs_nonneg = lerr[cell] >= 0 and (rer is None or rer >= 0)
            negfactor = rer is None and kind in ('mul', 'div') and rval[cell] < 0
            if inputs_nonneg and gerr[cell] < 0 and 'neg' not in seen:
                seen.add('neg')
                sig = ('C08/error_negative/scaled-by-negative-factor' if negfactor
                       else f'C08/error_negative/{feat}')
                self.fail('error_nonneg', sig, where + f' -> error {gerr[cell]!r} < 0')
            if not okay:
                self.out.excluded += 1
                self.labels.add('cells-excluded-range')
                continue
            if not close(gval[cell], exp_v) and 'val' not in seen:
                seen.add('val')
                self.fail('value', f'C08/value/{feat}',
                          where + f' -> value {gval[cell]!r}, expected {exp_v!r}')
            if not close(gerr[cell], exp_e) and 'err' not in seen:
                seen.add('err')
                if negfactor and close(-gerr[cell], exp_e):
                    sig = 'C08/error_negative/scaled-by-negative-factor'
                else:
                    sig = f'C08/error_formula/{feat}'
                self.fail('error_formula', sig,
                          where + f' -> error {gerr[cell]!r}, expected {exp_e!r} (rel tol {TOL})')

    # ---- copy / mask / squeeze -------------------------------------------
    def copy(self, num, lhs):
        self.labels.add('op=copy')
        self.ncopy += 1
        try:
            res = lhs.ds.copy()
        except Exception as exc:
            self.out.failures.append(exc_failure('C08/op_raises', exc, 'op=copy'))
            self.operands_unchanged(num, 'copy()', 'op=copy')
            return
        self.common_result_checks(num, 'copy', lhs, res, _bins_of(lhs.snap))
        if dsutil.snapshot(res) != lhs.snap:
            comps = _changed(lhs.snap, dsutil.snapshot(res))
            self.fail('copy_equal', f'C08/copy_differs/{"+".join(comps)}',
                      f'step {num}: the copy differs from its original in {comps}')
        self.operands_unchanged(num, 'copy()', 'op=copy')
        self.pool.append(_Live(res, f'copy made at step {num}'))

    def mask(self, num, lhs, mlist):
        self.labels.add('op=mask')
        shape = np.shape(lhs.ds.value)
        marr = _tile(mlist, shape, bool)
        self.aux.append([f'mask argument of step {num}', marr, marr.tobytes()])
        try:
            res = lhs.ds.mask(marr)
        except Exception as exc:
            self.aux.pop()
            self.out.failures.append(exc_failure('C08/op_raises', exc, 'op=mask'))
            self.operands_unchanged(num, 'mask()', 'op=mask')
            return
        self.common_result_checks(num, 'mask', lhs, res, _bins_of(lhs.snap))
        self.operands_unchanged(num, 'mask()', 'op=mask')
        for name in ('value', 'error'):
            before = lhs.snap[0 if name == 'value' else 1]
            arr = getattr(res, name)
            if np.shape(arr) != shape:
                self.fail('shape', 'C08/shape/op=mask', f'step {num}: {name} shape {np.shape(arr)}')
                continue
            data = np.asarray(np.ma.getdata(arr))
            if data.tobytes() != before[2]:
                self.fail('mask_data', f'C08/mask_changes_data/{name}',
                          f'step {num}: mask() changed the numbers of {name}')
            got_mask = np.ma.getmaskarray(arr)
            if marr.size and not bool(np.all(got_mask[marr])):
                self.fail('mask_applied', f'C08/mask_not_applied/{name}',
                          f'step {num}: cells selected by the mask are not masked in {name}')
        self.pool.append(_Live(res, f'mask made at step {num}'))

    def squeeze(self, num, lhs):
        self.labels.add('op=squeeze')
        shape = np.shape(lhs.ds.value)
        keep = [d for d, n in enumerate(shape) if n != 1]
        if len(keep) < len(shape):
            self.labels.add('squeeze-removes-dim')
        try:
            res = lhs.ds.squeeze()
        except Exception as exc:
            self.out.failures.append(exc_failure('C08/op_raises', exc, 'op=squeeze'))
            self.operands_unchanged(num, 'squeeze()', 'op=squeeze')
            return
        lbins = _bins_of(lhs.snap)
        exp_bins = tuple(lbins[d] for d in keep) if lbins else ()
        self.common_result_checks(num, 'squeeze', lhs, res, exp_bins)
        self.operands_unchanged(num, 'squeeze()', 'op=squeeze')
        exp_shape = tuple(shape[d] for d in keep)
        for name, idx in (('value', 0), ('error', 1)):
            arr = getattr(res, name)
            snap = dsutil.snapshot(res)[idx]
            if np.shape(arr) != exp_shape:
                self.fail('shape', 'C08/shape/op=squeeze',
                          f'step {num}: {name} shape {np.shape(arr)} expected {exp_shape}')
            elif (snap[2], snap[3]) != (lhs.snap[idx][2], lhs.snap[idx][3]):
                self.fail('squeeze_data', f'C08/squeeze_changes_data/{name}',
                          f'step {num}: squeeze() changed the numbers or the mask of {name}')
        self.pool.append(_Live(res, f'squeeze made at step {num}'))

    # ---- copy independence ------------------------------------------------
    @staticmethod
    def _writable(arr):
        # 0-d masked arrays (numpy.ma.masked, scalar ``_mask``) do not reliably support item
        # assignment in numpy itself: they are skipped, like immutable numpy scalars
        return (isinstance(arr, np.ndarray) and arr.size > 0
                and not (isinstance(arr, np.ma.MaskedArray) and arr.ndim == 0))

    @staticmethod
    def _write(arr, idx, new, alt):
        pos = np.unravel_index(idx % arr.size, arr.shape) if arr.shape else ()
        old = np.ma.getdata(arr)[pos]
        if arr.dtype.kind == 'i':
            arr[pos] = int(old) + 1
        else:
            arr[pos] = new if old != new else alt
        return True

    def mutate(self, num, lhs, opd):
        """copy the dataset, copy the copy, write into every array of the
        first copy: neither its original nor its own copy may change."""
        self.labels.add('op=mutate')
        self.ncopy += 1
        try:
            first = lhs.ds.copy()
            second = first.copy()
        except Exception as exc:
            self.out.failures.append(exc_failure('C08/op_raises', exc, 'op=copy'))
            self.operands_unchanged(num, 'copy()', 'op=copy')
            return
        if dsutil.snapshot(first) != lhs.snap or dsutil.snapshot(second) != lhs.snap:
            self.fail('copy_equal', 'C08/copy_differs/mutate',
                      f'step {num}: a copy differs from its original')
        live2 = _Live(second, f'copy of the mutated copy (step {num})')
        self.pool.append(live2)
        targets = []
        if self._writable(first.value):
            targets.append(('value', first.value, opd['w'], opd['w'] * 2.0))
        if self._writable(first.error):
            targets.append(('error', first.error, opd['we'], opd['we'] * 2.0))
        for key, arr in first.bins.items():
            if isinstance(arr, np.ndarray) and arr.size:
                pos = opd['idx'] % arr.size
                targets.append((f'bins[{key}]', arr, arr[pos] + opd['delta'],
                                arr[pos] - opd['delta']))
        if not targets:
            self.labels.add('mutate-nothing-writable')
        wrote = 0
        for name, arr, new, alt in targets:
            before = arr.tobytes() if not isinstance(arr, np.ma.MaskedArray) \
                else np.ma.getdata(arr).tobytes()
            self._write(arr, opd['idx'], new, alt)
            after = arr.tobytes() if not isinstance(arr, np.ma.MaskedArray) \
                else np.ma.getdata(arr).tobytes()
            if before == after:
                raise AssertionError(f'harness: mutation of {name} wrote nothing')
            wrote += 1
            comp = 'bins' if name.startswith('bins') else name
            hits = self.check_untouched(num, 'mutate')
            if hits:
                whom = '; '.join(f'{origin} in {comps}' for _p, origin, comps in hits)
                self.fail('copy_independent', f'C08/copy_shares/{comp}',
                          f'step {num}: writing into {name} of a copy of pool[{self.pool.index(lhs)}]'
                          f' ({lhs.origin}) changed: {whom}')
        if wrote:
            self.labels.add('mutate-wrote')
        self.pool.pop()          # the copy-of-copy was only a witness
        self.pool.append(_Live(first, f'mutated copy made at step {num}'))


def run_case(case):
    out = Outcome()
    run = _Run(case, out)
    chain = len(case['ops']) > 1 or len(case['init']) > 1
    for pos, desc in enumerate(case['init']):
        run.pool.append(_Live(_build(case, desc), f'initial dataset {pos}'))
        if desc['mask'] is not None:
            run.labels.add('init-masked')
    try:
        for num, opd in enumerate(case['ops']):
            run.step(num, opd)
    except _Abort:
        run.labels.add('history-aborted-after-failure')
    ndim = len(case['shape'])
    run.labels.add('chain' if chain else 'flat')
    run.labels.add(f'bins={_bins_class(case["kinds"])}')
    run.labels.add('ndim>=2' if ndim >= 2 else f'ndim={ndim}')
    if 0 in case['shape']:
        run.labels.add('empty-array')
    if case['dtype'] == 'i':
        run.labels.add('int-dtype')
    if chain and len(case['ops']) >= 3 and run.ncopy:
        run.labels.add('chain>=3-with-copy')
    out.nontrivial = bool(run.nt_neg or run.nt_multi or 'chain>=3-with-copy' in run.labels)
    if out.nontrivial:
        run.labels.add('nontrivial')
    out.labels = sorted(run.labels)
    out.info = {'pool': [live.origin for live in run.pool]}
    return out


def _has_negative_factor(case, _failure=None):
    """Some * or / has a negative number / an array with a negative cell as right operand."""
    for opd in case['ops']:
        rhs = opd.get('rhs') or {}
        if opd['op'] in ('mul', 'div'):
            if rhs.get('kind') in ('int', 'float') and rhs['c'] < 0:
                return True
            if rhs.get('kind') == 'arr' and any(x < 0 for x in rhs['vals']):
                return True
    return False


def _mutates_copy_with_bins(case, _failure=None):
    """The history writes into a copy of a dataset that has bins."""
    return bool(case['kinds']) and any(opd['op'] == 'mutate' for opd in case['ops'])


KNOWN_PREDICATES = {'c08_negative_factor': _has_negative_factor,
                    'c08_mutate_copy_with_bins': _mutates_copy_with_bins}


MANIFEST = {
    'text': ('Generated search (Hypothesis): ~3000 single operations and ~300 histories of 2-10 '
             'operations (+ - * / with dataset / ndarray / int / float right operands incl. negative '
             'ones, copy, mask, squeeze, write-into-a-copy) over datasets from 0-d to 4-D with edge / '
             'centre / no bins, masked or not, magnitudes 1e-100..1e100. After every operation: an '
             'independent per-cell first-order propagation model in Python floats (1e-12 relative), '
             'well-formedness, error sign, bins of the left operand, byte snapshots of all live '
             'operands, and independence of copies in both directions. Exploration, not proof: '
             'shapes are at most 4x4x4x4 and histories at most 10 operations.'),
    'note': ('Trusts IEEE float64 / math.hypot as reference arithmetic; cells whose textbook '
             'evaluation over/underflows in double precision are excluded and counted; name/what '
             'of results, reflected operators and aliasing between a result and its operands '
             '(results share bin and sometimes error arrays with the left operand) are outside the '
             'property and not asserted.'),
    'technique': 'property-based testing (Hypothesis), operation histories against a reference model, byte-snapshot non-interference',
    'design_ref': 'DESIGN.md section 3, C08',
}
