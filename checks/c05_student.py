"""C05 -- the verdict of a Student comparison is true exactly when every bin of
every compared dataset is statistically compatible with the reference; the
per-bin oracles, the p-value decision and the verdict agree; the verdict is
symmetric, scale invariant and monotone."""
import math
import os

import numpy as np
from hypothesis import strategies as st

from valjean.gavroche.stat_tests.student import TestStudent
from vlib.core import Failure, Outcome, exc_failure, HarnessError
from vlib import dsutil, dist, statgen
from vlib.statgen import close

ID = 'C05'
LEVEL = 'exploration'
RULE = ('case = reference dataset + 1-3 compared datasets of one shape (() to 3-D, 1-5 cells per '
        'dimension, shared edge/centre bins or none), alpha in (0,1) (log-uniform 1e-8..0.5 and, less often, 1e-100..1e-8, uniform '
        '0.001..0.999, usual levels), ndf None or an integer in [1, 1e6]; every bin of every compared '
        'dataset is built by one of: value placed at u*c*q from the reference value (u below, around '
        'or above 1, c the critical value, q the quadratic sum of the errors), value equal to the '
        'reference, free value; errors relative / free / exact 0 / NaN / inf; values may be 0, NaN, '
        '+-inf; plus a power-of-two rescaling exponent and one monotone modification (move a value '
        'away from the reference, or halve an error). Oracle: plain-float reference of the '
        'documented conventions + independent normal/Student law (vlib/dist.py). non-trivial = '
        '>= 2 compared bins with at least one compatible and one incompatible bin, or a special '
        'value (0/0, x/0, NaN, inf) in some bin; distinct = structural hash of the case')
RULE_ADDENDA = (' Also: significance levels down to 1e-100; C / Fortran / strided / negative-stride memory layouts; integer-valued datasets stored as int32 / int64 (a third of the cases without special values); history clause: the same dataset objects compared again after an in-place change must agree with fresh datasets holding the same numbers.')
RULE = RULE + RULE_ADDENDA
ASSUMPTIONS = [
    'finite non-zero values and errors have magnitude in [1e-140, 1e140] (squares neither overflow '
    'nor underflow); errors are non-negative; ndf is None or an int >= 1; all datasets of a case '
    'share shape and bins',
    'reference laws: vlib/dist.py (statistics.NormalDist, math.erfc, incomplete beta by Lentz), '
    'validated in setup() against tabulated values; agreement with scipy measured at <= 5e-11',
    'a bin with |t| within 1e-6 (relative) of the critical value is not judged (counted as '
    'excluded); neither is a bin with both values NaN and exactly one error NaN (the documented '
    'conventions do not say which rule wins)',
    'p-values are compared to 1e-6 relative or 1e-14 absolute (1e-6 of the smallest generated '
    'alpha): scipy returns 0.0 instead of ~1e-155 and below once t*t overflows, which no level '
    'of the domain can distinguish',
    'with ndf=None the return value of test_pvalue() is documented as False and is not compared; '
    'result.pvalue is compared with the normal law when it is not None',
]
_SHRINK = os.environ.get('VERIF_SHRINK_S')        # shorter shrinking for sensitivity runs
BUDGET = {'quick': {'cases': 16000, 'shards': 16, 'seconds': 120,
                    'shrink_s': int(_SHRINK or 45)},
          'thorough': {'cases': 300000, 'shards': 16, 'seconds': 900,
                       'shrink_s': int(_SHRINK or 60)}}
FLOORS = {'mixed-pass-fail': 0.15, 'clean-true-4+bins': 0.03, 'special': 0.25, 'clean': 0.2, 'verdict-true': 0.15,
          'verdict-false': 0.3, 'scalar': 0.05, 'multi-dataset': 0.3, 'ndf-none': 0.15,
          'ndf-given': 0.4, 'bin:zero-over-zero': 0.03, 'bin:x-over-zero': 0.03,
          'bin:nan-one-value': 0.03, 'bin:nan-both-values': 0.01, 'bin:nan-one-error': 0.03,
          'bin:nan-both-errors-d0': 0.005, 'bin:inf': 0.03}

BAND = 1e-6          # relative half-width of the excluded band around the critical value
TOL_THRESHOLD = 1e-7
TOL_PVALUE = 1e-6
ABS_PVALUE = 1e-14     # = TOL_PVALUE * smallest generated alpha: cannot change a decision
TOL_T = 1e-12
KMAX = 36


def setup(tier):
    bad = dist.selftest()
    if bad:
        raise HarnessError('vlib.dist selftest failed: ' + '; '.join(bad))


# ---------------------------------------------------------------- generator

def _ndfs():
    return st.one_of(st.none(), st.none(), st.integers(1, 30), st.integers(1, 30),
                     st.floats(0.0, 6.0).map(lambda x: max(1, min(10**6, int(10.0 ** x)))),
                     st.sampled_from([1, 2, 10**6]))


@st.composite
def _case(draw):
    shape = draw(statgen.shapes())
    kinds = statgen.kinds_for(draw, shape)
    size = statgen.size_of(shape)
    nds = draw(st.sampled_from([1, 1, 2, 3]))
    alpha = draw(statgen.alphas(tiny=True))
    ndf = draw(_ndfs())
    crit = dist.crit(alpha, ndf)
    special = draw(st.sampled_from([0, 0, 25, 90]))      # per mille of NaN / inf
    zero = draw(st.sampled_from([0, 60, 250]))           # per mille of zero errors
    pfail = draw(st.sampled_from([0, 0, 100, 500]))      # per mille of bins beyond the threshold
    # integer-valued datasets (counts, tallies stored as int32 / int64; errors are floats)
    vdtype = draw(st.sampled_from([None] * 5 + ['i4', 'i8'])) if not special else None
    if vdtype:
        return _int_case(draw, shape, kinds, size, nds, alpha, ndf, crit, zero, pfail, vdtype)
    refv = [statgen.value(draw, special) for _ in range(size)]
    refe = [statgen.error(draw, v, special, zero) for v in refv]
    others = []
    for _ in range(nds):
        vals, errs = [], []
        for v1, e1 in zip(refv, refe):
            mode = draw(st.integers(0, 9))
            if mode <= 5:                                # near the threshold
                e2 = statgen.error(draw, v1, special, zero)
                q = math.hypot(e1, e2) if not (math.isnan(e1) or math.isnan(e2)) else math.nan
                roll = draw(st.integers(0, 999))
                if roll < 80:
                    u = draw(st.floats(0.9, 1.1))
                elif roll < 80 + pfail:
                    u = draw(st.floats(1.02, 3.0))
                else:
                    u = draw(st.floats(0.0, 0.98))
                if draw(st.booleans()):
                    u = -u
                if math.isfinite(q) and q > 0.0 and math.isfinite(v1):
                    v2 = statgen.clamp(v1 + u * crit * q)
                else:
                    v2 = v1 if draw(st.booleans()) else statgen.value(draw, special)
            elif mode <= 7:                              # same value, own error
                v2 = v1
                e2 = e1 if draw(st.integers(0, 2)) == 0 else statgen.error(draw, v1, special, zero)
            else:                                        # unrelated
                v2 = statgen.value(draw, special)
                e2 = statgen.error(draw, v2, special, zero)
            vals.append(v2)
            errs.append(e2)
        others.append({'v': vals, 'e': errs})
    mono = {'ds': draw(st.integers(0, 2)), 'bin': draw(st.integers(0, 124)),
            'what': draw(st.sampled_from(['value', 'value', 'error-ref', 'error-other'])),
            'factor': draw(st.floats(-3.0, 3.0).map(lambda x: 10.0 ** x))}
    return {'shape': shape, 'kinds': kinds, 'ref': {'v': refv, 'e': refe}, 'others': others,
            'alpha': alpha, 'ndf': ndf, 'k': draw(st.integers(-KMAX, KMAX)), 'mono': mono,
            'layout': draw(st.sampled_from(dsutil.LAYOUTS))}


def _int_case(draw, shape, kinds, size, nds, alpha, ndf, crit, zero, pfail, vdtype):
    vmax = 10 ** 9 if vdtype == 'i4' else 10 ** 15

    def ival():
        expo = draw(st.integers(0, len(str(vmax)) - 1))
        return float(draw(st.integers(-min(10 ** expo, vmax), min(10 ** expo, vmax))))

    def err():
        if draw(st.integers(0, 999)) < zero:
            return 0.0
        return draw(st.floats(0.0, 4.0).map(lambda x: 0.5 * 10.0 ** x))
    refv = [ival() for _ in range(size)]
    refe = [err() for _ in refv]
    others = []
    for _ in range(nds):
        vals, errs = [], []
        for v1, e1 in zip(refv, refe):
            e2 = err()
            q = math.hypot(e1, e2)
            mode = draw(st.integers(0, 9))
            if mode <= 6 and q > 0.0 and math.isfinite(crit):
                roll = draw(st.integers(0, 999))
                u = draw(st.floats(0.9, 1.1) if roll < 80 else st.floats(1.02, 3.0)
                         if roll < 80 + max(pfail, 100) else st.floats(0.0, 0.98))
                step = (-u if draw(st.booleans()) else u) * crit * q
                v2 = v1 + float(round(max(-2.0 * vmax, min(2.0 * vmax, step))))
            elif mode <= 8:
                v2 = v1
            else:
                v2 = ival()
            vals.append(max(-float(vmax), min(float(vmax), v2)))
            errs.append(e2)
        others.append({'v': vals, 'e': errs})
    mono = {'ds': draw(st.integers(0, 2)), 'bin': draw(st.integers(0, 124)),
            'what': draw(st.sampled_from(['value', 'value', 'error-ref', 'error-other'])),
            'factor': draw(st.floats(-3.0, 3.0).map(lambda x: 10.0 ** x))}
    return {'shape': shape, 'kinds': kinds, 'ref': {'v': refv, 'e': refe}, 'others': others,
            'alpha': alpha, 'ndf': ndf, 'k': draw(st.integers(-KMAX, KMAX)), 'mono': mono,
            'layout': draw(st.sampled_from(dsutil.LAYOUTS)), 'vdtype': vdtype}


def strategy(tier):
    return _case()


# ------------------------------------------------------------------- oracle

def _ref_bin(v1, e1, v2, e2):
    """(class, t) of one bin by the property text and the documented
    conventions; t is None when the conventions do not decide the bin."""
    nan_v = math.isnan(v1) + math.isnan(v2)
    nan_e = math.isnan(e1) + math.isnan(e2)
    if nan_v == 2:
        if nan_e == 1:
            return 'nan-both-values-one-error', None
        return 'nan-both-values', 0.0
    if nan_v == 1:
        return 'nan-one-value', math.nan
    if nan_e == 1:
        return 'nan-one-error', math.nan
    diff = v1 - v2                      # inf - inf -> nan
    if nan_e == 2:
        if diff == 0.0:
            return 'nan-both-errors-d0', 0.0
        return 'nan-both-errors-dn0', math.nan
    quad = math.sqrt(e1 * e1 + e2 * e2)
    infs = any(math.isinf(x) for x in (v1, v2, e1, e2))
    if quad == 0.0:
        if diff == 0.0:
            return 'zero-over-zero', 0.0
        if math.isnan(diff):
            return 'inf', math.nan
        return 'x-over-zero', math.copysign(math.inf, diff)
    if math.isnan(diff) or (math.isinf(diff) and math.isinf(quad)):
        return 'inf', math.nan
    return ('inf' if infs else 'finite'), diff / quad


def _compatible(tval, crit):
    """True / False, or None inside the excluded band around the threshold."""
    if tval is None:
        return None
    if math.isnan(tval):
        return False
    if math.isfinite(tval) and abs(abs(tval) - crit) <= BAND * crit:
        return None
    return abs(tval) < crit


def _conj(flags):
    """Conjunction with undecided members: False wins, then None."""
    if any(f is False for f in flags):
        return False
    if any(f is None for f in flags):
        return None
    return True


def _domain_ok(case):
    if not 0.0 < case['alpha'] < 1.0:
        return False
    if case['ndf'] is not None and not (isinstance(case['ndf'], int) and case['ndf'] >= 1):
        return False
    size = statgen.size_of(case['shape'])
    for dset in [case['ref']] + list(case['others']):
        if len(dset['v']) != size or len(dset['e']) != size:
            return False
        if not all(statgen.in_domain(x) for x in dset['v']):
            return False
        if not all(statgen.in_domain(x) and not x < 0.0 for x in dset['e']):
            return False
    return 1 <= len(case['others']) <= 3


def _verdict(ref, others, alpha, ndf, clause, feat, out):
    """bool(TestStudent(ref, *others).evaluate()) or None after recording an
    exception failure."""
    try:
        return bool(TestStudent(ref, *others, name='m', alpha=alpha, ndf=ndf).evaluate())
    except Exception as exc:  # no input of the domain may make the comparison raise
        out.failures.append(exc_failure(clause, exc, feat))
        return None


def run_case(case):
    with np.errstate(all='ignore'):
        return _run_case(case)


def _run_case(case):
    out = Outcome()
    if not _domain_ok(case):
        raise HarnessError('case outside the domain of C05')
    shape, kinds = case['shape'], case['kinds']
    alpha, ndf = case['alpha'], case['ndf']
    size = statgen.size_of(shape)
    kind = 'scalar' if not shape else 'array'
    law = 'normal' if ndf is None else 'student'
    refv, refe = case['ref']['v'], case['ref']['e']
    nds = len(case['others'])

    vdt = case.get('vdtype')
    vlim = 2.0 ** 31 - 1 if vdt == 'i4' else 2.0 ** 62

    def build(values, errors, name):
        # the integer dtype wherever the numbers allow it (the metamorphic variants of a case
        # scale or move the values: those that are no longer integers are stored as floats)
        integral = vdt and all(math.isfinite(v) and float(v).is_integer() and abs(v) <= vlim
                               for v in values)
        return statgen.make_dataset(shape, kinds, [int(v) for v in values] if integral else values,
                                    errors, name, case.get('layout', 'C'), vdt if integral else None)

    ref = build(refv, refe, 'ref')
    others = [build(o['v'], o['e'], f'o{i}') for i, o in enumerate(case['others'])]
    if vdt:
        out.labels.append('integer-values-' + vdt)
    out.labels += [kind, f'ndim={len(shape)}', 'ndf-none' if ndf is None else 'ndf-given',
                   'multi-dataset' if nds > 1 else 'single-dataset']

    # ---- reference
    crit = dist.crit(alpha, ndf)
    classes, tref, compat = [], [], []
    for oth in case['others']:
        row = [_ref_bin(v1, e1, v2, e2)
               for v1, e1, v2, e2 in zip(refv, refe, oth['v'], oth['e'])]
        classes.append([r[0] for r in row])
        tref.append([r[1] for r in row])
        compat.append([_compatible(r[1], crit) for r in row])
    allcls = {c for row in classes for c in row}
    for cls in sorted(allcls - {'finite'}):
        out.labels.append('bin:' + cls)
    allflags = [f for row in compat for f in row]
    out.excluded = sum(f is None for f in allflags)
    if out.excluded:
        out.labels.append('undecided-bin')
    mixed = any(f is True for f in allflags) and any(f is False for f in allflags)
    special = bool(allcls - {'finite'})
    out.labels.append('special' if special else 'clean')
    if mixed:
        out.labels.append('mixed-pass-fail')

    out.nontrivial = (len(allflags) >= 2 and mixed) or special
    verdict_ref = _conj(allflags)
    if not special and len(allflags) >= 4 and verdict_ref is True:
        out.labels.append('clean-true-4+bins')
    out.labels.append({True: 'verdict-true', False: 'verdict-false',
                       None: 'verdict-undecided'}[verdict_ref])

    # ---- code under test
    try:
        test = TestStudent(ref, *others, name='c05', alpha=alpha, ndf=ndf)
        res = test.evaluate()
        verdict = bool(res)
        oracles = np.asarray(res.oracles())
        tstud = [statgen.flat(t) for t in res.tstud]
        pvals = None if res.pvalue is None else [statgen.flat(p) for p in res.pvalue]
        tpv = res.test_pvalue()
        threshold = float(res.test.threshold)
    except Exception as exc:  # the property quantifies over all these inputs
        out.failures.append(exc_failure('evaluate_raises', exc, f'{kind}/{law}'))
        return out

    # threshold
    if not close(threshold, crit, TOL_THRESHOLD):
        out.failures.append(Failure('threshold', f'C05/threshold/{law}',
                                    f'threshold {threshold!r}, reference {crit!r} '
                                    f'(alpha={alpha!r}, ndf={ndf})'))

    # a bin lying exactly on the reported critical value is not below it, the
    # next float towards zero is (t = (c - 0) / sqrt(1 + 0) = c exactly)
    if close(threshold, crit, TOL_THRESHOLD):
        zero = statgen.make_dataset([], None, [0.0], [0.0], 'zero')
        for tval, expected, what in ((threshold, False, 'on'),
                                     (math.nextafter(threshold, 0.0), True, 'just-below')):
            probe = statgen.make_dataset([], None, [tval], [1.0], 'probe')
            got = _verdict(probe, [zero], alpha, ndf, 'evaluate_raises', f'scalar/{law}/edge', out)
            if got is not None and got != expected:
                out.failures.append(Failure('strict_threshold', f'C05/strict_threshold/{what}',
                                            f't = {tval!r} with threshold {threshold!r}: '
                                            f'verdict {got}, expected {expected}'))

    # shapes of what is reported
    if oracles.shape != (nds,) + tuple(shape) or len(tstud) != nds or \
            any(len(t) != size for t in tstud):
        out.failures.append(Failure('oracles_shape', f'C05/oracles_shape/{kind}',
                                    f'oracles shape {oracles.shape}, {nds} datasets of shape '
                                    f'{tuple(shape)}'))
        return out
    orc = [statgen.flat_bool(oracles[i]) for i in range(nds)]

    for i in range(nds):
        for j in range(size):
            cls, texp, cexp = classes[i][j], tref[i][j], compat[i][j]
            where = (f'dataset {i} bin {j}: ref {refv[j]!r}+-{refe[j]!r} vs '
                     f'{case["others"][i]["v"][j]!r}+-{case["others"][i]["e"][j]!r}')
            # Student statistic (docstring formula and zeroing conventions)
            if texp is not None and not close(tstud[i][j], texp, TOL_T):
                out.failures.append(Failure('tstud', f'C05/tstud/bin={cls}/{kind}',
                                            f'{where}: t {tstud[i][j]!r}, reference {texp!r}'))
            # per-bin oracle
            if cexp is not None and orc[i][j] != cexp:
                out.failures.append(Failure(
                    'bin_oracle', f'C05/bin_oracle/bin={cls}/{kind}',
                    f'{where}: oracle {orc[i][j]}, reference {cexp} (t={texp!r}, '
                    f'critical value {crit!r})'))
            # p-value and its decision
            if pvals is not None and texp is not None:
                pexp = dist.two_sided_p(texp, ndf)
                pgot = pvals[i][j]
                if not close(pgot, pexp, TOL_PVALUE, ABS_PVALUE):
                    out.failures.append(Failure(
                        'pvalue', f'C05/pvalue/{law}/bin={cls}',
                        f'{where}: p-value {pgot!r}, reference {pexp!r} (t={texp!r}, '
                        f'ndf={ndf})'))
                if cexp is not None and (pgot > alpha) != cexp:
                    out.failures.append(Failure(
                        'pvalue_decision', f'C05/pvalue_decision/{law}/bin={cls}',
                        f'{where}: p-value {pgot!r} > alpha {alpha!r} is {pgot > alpha}, '
                        f'reference compatibility {cexp}'))
                if cexp is not None and (pgot > alpha) != orc[i][j]:
                    out.failures.append(Failure(
                        'pvalue_vs_oracle', f'C05/pvalue_vs_oracle/{law}/bin={cls}',
                        f'{where}: p-value decision {pgot > alpha} but oracle {orc[i][j]}'))

    # test_pvalue() when ndf is given
    if ndf is not None:
        try:
            tpv_flat = [statgen.flat_bool(x) for x in tpv]
            ok_shape = len(tpv_flat) == nds and all(len(x) == size for x in tpv_flat)
        except TypeError:
            tpv_flat, ok_shape = None, False
        if not ok_shape:
            out.failures.append(Failure('test_pvalue', f'C05/test_pvalue/shape/{kind}',
                                        f'test_pvalue() returned {tpv!r}'))
        else:
            for i in range(nds):
                for j in range(size):
                    if compat[i][j] is not None and tpv_flat[i][j] != compat[i][j]:
                        out.failures.append(Failure(
                            'test_pvalue', f'C05/test_pvalue/bin={classes[i][j]}/{kind}',
                            f'dataset {i} bin {j}: test_pvalue {tpv_flat[i][j]}, reference '
                            f'{compat[i][j]}'))

    # verdict = conjunction over bins and datasets
    own = all(all(row) for row in orc)
    if verdict != own:
        out.failures.append(Failure('verdict_vs_oracles', f'C05/verdict_vs_oracles/{kind}/nds={nds}',
                                    f'bool(result) is {verdict} but all(oracles()) is {own}'))
    if verdict_ref is not None and verdict != verdict_ref:
        failing = sorted({c for i in range(nds) for j, c in enumerate(classes[i])
                          if compat[i][j] is False})
        out.failures.append(Failure('verdict', f'C05/verdict/{kind}/nds={min(nds, 2)}/'
                                    f'ref={verdict_ref}',
                                    f'bool(result) is {verdict}, reference {verdict_ref} '
                                    f'(classes of the incompatible bins: {failing})'))

    # ---- metamorphic relations on the verdict (implementation against itself)
    mono = case['mono']
    idx = mono['ds'] % nds
    single = _verdict(ref, [others[idx]], alpha, ndf, 'evaluate_raises', f'{kind}/{law}', out)
    swapped = _verdict(others[idx], [ref], alpha, ndf, 'evaluate_raises', f'{kind}/{law}/swap',
                       out)
    if single is not None and swapped is not None and single != swapped:
        cls = sorted(set(classes[idx]))
        out.failures.append(Failure('symmetry', f'C05/symmetry/{kind}/{"+".join(cls)[:60]}',
                                    f'verdict {single} for (ref, ds{idx}) but {swapped} for '
                                    f'(ds{idx}, ref)'))

    scale = 2.0 ** case['k']
    sref = build([v * scale for v in refv], [e * scale for e in refe], 'ref')
    soth = [build([v * scale for v in o['v']], [e * scale for e in o['e']], f'o{i}')
            for i, o in enumerate(case['others'])]
    scaled = _verdict(sref, soth, alpha, ndf, 'evaluate_raises', f'{kind}/{law}/scaled', out)
    if scaled is not None and scaled != verdict:
        out.failures.append(Failure('rescaling', f'C05/rescaling/{kind}',
                                    f'verdict {verdict}, after multiplying everything by '
                                    f'2**{case["k"]}: {scaled}'))

    jbin = mono['bin'] % size
    mrefe = list(refe)
    moth = [{'v': list(o['v']), 'e': list(o['e'])} for o in case['others']]
    if mono['what'] == 'value':
        v1, v2 = refv[jbin], moth[idx]['v'][jbin]
        e1, e2 = refe[jbin], moth[idx]['e'][jbin]
        ref_scale = [abs(x) for x in (v1 - v2, e1, e2, v2) if math.isfinite(x) and x != 0.0]
        delta = statgen.clamp(mono['factor'] * (max(ref_scale) if ref_scale else 1.0))
        sign = -1.0 if v2 < v1 else 1.0
        moth[idx]['v'][jbin] = statgen.clamp(v2 + sign * delta) if math.isfinite(v2) else v2
        desc = f'value of ds{idx} bin {jbin} moved from {v2!r} to {moth[idx]["v"][jbin]!r}'
    elif mono['what'] == 'error-ref':
        mrefe[jbin] = refe[jbin] / 2.0
        desc = f'reference error of bin {jbin} halved from {refe[jbin]!r}'
    else:
        moth[idx]['e'][jbin] = moth[idx]['e'][jbin] / 2.0
        desc = f'error of ds{idx} bin {jbin} halved'
    mref = build(refv, mrefe, 'ref')
    mods = [build(o['v'], o['e'], f'o{i}') for i, o in enumerate(moth)]
    moved = _verdict(mref, mods, alpha, ndf, 'evaluate_raises', f'{kind}/{law}/mono', out)
    if moved is not None and moved and not verdict:
        out.failures.append(Failure('monotone', f'C05/monotone/{mono["what"]}/{kind}/'
                                    f'bin={classes[idx][jbin]}',
                                    f'verdict False became True after: {desc}'))
    # ---- history: the SAME dataset objects, already compared above, now hold the modified
    # numbers (in place); a new comparison must see the datasets as they are now, i.e. agree
    # with the comparison of freshly built datasets holding the same numbers
    def overwrite(dst, src):
        for attr in ('value', 'error'):
            cur = getattr(dst, attr)
            if isinstance(cur, np.ndarray) and cur.ndim and cur.dtype == getattr(src, attr).dtype:
                cur[...] = getattr(src, attr)
            else:
                setattr(dst, attr, getattr(src, attr))
    overwrite(ref, mref)
    for dst, src in zip(others, mods):
        overwrite(dst, src)
    try:
        fresh = TestStudent(mref, *mods, name='m', alpha=alpha, ndf=ndf).evaluate()
        stale = TestStudent(ref, *others, name='m', alpha=alpha, ndf=ndf).evaluate()
    except Exception as exc:
        out.failures.append(exc_failure('evaluate_raises', exc, f'{kind}/{law}/inplace'))
    else:
        out.labels.append('re-evaluated-after-in-place-change')
        same = bool(fresh) == bool(stale) and all(
            np.array_equal(np.asarray(a), np.asarray(b), equal_nan=True)
            for a, b in zip(fresh.tstud, stale.tstud))
        if not same:
            out.failures.append(Failure('history', f'C05/history/inplace/{mono["what"]}/{kind}',
                                        f'after {desc} IN PLACE, the datasets compared before '
                                        f'give verdict {bool(stale)} (fresh datasets with the '
                                        f'same numbers: {bool(fresh)}) or different t values'))
    out.info = {'critical_value': crit, 'verdict': verdict, 'reference_verdict': verdict_ref,
                'bin_classes': sorted(allcls)}
    return out


MANIFEST = {
    'text': ('Generated search (Hypothesis) over reference + 1-3 compared datasets, scalar to 3-D, '
             'with values placed below / around / above the critical distance, exact zeros, NaN and '
             'infinities in values and errors, alpha over (0,1) and ndf None or 1..1e6. Every case '
             'is judged clause by clause: threshold, Student statistic, per-bin oracles, p-value, '
             'p-value decision, test_pvalue(), verdict = conjunction, and the metamorphic relations '
             '(swap, common 2**k rescaling, monotonicity) on the verdict. Exploration, not proof.'),
    'note': ('Reference laws come from vlib/dist.py (no scipy/numpy), validated at start-up against '
             'tabulated values; bins within 1e-6 (relative) of the critical value and the one NaN '
             'combination the documentation leaves open are not judged and are counted.'),
    'technique': 'property-based testing (Hypothesis), independent numeric oracle + metamorphic relations',
    'design_ref': 'DESIGN.md section 3, C05',
}
