"""C17 -- Browser selections return exactly the items that match.

A case is a *history*: a few input item lists (the roots) and a list of
operations (filter_by / select_by / merge) that ``run_case`` interprets against
a pool of live :class:`valjean.eponine.browser.Browser` objects.  Every live
browser is shadowed by a model: the plain list of the *input* dictionaries it
must contain, its data key and its globals.  The oracle is a naive scan of the
model list; it never looks at the inverted index of the browser.
"""
import numpy as np
from hypothesis import strategies as st

from valjean.eponine.browser import (Browser, NoItemBrowserError,
                                     TooManyItemsBrowserError)
from vlib.core import Failure, Outcome, exc_failure, valjean_frame

ID = 'C17'
LEVEL = 'exploration'
RULE = ('case = history: 1-3 input lists of 0-8 items (metadata keys from a pool of 6, values from a '
        'per-case palette of 1-5 hashable values out of 29: str/int/bool/float/None/tuple/frozenset/'
        'bytes with 1 / 1.0 / True, 0 / 0.0 / -0.0 / False, 10**20 / 1e20 collisions and NaN; data key '
        "'results' or another name, data first or last in the item; data = dict / list / numpy array, "
        'sometimes hashable; globals dict or None), then 1-10 operations filter_by / select_by / merge '
        'on a pool of live browsers (indices modulo the pool size; a result joins the pool when it '
        'passed all its checks). Query keywords take their key and value from an item of the target '
        'browser (same object: hit by construction), the key only (value from the pool: cross-type or '
        "absent value), the pool (possibly absent key) or the documented 'index' key; include/exclude "
        'keys likewise. Every new browser is fully observed (content, data_key, globals, len, keys, '
        'in, available_values) and after every step the snapshots of all input lists / globals and of '
        'every pre-existing browser are compared. A fixed 6-item list x 2 data keys x all single '
        'keyword queries x include/exclude choices is enumerated completely. non-trivial = history '
        'with a query selecting a strict non-empty subset of a browser that has a non-default data '
        'key or was produced by a previous filter/merge; distinct = structural hash of the case')
ASSUMPTIONS = [
    "metadata keys are str, never 'index' (documented as added by the browser), 'include', 'exclude' "
    "or 'self' (not expressible as filter_by keywords); the data key is never 'index'",
    'every item carries the data key; include/exclude never name the data key (documented as '
    '*metadata* keys), keyword queries may (oracle: the data key is not metadata -> no match)',
    "a value v matches an item when item[k] is v or item[k] == v (so 1 / 1.0 / True match each other, a "
    'NaN matches only itself as an object)',
    "the documented 'index' key is the position of the item in the browser it is read from; it is "
    "queried (index=k, include/exclude) but ignored when contents are compared",
    'globals of a merge = self.globals updated with other.globals (docstring: "Global variables are '
    'also merged"); merging browsers with different data keys must raise ValueError',
    'data of a result may be the same object or an equal deep copy; order of keys()/available_values() '
    'is not asserted',
]
BUDGET = {'quick': {'cases': 6000, 'shards': 16, 'seconds': 120, 'shrink_s': 30},
          'thorough': {'cases': 100000, 'shards': 16, 'seconds': 900, 'shrink_s': 45}}
# Fractions of histories showing the class at least once, taken over generated + enumerated cases
# (the 1476 enumerated single-query cases make up half of the quick tier); about 55 % of the values
# measured on the quick tier, which are the smaller ones.
FLOORS = {'nt': 0.10, 'q-strict-subset': 0.15, 'q-nondefault-dkey': 0.3, 'q-derived': 0.10,
          'sel-one': 0.05, 'sel-many': 0.08, 'sel-none': 0.15, 'merge-ok': 0.14,
          'merge-dkey-mismatch': 0.02, 'q-cross-type-hit': 0.04, 'q-include': 0.2, 'q-exclude': 0.2,
          'q-absent-key': 0.12, 'q-absent-value': 0.13, 'q-multi-kw': 0.12, 'q-index': 0.12,
          'q-nan-identity-hit': 0.003, 'data-unhashable': 0.5}

NAN = float('nan')
VALUES = [1, 1.0, True, 0, 0.0, False, -0.0, 2, 2.5, -1, None, 'a', 'b', '', '1', 'True',
          (), (1,), (1.0,), (True, 'a'), ((1,), None), frozenset(), frozenset({1}),
          frozenset({'a', 2}), NAN, 10 ** 20, 1e20, b'a', (NAN,)]
KEYS = ['k0', 'k1', 'k2', 'k3', 'x y', 'results']     # 'results' is dropped when it is the data key
ABSENT = 'zz'                                         # never a metadata key
DKEYS = ['results', 'data', 'res', 'k3']              # 'k3': a data key that other lists use as metadata
RESERVED = ('index', 'include', 'exclude', 'self')


# --------------------------------------------------------------------------
# generation

def _data():
    scalars = st.sampled_from([0, 1, 2.5, -3, 'x'])
    arrays = st.one_of(
        st.lists(st.integers(-5, 5), max_size=4).map(lambda l: np.array(l, dtype='int64')),
        st.lists(st.sampled_from([0.0, 1.5, -2.0, NAN]), min_size=1, max_size=4).map(
            lambda l: np.array(l, dtype='float64')),
        st.just(0).map(lambda _: np.arange(4, dtype='float64').reshape(2, 2)))
    unhash = st.one_of(
        st.lists(scalars, max_size=3),
        st.dictionaries(st.sampled_from(['v', 'w', 'index']), st.one_of(scalars, st.lists(scalars, max_size=2)),
                        max_size=2),
        arrays,
        st.lists(st.dictionaries(st.sampled_from(['v', 'w']), scalars, max_size=2), min_size=1, max_size=2))
    hashable = st.sampled_from([7, 'res', None, (1, 2), 1.0, True])
    return st.one_of(unhash, unhash, unhash, unhash, hashable)


# All sub-strategies are module constants (Hypothesis caches them); values are drawn as positions
# in the per-case palette and substituted at the end of _history, so the case holds plain values.
_PAL = st.integers(0, 7)
_META = st.one_of(st.dictionaries(st.sampled_from(KEYS), _PAL, max_size=4),
                  st.dictionaries(st.sampled_from(KEYS[:3]), _PAL, min_size=2, max_size=3))
_ITEM = st.fixed_dictionaries({'meta': _META, 'data': _data(), 'first': st.booleans()})
_ROOT = st.fixed_dictionaries({
    'items': st.one_of(st.lists(_ITEM, max_size=8), st.lists(_ITEM, min_size=3, max_size=8)),
    'dkey': st.one_of(st.none(), st.none(), st.sampled_from(DKEYS)),       # None: the main data key
    'glob': st.one_of(st.none(), st.dictionaries(
        st.sampled_from(['g0', 'g1', 'g2']),
        st.one_of(st.integers(0, 3), st.lists(st.integers(0, 3), max_size=2)), max_size=3)),
    'explicit': st.booleans()})
# pool positions count from the most recent non-empty browser: results of previous steps are preferred
_POS = st.one_of(st.integers(0, 2), st.integers(0, 30))
_KWARG = st.fixed_dictionaries({
    'mode': st.sampled_from(['ref', 'ref', 'ref', 'ref', 'refkey', 'refkey', 'lit', 'lit', 'index']),
    'k': st.integers(0, 7),
    'lit': st.one_of(_PAL.map(lambda i: ('pal', i)), _PAL.map(lambda i: ('pal', i)),
                     st.sampled_from(VALUES).map(lambda v: ('val', v)))})
_SIDE = st.lists(st.fixed_dictionaries({'mode': st.sampled_from(['ref', 'ref', 'pool']),
                                        'k': st.integers(0, 8)}), min_size=1, max_size=2)
_QUERY = {'b': _POS, 'ref': st.integers(0, 7), 'kw': st.lists(_KWARG, max_size=3),
          'inc': st.one_of(st.just([]), st.just([]), st.just([]), _SIDE),
          'exc': st.one_of(st.just([]), st.just([]), st.just([]), _SIDE)}
_FILTER = st.fixed_dictionaries(dict(_QUERY, op=st.just('filter')))
_SELECT = st.fixed_dictionaries(dict(_QUERY, op=st.just('select')))
_MERGE = st.fixed_dictionaries({'op': st.just('merge'), 'a': _POS, 'b': _POS})
_OP = st.one_of(_FILTER, _FILTER, _FILTER, _FILTER, _FILTER, _SELECT, _SELECT, _SELECT, _MERGE, _MERGE)

FAMILIES = [[1, 1.0, True], [0, 0.0, -0.0, False], [10 ** 20, 1e20], [(1,), (1.0,), (True, 'a')],
            [frozenset(), frozenset({1}), ()], ['1', 1, 'True', True], [NAN, (NAN,), None], ['a', 'b', '']]
_PALETTE = st.tuples(st.sampled_from(FAMILIES), st.lists(st.sampled_from(VALUES), max_size=2))
_MAIN_DKEY = st.sampled_from(['results', 'results', 'data', 'res', 'k3'])
_ROOTS = st.lists(_ROOT, min_size=1, max_size=3)


@st.composite
def _history(draw, max_ops):
    family, extra = draw(_PALETTE)
    palette = family + extra
    main_dkey = draw(_MAIN_DKEY)
    roots = draw(_ROOTS)
    ops = draw(st.one_of(st.lists(_OP, min_size=1, max_size=max_ops),
                         st.lists(_OP, min_size=4, max_size=max_ops)))

    def pal(idx):
        return palette[idx % len(palette)]
    roots = [dict(root, dkey=root['dkey'] or main_dkey,
                  items=[dict(item, meta={k: pal(i) for k, i in item['meta'].items()})
                         for item in root['items']]) for root in roots]
    ops = [op if op['op'] == 'merge' else
           dict(op, kw=[dict(kw, lit=pal(kw['lit'][1]) if kw['lit'][0] == 'pal' else kw['lit'][1])
                        for kw in op['kw']]) for op in ops]
    return {'roots': roots, 'ops': ops}


def strategy(tier):
    return _history(10 if tier == 'quick' else 16)


def enumerations(tier):
    def single_queries():
        vals = [1, True, 1.0, 'a', None, (1,), 2, NAN]
        metas = [{'k0': 1, 'k1': 'a'}, {'k0': True, 'k1': None}, {'k0': 1.0}, {'k1': 'a', 'k2': (1,)},
                 {'k0': 'a', 'k1': 1, 'k2': NAN}, {}]
        datas = [[1], {'v': 1}, np.array([1.0, 2.0]), [], {'index': 3}, [[2]]]
        for dkey in ('results', 'data'):
            root = {'items': [{'meta': m, 'data': d, 'first': i % 2 == 0}
                              for i, (m, d) in enumerate(zip(metas, datas))],
                    'dkey': dkey, 'glob': {'g0': 1}, 'explicit': True}
            kws = [[]] + [[{'mode': 'lit', 'k': key, 'lit': val}]
                          for key in ('k0', 'k1', 'k2', ABSENT) for val in vals]
            kws += [[{'mode': 'lit', 'k': 'index', 'lit': pos}] for pos in (0, 3, 5, 6, -1, True, 2.0, 'a')]
            sides = [[], [{'mode': 'pool', 'k': 'k0'}], [{'mode': 'pool', 'k': ABSENT}]]
            for kw in kws:
                for inc in sides:
                    for exc in sides:
                        for opn in ('filter', 'select'):
                            yield {'roots': [root],
                                   'ops': [{'op': opn, 'b': 0, 'ref': 0, 'kw': kw, 'inc': inc, 'exc': exc}]}
    return [('single-queries-fixed-list', single_queries, True)]


# --------------------------------------------------------------------------
# oracle helpers

def freeze(obj):
    """Canonical, type-aware, order-preserving image of a value (for snapshots)."""
    if isinstance(obj, np.ndarray):
        return ('ndarray', str(obj.dtype), obj.shape, obj.tobytes())
    if isinstance(obj, dict):
        return (type(obj).__name__, tuple((freeze(k), freeze(v)) for k, v in obj.items()))
    if isinstance(obj, (list, tuple)):
        return (type(obj).__name__, tuple(freeze(x) for x in obj))
    if isinstance(obj, (set, frozenset)):
        return (type(obj).__name__, tuple(sorted((freeze(x) for x in obj), key=repr)))
    if isinstance(obj, float):
        return ('float', obj.hex())
    return (type(obj).__name__, repr(obj))


def same(left, right):
    return left is right or left == right


def _fresh(val):
    """Rebuild floats (and tuples around them) so that two occurrences of a value in a case never
    share an object: identity between a query value and an item value then exists only where the
    history asks for it (mode 'ref'), exactly as after decoding a replay file."""
    if isinstance(val, float):
        return float.fromhex(val.hex())
    if isinstance(val, tuple):
        return tuple(_fresh(x) for x in val)
    return val


def _globals_image(glob):
    return freeze(sorted(glob.items())) if isinstance(glob, dict) else freeze(glob)


def _hashable(obj):
    try:
        hash(obj)
    except TypeError:
        return False
    return True


def _meta_keys(item, dkey):
    return [k for k in item if k != dkey]


def scan(items, dkey, kwargs, include, exclude):
    """Positions of the model items selected by a query (the naive scan)."""
    sel = []
    for pos, item in enumerate(items):
        meta = set(_meta_keys(item, dkey)) | {'index'}
        good = set(include) <= meta and not set(exclude) & meta
        for key, val in kwargs.items():
            if key == 'index':
                good = good and same(pos, val)
            else:
                good = good and key in meta and same(item[key], val)
        if good:
            sel.append(pos)
    return sel


def _groups(values):
    reps = []
    for val in values:
        if not any(same(val, rep) for rep in reps):
            reps.append(val)
    return reps


def _same_values(got, reps):
    return len(got) == len(reps) and all(sum(1 for g in got if same(g, rep)) == 1 for rep in reps)


def _item_problem(got, exp, dkey, pos):
    if not isinstance(got, dict):
        return f'item {pos} is a {type(got).__name__}'
    gkeys = [k for k in got if k != 'index']
    if len(gkeys) != len(exp) or set(gkeys) != set(exp):
        return f'item {pos} has keys {sorted(gkeys)}, expected {sorted(exp)}'
    for key, eval_ in exp.items():
        gval = got[key]
        if key == dkey:
            if gval is not eval_ and freeze(gval) != freeze(eval_):
                return f'item {pos}: data {gval!r} instead of {eval_!r}'
        elif not (type(gval) is type(eval_) and same(gval, eval_)):
            return f'item {pos}: {key}={gval!r} instead of {eval_!r}'
    return None


def _content_problem(brow, exp_items, dkey):
    content = brow.content
    if not isinstance(content, list):
        return f'content is a {type(content).__name__}'
    if len(content) != len(exp_items):
        return f'{len(content)} items instead of {len(exp_items)}'
    for pos, (got, exp) in enumerate(zip(content, exp_items)):
        why = _item_problem(got, exp, dkey, pos)
        if why:
            return why
    return None


def _observe(brow, exp_items, dkey):
    """Problems seen through len / keys / in / available_values: [(clause, detail)]."""
    probs = []
    count = len(exp_items)
    if len(brow) != count:
        probs.append(('len', f'len {len(brow)} instead of {count}'))
    metakeys = []
    for item in exp_items:
        metakeys.extend(k for k in _meta_keys(item, dkey) if k not in metakeys)
    keys = list(brow.keys())
    got = [k for k in keys if k != 'index']
    if len(set(got)) != len(got) or set(got) != set(metakeys):
        probs.append(('keys', f'keys {sorted(got)} instead of {sorted(metakeys)}'))
    if count and 'index' not in keys:
        probs.append(('keys', "documented 'index' key missing from keys()"))
    for key in dict.fromkeys(KEYS + [ABSENT, dkey, 'index']):
        if key == 'index':
            exp_vals, exp_in = list(range(count)), count > 0
        elif key in metakeys:
            exp_vals, exp_in = _groups([it[key] for it in exp_items if key in it]), True
        else:
            exp_vals, exp_in = [], False
        if (key in brow) != exp_in:
            probs.append(('contains', f'{key!r} in browser is {key in brow}, expected {exp_in}'))
        vals = list(brow.available_values(key))
        if not _same_values(vals, exp_vals):
            probs.append(('available_values', f'available_values({key!r}) = {vals!r}, expected {exp_vals!r}'))
    return probs


def _snap(brow):
    keys = brow.keys()
    return freeze((brow.content, brow.data_key, brow.globals, len(brow), keys,
                   [brow.available_values(k) for k in keys]))


def _c17(fail):
    fail.signature = 'C17/' + fail.signature
    return fail


# --------------------------------------------------------------------------
# interpretation of a history

def _pos(idx, pool):
    """Pool position of operand ``idx``: non-empty browsers first, most recent first."""
    order = sorted(range(len(pool)), key=lambda p: (not pool[p]['items'], -p))
    return order[idx % len(order)]


def _mk_item(spec, dkey):
    item = {}
    if spec['first']:
        item[dkey] = spec['data']
    for key, val in spec['meta'].items():
        if key != dkey and key not in RESERVED:
            item[key] = _fresh(val)
    item[dkey] = spec['data']
    return item


def _resolve(opn, entry):
    """Keyword arguments, include and exclude tuples of a query on pool entry ``entry``."""
    items, dkey = entry['items'], entry['dkey']
    pool = [k for k in KEYS if k != dkey] + [ABSENT, 'index', dkey]
    refpos = opn['ref'] % len(items) if items else None
    refitem = items[refpos] if items else {}
    refkeys = sorted(_meta_keys(refitem, dkey))
    kwargs = {}
    for spec in opn['kw']:
        mode, kidx, lit = spec['mode'], spec['k'], _fresh(spec['lit'])
        if isinstance(kidx, str):
            key, val = kidx, lit
        elif mode == 'index':
            key, val = 'index', (refpos if refpos is not None else lit)
        elif mode in ('ref', 'refkey') and refkeys:
            key = refkeys[kidx % len(refkeys)]
            val = refitem[key] if mode == 'ref' else lit
        else:
            key, val = pool[kidx % len(pool)], lit
        kwargs[key] = val
    sides = []
    for name in ('inc', 'exc'):
        keys = []
        for spec in opn[name]:
            kidx = spec['k']
            if isinstance(kidx, str):
                key = kidx
            elif spec['mode'] == 'ref' and refkeys:
                key = refkeys[kidx % len(refkeys)]
            else:
                key = pool[kidx % (len(pool) - 1)]      # never the data key
            if key not in keys:
                keys.append(key)
        sides.append(tuple(keys))
    return kwargs, sides[0], sides[1]


def _match_class(items, dkey, key, val):
    """hit / cross (equal value of another type) / miss, for the bucket of a one-keyword query."""
    if key == 'index':
        cands = [pos for pos in range(len(items)) if same(pos, val)]
        return 'miss' if not cands else ('hit' if type(val) is int else 'cross')
    cands = [it[key] for it in items if key != dkey and key in it and same(it[key], val)]
    if not cands:
        return 'miss'
    return 'cross' if any(type(c) is not type(val) for c in cands) else 'hit'


def _try_filter(brow, entry, kwargs, include, exclude):
    """True when filter_by(...) returns the content the scan selects (used to localise a failure)."""
    exp = [entry['items'][p] for p in scan(entry['items'], entry['dkey'], kwargs, include, exclude)]
    try:
        sub = brow.filter_by(include=include, exclude=exclude, **kwargs)
        return _content_problem(sub, exp, entry['dkey']) is None
    except Exception:  # pylint: disable=broad-except  # localisation only, the failure is already recorded
        return False


def _smallest_failing_part(brow, entry, kwargs, include, exclude):
    """Root-cause feature of a wrong selection: the simplest sub-query that is already wrong."""
    if not _try_filter(brow, entry, {}, (), ()):
        return 'part=noargs'
    for key, val in kwargs.items():
        if not _try_filter(brow, entry, {key: val}, (), ()):
            return 'part=kw1/match=' + _match_class(entry['items'], entry['dkey'], key, val)
    if len(kwargs) > 1 and not _try_filter(brow, entry, kwargs, (), ()):
        return 'part=kwN'
    if include and not _try_filter(brow, entry, {}, include, ()):
        return 'part=include'
    if exclude and not _try_filter(brow, entry, {}, (), exclude):
        return 'part=exclude'
    return 'part=combo'


def _query_labels(labels, entry, kwargs, include, exclude, sel):
    items, dkey = entry['items'], entry['dkey']
    count = len(items)
    if not count:
        labels.add('q-on-empty-browser')
    if 0 < len(sel) < count:
        labels.add('q-strict-subset')
        if dkey != 'results' or entry['origin'] != 'root':
            labels.add('nt')
    elif not sel:
        labels.add('q-empty-result')
    else:
        labels.add('q-full-result')
    if dkey != 'results':
        labels.add('q-nondefault-dkey')
    if entry['origin'] != 'root':
        labels.add('q-derived')
    if include:
        labels.add('q-include')
    if exclude:
        labels.add('q-exclude')
    if len(kwargs) > 1:
        labels.add('q-multi-kw')
    for key, val in kwargs.items():
        if key == 'index':
            labels.add('q-index')
            continue
        if key == dkey:
            labels.add('q-kw-is-data-key')
        if not any(key != dkey and key in it for it in items):
            labels.add('q-absent-key')
        elif not any(key in it and same(it[key], val) for it in items):
            labels.add('q-absent-value')
        if any(key != dkey and key in items[p] and type(items[p][key]) is not type(val) for p in sel):
            labels.add('q-cross-type-hit')
        if isinstance(val, float) and val != val and sel:
            labels.add('q-nan-identity-hit')


def run_case(case):
    """Interpret the history.  The *model* pool (item lists, data keys, globals) evolves as it would
    with a correct implementation, so the labels, the non-triviality verdict and the meaning of the
    pool positions are functions of the case alone; a pool entry whose real browser could not be
    obtained or failed one of its checks has ``br=None`` and operations on it are skipped (counted in
    ``excluded``), which keeps one defect from cascading into other buckets."""
    out = Outcome()
    fails = out.failures
    labels = set()
    pool = []          # dict(br (None when not usable), items, dkey, globs, origin, snap)
    inputs = []        # objects handed to the code under test: [what, object, frozen image]

    def unchanged(opname, operands):
        """Inputs and every pre-existing browser must look exactly as before the step."""
        for rec in inputs:
            if freeze(rec[1]) != rec[2]:
                fails.append(Failure('input_unchanged', f'C17/input_modified/{rec[0]}/op={opname}',
                                     f'{rec[0]} is now {rec[1]!r}'[:400]))
                rec[2] = freeze(rec[1])
        for pos, ent in enumerate(pool):
            if ent['br'] is None or ent['snap'] is None:
                continue
            try:
                now = _snap(ent['br'])
            except Exception as exc:  # pylint: disable=broad-except
                fails.append(_c17(exc_failure('observe_raises', exc, f'after={opname}')))
                ent['br'] = None
                continue
            if now != ent['snap']:
                role = 'operand' if pos in operands else 'other'
                fails.append(Failure('browser_unchanged', f'C17/browser_modified/op={opname}/role={role}',
                                     f'browser #{pos} ({ent["origin"]}) changed during {opname}'))
                ent['snap'] = now

    def admit(brow, items, dkey, globs, origin, why=None):
        """Add the model of a new browser to the pool; the real browser ``brow`` is observed
        completely and kept only when everything is right (``why``: already known to be wrong)."""
        entry = {'br': None, 'items': items, 'dkey': dkey, 'globs': globs, 'origin': origin, 'snap': None}
        pool.append(entry)
        if brow is None or why:
            return
        good = True
        try:
            if _globals_image(brow.globals) != _globals_image(globs):
                fails.append(Failure(f'{origin}_globals', f'C17/{origin}_globals',
                                     f'globals {brow.globals!r} instead of {globs!r}'))
                good = False
            for clause, detail in _observe(brow, items, dkey):
                fails.append(Failure(clause, f'C17/{clause}/origin={origin}', detail))
                good = False
            if good:
                entry['snap'] = _snap(brow)
                entry['br'] = brow
        except Exception as exc:  # pylint: disable=broad-except  # observers never raise on a browser
            fails.append(_c17(exc_failure('observe_raises', exc, f'origin={origin}')))

    def skipped():
        out.excluded += 1
        labels.add('op-skipped-after-failure')

    # ---- roots
    for root in case['roots']:
        dkey = root['dkey']
        items = [_mk_item(spec, dkey) for spec in root['items']]      # the model keeps these
        given = [dict(item) for item in items]                        # the browser gets these
        glob = root['glob']
        globs = dict(glob) if glob is not None else {}
        inputs.append(['input-list', given, freeze(given)])
        if glob is not None:
            inputs.append(['input-globals', glob, freeze(glob)])
        if any(not _hashable(it[dkey]) for it in items):
            labels.add('data-unhashable')
        if dkey != 'results':
            labels.add('root-nondefault-dkey')
        brow, why = None, None
        try:
            if dkey == 'results' and not root['explicit']:
                brow = Browser(given, global_vars=glob)
            else:
                brow = Browser(given, data_key=dkey, global_vars=glob)
        except Exception as exc:  # pylint: disable=broad-except  # construction from a valid list must work
            fails.append(_c17(exc_failure('construct_raises', exc,
                                          'datakey=' + ('default' if dkey == 'results' else 'other'))))
        if brow is not None:
            if brow.data_key != dkey:
                why = f'data_key {brow.data_key!r} instead of {dkey!r}'
            else:
                why = _content_problem(brow, items, dkey)
            if why:
                fails.append(Failure('construct_content', 'C17/construct_content', why))
        admit(brow, items, dkey, globs, 'root', why)
        unchanged('construct', ())

    # ---- operations
    for opn in case['ops']:
        if opn['op'] == 'merge':
            apos, bpos = _pos(opn['a'], pool), _pos(opn['b'], pool)
            left, right = pool[apos], pool[bpos]
            live = left['br'] is not None and right['br'] is not None
            if apos == bpos:
                labels.add('merge-self')
            if left['dkey'] != right['dkey']:
                labels.add('merge-dkey-mismatch')
                if not live:
                    skipped()
                    continue
                try:
                    left['br'].merge(right['br'])
                    fails.append(Failure('merge_datakey', 'C17/merge_datakey_mismatch_accepted',
                                         f'merge of data keys {left["dkey"]!r} and {right["dkey"]!r} '
                                         'did not raise ValueError'))
                except ValueError:
                    pass
                except Exception as exc:  # pylint: disable=broad-except
                    fails.append(_c17(exc_failure('merge_raises', exc, 'datakey=different')))
            else:
                labels.add('merge-ok')
                if left['items'] and right['items']:
                    labels.add('merge-both-nonempty')
                items = left['items'] + right['items']
                globs = dict(left['globs'])
                globs.update(right['globs'])
                merged, why = None, None
                if not live:
                    skipped()
                else:
                    try:
                        merged = left['br'].merge(right['br'])
                    except Exception as exc:  # pylint: disable=broad-except
                        fails.append(_c17(exc_failure('merge_raises', exc, 'datakey=same')))
                if merged is not None:
                    if not isinstance(merged, Browser):
                        why = f'merge returned a {type(merged).__name__}'
                        fails.append(Failure('merge_type', 'C17/merge_type', why))
                    elif merged.data_key != left['dkey']:
                        why = f'data_key {merged.data_key!r} instead of {left["dkey"]!r}'
                        fails.append(Failure('merge_data_key', 'C17/merge_data_key', why))
                    else:
                        why = _content_problem(merged, items, left['dkey'])
                        if why:
                            fails.append(Failure('merge_content', 'C17/merge_content',
                                                 f'merge of {len(left["items"])} and '
                                                 f'{len(right["items"])} items: {why}'))
                admit(merged, items, left['dkey'], globs, 'merge', why)
            unchanged('merge', (apos, bpos))
            continue

        bpos = _pos(opn['b'], pool)
        entry = pool[bpos]
        brow, items, dkey = entry['br'], entry['items'], entry['dkey']
        kwargs, include, exclude = _resolve(opn, entry)
        sel = scan(items, dkey, kwargs, include, exclude)
        exp = [items[p] for p in sel]
        _query_labels(labels, entry, kwargs, include, exclude, sel)
        dfeat = 'datakey=' + ('default' if dkey == 'results' else 'other')
        query = f'{opn["op"]}(include={include!r}, exclude={exclude!r}, **{kwargs!r}) on {len(items)} items'

        if opn['op'] == 'filter':
            labels.add('filter')
            sub, why = None, None
            if brow is None:
                skipped()
            else:
                try:
                    sub = brow.filter_by(include=include, exclude=exclude, **kwargs)
                except Exception as exc:  # pylint: disable=broad-except  # never raises for a valid query
                    tname, where = valjean_frame(exc)
                    if dkey != 'results' and tname == 'TypeError' and where.endswith(':_build_index'):
                        # the sub-browser is rebuilt with another data key: same root cause (and same
                        # bucket) as a result that reports the wrong data_key
                        fails.append(Failure('filter_data_key', f'C17/filter_data_key/{dfeat}',
                                             f'{query}: rebuilding the sub-browser raised {tname}: {exc}'))
                    else:
                        fails.append(_c17(exc_failure('filter_raises', exc, dfeat)))
            if sub is not None:
                if not isinstance(sub, Browser):
                    why = f'{query} returned a {type(sub).__name__}'
                    fails.append(Failure('filter_type', 'C17/filter_type', why))
                elif sub.data_key != dkey:
                    why = f'{query}: data_key {sub.data_key!r} instead of {dkey!r}'
                    fails.append(Failure('filter_data_key', f'C17/filter_data_key/{dfeat}', why))
                else:
                    why = _content_problem(sub, exp, dkey)
                    if why:
                        part = _smallest_failing_part(brow, entry, kwargs, include, exclude)
                        fails.append(Failure('filter_content', f'C17/filter_content/{part}',
                                             f'{query}: {why} (expected positions {sel})'))
            admit(sub, exp, dkey, dict(entry['globs']), 'filter', why)
            unchanged('filter', (bpos,))
        else:
            labels.add('select')
            want = 'none' if not sel else ('one' if len(sel) == 1 else 'many')
            labels.add('sel-' + want)
            if brow is None:
                skipped()
                continue
            got, seen = None, None
            try:
                got = brow.select_by(include=include, exclude=exclude, **kwargs)
                seen = 'item'
            except NoItemBrowserError:
                seen = 'none'
            except TooManyItemsBrowserError:
                seen = 'many'
            except Exception as exc:  # pylint: disable=broad-except  # only the two documented errors are allowed
                fails.append(_c17(exc_failure('select_raises', exc, f'expect={want}/{dfeat}')))
            if seen is not None:
                if want != 'one':
                    if seen != want:
                        fails.append(Failure('select_error', f'C17/select/expect={want}/got={seen}',
                                             f'{query}: {len(sel)} items match, got {seen}'))
                elif seen != 'item':
                    fails.append(Failure('select_error', f'C17/select/expect=one/got={seen}',
                                         f'{query}: exactly item {sel[0]} matches, got the error for {seen}'))
                else:
                    why = _item_problem(got, exp[0], dkey, sel[0])
                    if why is None and got.get('index') != sel[0]:
                        why = f"'index' of the selected item is {got.get('index')!r}, position {sel[0]}"
                    if why:
                        fails.append(Failure('select_item', 'C17/select/expect=one/got=wrong-item',
                                             f'{query}: {why}'))
            unchanged('select', (bpos,))

    out.nontrivial = 'nt' in labels
    out.labels = sorted(labels)
    out.info = {'ops': len(case['ops']), 'browsers': len(pool),
                'usable_browsers': sum(1 for e in pool if e['br'] is not None),
                'sizes': [len(e['items']) for e in pool]}
    return out


KNOWN_PREDICATES = {
    # the history uses at least one input list with a data key other than the default 'results'
    'nondefault_data_key': lambda case, failure: any(r['dkey'] != 'results' for r in case['roots']),
}

MANIFEST = {
    'text': ('Generated search (Hypothesis) over histories: 1-3 item lists with colliding hashable metadata '
             "(1 / 1.0 / True, NaN, tuples, frozensets, None), data key 'results' or not, unhashable data, "
             'then chains of filter_by / select_by / merge on a pool of live browsers, each shadowed by a '
             'plain list; oracle = naive scan of that list (never the inverted index), full observation '
             'of every result (content, data_key, globals, len, keys, in, available_values) and '
             'snapshots of all inputs and all other live browsers after every step. One fixed list x all '
             'single-keyword queries x include/exclude is enumerated completely. Exploration, not proof.'),
    'note': ("Keys named 'index' / 'include' / 'exclude' / 'self' and include/exclude on the data key are "
             "outside the domain; the 'index' bookkeeping key is taken as documented (position in the "
             'browser); key order of keys()/available_values() is not asserted.'),
    'technique': 'property-based testing (Hypothesis) of operation histories against a reference model '
                 '+ exhaustive enumeration of single queries on a fixed list',
    'design_ref': 'DESIGN.md section 3, C17',
}
