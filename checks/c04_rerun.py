"""C04 -- re-running a job re-executes exactly the tasks whose results are out
of date (histories of runs with persisted environments)."""
import copy
import os
import shutil
import tempfile

from hypothesis import strategies as st

from valjean.cosette.task import Task, TaskStatus
from valjean.cosette.depgraph import DepGraph
from valjean.cosette.scheduler import Scheduler
from valjean.cosette.env import Env as RealEnv
from valjean.cambronne.common import read_env, write_env

from vlib.core import Failure, Outcome
from vlib import schedcase as sc, vsched

ID = 'C04'
LEVEL = 'exploration'
RULE = ('case = history over a hard/soft/both DAG of 2-6 probe tasks: steps run(workers, schedule) | '
        'fail(task, by raising or by FAILED) | recover(task) | lose_env(task) (delete its persisted '
        'file) | add_task; every run does read_env -> Scheduler.schedule (real back-end under the '
        'controlled scheduler, logical clock continuing across runs) -> write_env exactly as '
        'RunCommand.execute does, with real files in a temporary output root. Oracle after every run: '
        '(a) every DONE task started after each of its DONE dependencies ended and has no FAILED/SKIPPED '
        'hard dependency; (b) a task that was DONE and up to date together with all its transitive '
        'dependencies, none of which was executed in this run, is executed 0 times and its entry is '
        'deep-equal to the pre-run snapshot. non-trivial = >=2 runs and a run in which a task with a '
        'DONE dependent is re-executed; distinct = structural hash of the history')
ASSUMPTIONS = ['environments are carried over the documented way: only DONE entries of tasks with an output '
               'directory are merged by read_env',
               'task outcomes: done / FAILED / raise (malformed returns belong to C02/C03)',
               'logical clock (non-decreasing integers; in a third of the cases a generated pattern makes it stutter like a coarse timer) makes clock comparisons exact']
BUDGET = {'quick': {'cases': 12000, 'shards': 16, 'seconds': 150, 'shrink_s': 40},
          'thorough': {'cases': 150000, 'shards': 16, 'seconds': 1500, 'shrink_s': 120}}
FLOORS = {'nontrivial': 0.15, 'lose': 0.5, 'multi-run': 0.7}


class Probe(Task):
    def __init__(self, name, state, root):
        super().__init__(name)
        self.state = state       # history-global: outcomes, versions
        self.root = root
        self.hard, self.soft = [], []
        self.executions = 0

    def do(self, env, config):
        ctrl = vsched.CTRL
        ctrl.sched_point('probe.start')
        self.executions += 1
        self.state['versions'][self.name] = self.state['versions'].get(self.name, 0) + 1
        version = self.state['versions'][self.name]
        outdir = os.path.join(self.root, self.name)
        os.makedirs(outdir, exist_ok=True)
        ctrl.sched_point('probe.end')
        kind = self.state['outcomes'][self.name]
        update = {self.name: {'payload': {'a': version, 'nested': {'b': version}},
                              'version': version, 'output_dir': outdir}}
        if kind == 'done':
            return update, TaskStatus.DONE
        if kind == 'failed':
            return update, TaskStatus.FAILED
        raise sc.ProbeError(self.name)


@st.composite
def _case(draw):
    n, edges = draw(sc.graphs(max_tasks=6, min_tasks=2))
    active0 = draw(st.integers(max(1, n - 2), n))
    steps = []
    nsteps = draw(st.integers(2, 9))
    for _ in range(nsteps):
        kind = draw(st.sampled_from(['run', 'run', 'run', 'lose', 'lose', 'fail', 'recover', 'add']))
        if kind == 'run':
            sched = draw(st.one_of(st.just(('choices', [])), sc.schedules(max_len=60)))
            steps.append({'op': 'run', 'workers': draw(st.sampled_from([1, 1, 2, 3])), 'sched': sched})
        elif kind == 'fail':
            steps.append({'op': 'fail', 'i': draw(st.integers(0, n - 1)),
                          'how': draw(st.sampled_from(['raise', 'failed']))})
        elif kind in ('recover', 'lose'):
            steps.append({'op': kind, 'i': draw(st.integers(0, n - 1))})
        else:
            steps.append({'op': 'add'})
    steps.insert(0, {'op': 'run', 'workers': draw(st.sampled_from([1, 2])), 'sched': ('choices', [])})
    steps.append({'op': 'run', 'workers': draw(st.sampled_from([1, 2, 3])),
                  'sched': draw(st.one_of(st.just(('choices', [])), sc.schedules(max_len=60)))})
    case = {'n': n, 'edges': edges, 'active0': active0, 'steps': steps}
    if draw(st.integers(0, 1)) == 0:
        case['order'] = draw(st.permutations(list(range(n))))
    if draw(st.integers(0, 3)) == 0:
        # the tasks join the job in this order: a newly added task may be a dependency of an
        # existing one
        case['activation'] = draw(st.permutations(list(range(n))))
    if draw(st.integers(0, 3)) == 0:
        case['persistent'] = True
    if draw(st.integers(0, 2)) == 0:
        # a coarse clock: consecutive time() calls may return the same value
        case['ticks'] = draw(st.lists(st.sampled_from([0, 0, 1]), min_size=1, max_size=12))
    return case


def strategy(tier):
    return _case()


WORKER_FIRST = ('pct', [0, 9, 8, 7, 6], [])     # a queued task completes before the master goes on
SHAPES3 = {
    'chain-hh': [(1, 0, 'h'), (2, 1, 'h')], 'chain-sh': [(1, 0, 's'), (2, 1, 'h')],
    'chain-hs': [(1, 0, 'h'), (2, 1, 's')], 'chain-ss': [(1, 0, 's'), (2, 1, 's')],
    'fork': [(1, 0, 'h'), (2, 0, 's')], 'join': [(2, 0, 'h'), (2, 1, 's')],
    'triangle': [(1, 0, 'h'), (2, 0, 's'), (2, 1, 'h')],
}


def enumerations(tier):
    """Small deterministic histories over every 3-task shape: run; lose any non-empty
    subset of the persisted files, optionally break one task; run again (every insertion
    order of the tasks in thorough, three of them in quick; master-first and worker-first
    schedule, 1 or 2 workers); recover; run.  Plus all schedules of the second run with
    <= 1 pre-emption for two chains on one worker (quick) / for all shapes on 1 and 2
    workers, and <= 2 pre-emptions for two chains on one worker (thorough)."""
    import itertools
    run = {'op': 'run', 'workers': 1, 'sched': ('choices', [])}

    def mids():
        for lost in itertools.product([0, 1], repeat=3):
            if not any(lost):
                continue
            loses = [{'op': 'lose', 'i': i} for i in range(3) if lost[i]]
            yield loses, None
            for i in range(3):
                for how in (('raise', 'failed') if tier == 'thorough' else ('raise',)):
                    yield loses + [{'op': 'fail', 'i': i, 'how': how}], i

    def gen():
        seconds = [run, {'op': 'run', 'workers': 2, 'sched': ('choices', [])},
                   {'op': 'run', 'workers': 1, 'sched': WORKER_FIRST},
                   {'op': 'run', 'workers': 2, 'sched': WORKER_FIRST}]
        for _name, edges in SHAPES3.items():
            for mid, broken in mids():
                tail = [{'op': 'recover', 'i': broken}, run] if broken is not None else [run]
                for order in (itertools.permutations(range(3)) if tier == 'thorough'
                              else ((0, 1, 2), (2, 1, 0), (2, 0, 1))):
                    for second in seconds:
                        yield {'n': 3, 'edges': edges, 'active0': 3, 'order': list(order),
                               'steps': [run] + mid + [second] + tail}

    def gen_dfs():
        if tier != 'thorough':
            plan = [(['chain-hh', 'chain-sh'], 1, (1,), 3)]
        else:
            # all shapes with <= 1 pre-emption; two chains with <= 2 (a P=2 enumeration of one
            # configuration is ~10^4 schedules of two runs each)
            plan = [(list(SHAPES3), 1, (1, 2), 9), (['chain-hh', 'chain-sh'], 2, (1,), 2)]
        for names, bound, workers_set, maxmid in plan:
            for name in names:
                for mid, broken in mids():
                    if len(mid) > maxmid:
                        continue
                    for workers in workers_set:
                        second = {'op': 'run', 'workers': workers, 'sched': ('dfs', bound)}
                        yield {'n': 3, 'edges': SHAPES3[name], 'active0': 3,
                               'steps': [run] + mid + [second]}
    return [('three-task-histories', gen, True), ('three-task-second-run-all-schedules', gen_dfs, True)]


def _transitive(deps, i, memo):
    if i in memo:
        return memo[i]
    acc = set()
    for d in deps[i]:
        acc.add(d)
        acc |= _transitive(deps, d, memo)
    memo[i] = acc
    return acc


def _status_name(section):
    if not isinstance(section, dict):
        return None
    status = section.get('status')
    return status.name if isinstance(status, TaskStatus) else repr(status)


def _alive(case, active):
    """Indices of the tasks that are part of the job when ``active`` of them exist: by default
    t0 .. t(active-1); with ``case['activation']`` (a permutation) the tasks join the job in that
    order, so that a task added later can be a DEPENDENCY of one that is already there."""
    order = case.get('activation') or list(range(case['n']))
    return sorted(order[:active])


def _run(case, active, state, root, step, clock):
    """One run: read_env -> schedule -> write_env.  Returns dict of observations."""
    envmod, qmod = vsched.modules()
    hard, soft = sc.deps_of(case)
    alive = _alive(case, active)
    persistent = state.setdefault('objects', {}) if case.get('persistent') else {}
    tasks = {}
    for i in alive:
        name = f't{i}'
        if name not in persistent:
            persistent[name] = Probe(name, state, root)
        tasks[i] = persistent[name]
        tasks[i].executions = 0
    for i, task in tasks.items():
        task.hard = [tasks[j] for j in sorted(hard[i]) if j in tasks]
        task.soft = [tasks[j] for j in sorted(soft[i]) if j in tasks]
        task.depends_on.clear()
        task.soft_depends_on.clear()
        task.depends_on.update(task.hard)
        task.soft_depends_on.update(task.soft)
    hgraph, sgraph = DepGraph(), DepGraph()
    order = [i for i in (case.get('order') or ()) if i in tasks]
    order += [i for i in alive if i not in order]
    for task in [tasks[i] for i in order]:     # as cambronne.common.build_graphs (job order is free)
        hgraph.add_node(task)
        sgraph.add_node(task)
        for dep in task.depends_on:
            hgraph.add_dependency(task, on=dep)
        for dep in task.soft_depends_on:
            sgraph.add_dependency(task, on=dep)
    real_env = read_env(root=root, names=[t.name for t in hgraph.nodes()], filename='valjean.env',
                        fmt='pickle')
    before = copy.deepcopy(real_env.dictionary)
    venv = envmod.Env()
    venv.dictionary = real_env.dictionary

    def body():
        if case.get('persistent'):
            # one process that keeps its task and back-end objects from run to run (an API user;
            # ``valjean run`` starts afresh each time)
            key = ('$backend', step['workers'])
            if key not in persistent:
                persistent[key] = qmod.QueueScheduling(step['workers'])
            backend = persistent[key]
        else:
            backend = qmod.QueueScheduling(step['workers'])
        sched = Scheduler(hard_graph=hgraph, soft_graph=sgraph, backend=backend)
        return sched.schedule(env=venv)

    ctrl, how, value = vsched.run_controlled(sc.make_schedule(step['sched']), body,
                                             clock_start=clock, ticks=case.get('ticks'))
    obs = {'how': how, 'value': value, 'verdict': ctrl.verdict, 'clock': ctrl.clock,
           'before': before, 'after': None, 'decisions': ctrl.decisions,
           'executions': {i: t.executions for i, t in tasks.items()}}
    if how == 'returned':
        out_env = RealEnv()
        out_env.dictionary = venv.dictionary
        obs['after'] = copy.deepcopy(venv.dictionary)
        write_env(out_env, filename='valjean.env', fmt='pickle')
    return obs


def _judge_run(case, active, obs, runno, fails):
    hard, soft = sc.deps_of(case)
    alive = _alive(case, active)
    full = {i: {d for d in hard[i] | soft[i] if d in alive} for i in alive}
    before, after, execs = obs['before'], obs['after'], obs['executions']

    def kind(i, d):
        return 'b' if d in hard[i] and d in soft[i] else 'h' if d in hard[i] else 's'

    # (a) no stale DONE
    for i in alive:
        sec = after.get(f't{i}')
        if _status_name(sec) != 'DONE':
            continue
        for d in sorted(full[i]):
            dsec = after.get(f't{d}')
            dst = _status_name(dsec)
            if dst == 'DONE':
                d_end, t_start = dsec.get('end_clock'), sec.get('start_clock')
                if d_end is None or t_start is None or not d_end <= t_start:
                    redone = 'dep-reexecuted' if execs[d] else 'dep-not-executed'
                    fails.append(Failure(
                        'no_stale_done', f'C04/stale_done/edge={kind(i, d)}/{redone}',
                        f'run {runno}: t{i} is DONE with start_clock {t_start} but its DONE dependency '
                        f't{d} ended at {d_end} (t{i} executed {execs[i]}x, t{d} executed {execs[d]}x '
                        f'in this run)'))
            elif d in hard[i] and dst in ('FAILED', 'SKIPPED'):
                fails.append(Failure(
                    'no_done_on_failed_dep', f'C04/done_with_{dst.lower()}_hard_dep',
                    f'run {runno}: t{i} is DONE although its hard dependency t{d} is {dst}'))
    # (b) no needless re-execution
    memo = {}

    def consistent(i):
        sec = before.get(f't{i}')
        if _status_name(sec) != 'DONE':
            return False
        for d in full[i]:
            dsec = before.get(f't{d}')
            if _status_name(dsec) != 'DONE':
                return False
            d_end, t_start = dsec.get('end_clock'), sec.get('start_clock')
            if d_end is None or t_start is None or not d_end <= t_start:
                return False
        return True
    for i in alive:
        trans = _transitive(full, i, memo)
        if not (consistent(i) and all(consistent(d) for d in trans)):
            continue
        if any(execs[d] for d in trans):
            continue
        if execs[i]:
            fails.append(Failure('no_needless_rerun', 'C04/needless_rerun',
                                 f'run {runno}: t{i} was DONE and up to date with all its transitive '
                                 f'dependencies, none of them ran, yet it was executed {execs[i]}x'))
        elif after.get(f't{i}') != before.get(f't{i}'):
            fails.append(Failure('results_untouched', 'C04/entry_modified',
                                 f'run {runno}: entry of up-to-date t{i} changed from '
                                 f'{before.get(f"t{i}")} to {after.get(f"t{i}")}'))


def _history(case, out, dfs_choices=None):
    """Interpret one history.  ``dfs_choices``: schedule substituted for the step whose
    schedule is ('dfs', P); returns (runs, chain_rerun, ops, decisions of that step)."""
    root = tempfile.mkdtemp(prefix='vv-c04-', dir='/dev/shm' if os.path.isdir('/dev/shm') else '/var/tmp')
    decisions = None
    try:
        state = {'outcomes': {f't{i}': 'done' for i in range(case['n'])}, 'versions': {}}
        active = case['active0']
        clock = 0
        runs = 0
        hard, soft = sc.deps_of(case)
        chain_rerun = False
        done_prev = set()
        ops = set()
        for step in case['steps']:
            ops.add(step['op'])
            if step['op'] == 'run':
                is_dfs = step['sched'][0] == 'dfs'
                if is_dfs:
                    step = dict(step, sched=('choices', list(dfs_choices or [])))
                obs = _run(case, active, state, root, step, clock)
                if is_dfs:
                    decisions = obs['decisions']
                clock = obs['clock'] + 1
                runs += 1
                if obs['how'] != 'returned':
                    out.labels.append('run-did-not-return')      # judged by C03
                    break
                _judge_run(case, active, obs, runs, out.failures)
                alive = _alive(case, active)
                for i in alive:
                    if obs['executions'][i] and runs >= 2 and i in done_prev:
                        deps_on_i = [k for k in alive if i in (hard[k] | soft[k])]
                        if any(_status_name(obs['before'].get(f't{k}')) == 'DONE' for k in deps_on_i):
                            chain_rerun = True
                done_prev = {i for i in alive
                             if _status_name(obs['after'].get(f't{i}')) == 'DONE'}
            elif step['op'] == 'fail':
                state['outcomes'][f't{step["i"] % case["n"]}'] = step['how']
            elif step['op'] == 'recover':
                state['outcomes'][f't{step["i"] % case["n"]}'] = 'done'
            elif step['op'] == 'lose':
                path = os.path.join(root, f't{step["i"] % case["n"]}', 'valjean.env')
                if os.path.exists(path):
                    os.remove(path)
                    out.labels.append('lost-existing-file')
            elif step['op'] == 'add':
                active = min(case['n'], active + 1)
    finally:
        shutil.rmtree(root, ignore_errors=True)
    return runs, chain_rerun, ops, decisions


def run_case(case):
    out = Outcome()
    dfs_steps = [k for k, st_ in enumerate(case['steps'])
                 if st_['op'] == 'run' and st_['sched'][0] == 'dfs']
    if dfs_steps:
        bound = case['steps'][dfs_steps[0]]['sched'][1]
        seen_sigs = set()
        keys = set()

        def run(choices, structure_only=False):
            sub = Outcome()
            runs, chain, _ops, decisions = _history(case, sub, dfs_choices=choices)
            if not structure_only:
                for fail in sub.failures:
                    if fail.signature not in seen_sigs:
                        seen_sigs.add(fail.signature)
                        steps = [dict(st_, sched=('choices', list(choices))) if k == dfs_steps[0] else st_
                                 for k, st_ in enumerate(case['steps'])]
                        fail.case = dict(case, steps=steps)
                        out.failures.append(fail)
                if chain:
                    keys.add(repr(choices))
            return decisions or []
        count = 0
        for _ in vsched.dfs_schedules(run, bound):
            count += 1
        out.evals = count
        out.extra_keys = sorted(jsonio_digest((case['edges'], case['steps'], k)) for k in keys)
        out.nontrivial = bool(keys)
        out.labels.append(f'dfs-P{bound}')
        out.info = {'schedules': count}
        return out
    runs, chain_rerun, ops, _dec = _history(case, out)
    out.labels.extend(sorted(ops - {'run'}))
    if case.get('ticks'):
        out.labels.append('coarse-clock')
    if case.get('order'):
        out.labels.append('insertion-order-permuted')
    if case.get('activation'):
        out.labels.append('tasks-join-in-generated-order')
    if case.get('persistent'):
        out.labels.append('objects-kept-between-runs')
    if runs >= 2:
        out.labels.append('multi-run')
    if runs >= 2 and chain_rerun:
        out.nontrivial = True
        out.labels.append('nontrivial')
    out.evals = max(1, runs)
    return out


def jsonio_digest(obj):
    from vlib import jsonio
    return jsonio.digest(obj)


MANIFEST = {
    'text': ('Insertion order of the tasks is generated; 3-task histories (lose any subset of files, break one '
             'task) are enumerated over insertion orders x {master-first, worker-first} x {1, 2 workers}, and '
             'all schedules of the second run with <= 1 (quick) / <= 2 (thorough, two chains) pre-emptions. '
             'Model-based generation of run histories (run / fail / recover / lose persisted file / add task) '
             'executed through the real read_env -> Scheduler.schedule -> write_env sequence with real files, '
             'the back-end running under the controlled scheduler with a logical clock; after every run the '
             'clock/status invariant (a) and the no-needless-re-execution clause (b) are evaluated against '
             'snapshots and per-run execution counters; all 3-task shapes x single lost/failed task are '
             'enumerated. Exploration, not proof.'),
    'note': ('Trusts vlib/vsched.py primitives and pickle; histories are bounded (<= 11 steps, <= 6 tasks).'),
    'technique': 'stateful property-based testing (generated run histories interpreted against invariants), controlled scheduler',
    'design_ref': 'DESIGN.md sections 2 and 3 (C04)',
}
