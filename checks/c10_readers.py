"""C10 -- numbers read from Tripoli-4 listings and Apollo3 HDF5 files are the
numbers written there.

Tripoli-4 half: a compact generated case is expanded by ``vlib.t4emit`` into an
explicit ground truth (every printed number kept as the printed token) and a
listing text assembled from the layouts of the shipped listings; the listing is
parsed edition by edition (``Parser.parse_from_number`` / ``parse_from_index``)
and every dataset of every (response, scoring zone) item is compared with the
ground truth.  The oracle *sorts* the printed group boundaries; it knows
nothing about flipping.

Apollo3 half: a compact generated case is written with h5py following the
documented layout; ``vlib.ap3gen.reference_items`` (plain h5py, independent of
valjean) lists the stored results; ``Reader(...).to_browser()`` must contain
exactly those, and ``Picker.pick_*`` with the same coordinates must return the
same dataset (differential between the two access paths).

Enumerations: the shipped listings (emitter validation: re-emitting what the
parser extracted from an example parses to the same datasets) and the shipped
HDF5 files (same Apollo3 oracle).
"""
import os
import shutil
import tempfile

import numpy as np
from hypothesis import strategies as st

from valjean.eponine.tripoli4.parse import Parser
from valjean.eponine.apollo3.hdf5_reader import Reader
from valjean.eponine.apollo3.hdf5_picker import Picker
from vlib.core import Failure, Outcome, exc_failure, HarnessError
from vlib import t4emit, ap3gen

ID = 'C10'
LEVEL = 'exploration'
RULE = ('two generators. (t4) synthetic Tripoli-4 listing: 1-4 editions (increasing batch numbers, '
        'with/without the "Edition after batch number" line, each requested by number or by '
        'positive/negative index), 1-4 responses from the shipped layouts (FLUX / REACTION on nucleus '
        '/ COURANT / DEPOSITED_ENERGY headers, generic "ENERGY INTEGRATED RESULTS" responses), 1-3 '
        'scoring zones each (Volume, Volume Sum, Frontier), spectrum of 1-6 energy groups printed '
        'increasing or decreasing, optionally x 1-3 time steps printed increasing or decreasing, '
        'with/without Units line, integrated line present / absent / NOT YET CONVERGED, scores '
        'positive / negative / mixed / with zeros; all printed numbers pairwise distinct. Oracle: '
        'float(printed token), value*sigma%*0.01 within 2 ulp, sorted printed boundaries. (ap3) HDF5 '
        'file in the documented layout: 1-3 outputs with NG 1-6, totaloutput scalars/arrays/surface '
        'results (NSURF 1-3)/local values (flat with NVAL, or localvalue group), 0-4 zones with 0-3 '
        'isotopes (reactions, anisotropic results with info/nbAnisotropy 1-4), macro group with '
        'per-result info, float32/float64, default or zero error value, or a user file with local '
        'values (flat or localvalue group); oracle: independent h5py reference reader + '
        'Reader-vs-Picker differential (value, error, bins, what). Shipped '
        'listings / HDF5 files are enumerated. non-trivial: t4 = >=2 editions or a decreasing group '
        'order or a negative / zero / not-converged result; ap3 = >=2 zones and an isotope with an '
        'anisotropic result; distinct = structural hash of the case')
RULE_ADDENDA = (' Also: volumes of frontiers / volume sums listed in either order; the KEFFS blocks of the shipped listings read independently (vlib/t4keff.py); all cases of a process share one scratch path.')
RULE = RULE + RULE_ADDENDA
ASSUMPTIONS = [
    'the emitter copies prologue / batch blocks / epilogue verbatim from shipped listings and only '
    'recombines response, zone, spectrum, time-step and integrated-result layouts that occur in them '
    '(no meshes, mu/phi zones, vov, Green bands, keff, kij, IFP, perturbations, parallel listings)',
    'NOT YET CONVERGED is generated for the energy-integrated line of score blocks only (the only '
    'place where the covered layouts show it), for all time steps of a score at once',
    'error oracle: |error - value*sigma%*0.01| <= 2 ulp; values and bins are compared exactly',
    'all cases of one process write their files under the same path (scratch directory named after the '
    'process, emptied after each case): consecutive cases form the history parse / rewrite the file / '
    'parse again; a failure that depends on the previous case shows as a burst of unrelated buckets and '
    'does not reproduce from its replay file alone (replay the file twice in one process, second time '
    'after another case)',
    'Apollo3: a result of size NG is expected with shape (NG,) whatever nbAnisotropy says; a (1,)-shaped '
    'stored scalar is expected back as a scalar from the Reader (documented for KEFF-like values and '
    'asserted by the test-suite for local values)',
    'h5py is trusted as the reference reader of what is stored',
]
BUDGET = {'quick': {'cases': 4000, 'shards': 16, 'seconds': 150,
                    'shrink_s': int(os.environ.get('VERIF_SHRINK_S') or 25)},
          'thorough': {'cases': 100000, 'shards': 16, 'seconds': 780, 'shrink_s': 60}}
FLOORS = {'t4': 0.4, 'ap3': 0.25, 't4:editions>=2': 0.2, 't4:e-decreasing': 0.15,
          't4:t-steps': 0.1, 't4:t-decreasing': 0.04, 't4:negative': 0.15, 't4:zero': 0.1,
          't4:not-converged': 0.08, 't4:access-index': 0.15, 't4:no-edition-line': 0.05,
          't4:generic-response': 0.1, 'ap3:std': 0.15, 'ap3:aniso-isotope': 0.05,
          'ap3:nontrivial': 0.03, 'ap3:user': 0.03, 'ap3:local-in-total': 0.04}

T4_DATA = t4emit.DATA_DIR
AP3_DATA = '/repo/tests/eponine/apollo3/data'
TMPROOT = '/dev/shm' if os.path.isdir('/dev/shm') and os.access('/dev/shm', os.W_OK) else '/var/tmp'
SHIPPED_T4 = ['ELECTRON_PHOTON_BALANCE.d.res.ceav5', 'cylindreDecR_with_kij_on_mesh.d.res.ceav5',
              'failure_test_no_normal_completion.d.res', 'gauss_E_time_mu_phi.res.ceav5',
              'pertu_covariances.d.res.ceav5', 'pu_met_fast_001_decompose_list_small.d.res.ceav5',
              'ttsSimplePacket20.d.res.ceav5']
SHIPPED_AP3 = ['AP3F_MiniCoeur_Kinetics_MINOS.hdf', 'Hexarot_Kinetic.hdf', 'Mosteller.hdf',
               'RnR_A3C_API.hdf', 'Simplest_API.hdf', 'full_rates.hdf']


# --------------------------------------------------------------------------
# generation

def _workdir():
    """Scratch directory of this process: the SAME path for every case it runs (removed after each
    case), so that consecutive cases put different contents under one file name -- the history
    'parse, rewrite the file, parse again' that a cache keyed by path would get wrong."""
    path = os.path.join(TMPROOT, f'c10-{os.getpid()}')
    shutil.rmtree(path, ignore_errors=True)
    os.makedirs(path)
    return path


@st.composite
def _t4_zone(draw):
    return {'ztype': draw(st.sampled_from(['vol', 'vol', 'volsum', 'front'])),
            'mode': draw(st.integers(0, 3)),
            'sign': draw(st.sampled_from(['pos', 'pos', 'neg', 'mix'])),
            'zeros': draw(st.sampled_from([False, False, True])),
            'integ': draw(st.sampled_from(['yes', 'yes', 'no', 'nc'])),
            'detail': draw(st.booleans())}


@st.composite
def _t4_response(draw):
    tmpl = draw(st.sampled_from(['flux', 'flux', 'flux_photon', 'reaction', 'courant', 'deposited',
                                 'generic']))
    if tmpl == 'generic':
        return {'tmpl': 'generic', 'sign': draw(st.sampled_from(['pos', 'neg'])),
                'zeros': draw(st.sampled_from([False, False, False, True]))}
    egrid = draw(st.lists(st.integers(0, len(t4emit.ENERGY_LADDER) - 1), min_size=2, max_size=7,
                          unique=True))
    tgrid = draw(st.one_of(st.just([]), st.just([]),
                           st.lists(st.integers(0, len(t4emit.TIME_LADDER) - 1), min_size=2,
                                    max_size=4, unique=True)))
    return {'tmpl': tmpl, 'named': draw(st.booleans()), 'egrid': egrid,
            'edec': draw(st.booleans()), 'tgrid': tgrid, 'tdec': draw(st.booleans()),
            'units': draw(st.sampled_from([False, False, True])),
            'zones': draw(st.lists(_t4_zone(), min_size=1, max_size=3))}


@st.composite
def _t4_case(draw):
    editions = draw(st.lists(
        st.fixed_dictionaries({'dbatch': st.integers(1, 4), 'dtime': st.integers(0, 40),
                               'access': st.sampled_from(['number', 'number', 'index', 'negindex'])}),
        min_size=1, max_size=4))
    return {'kind': 't4', 'seed': draw(st.integers(0, 999)),
            'prologue': draw(st.sampled_from(['noaopt', 'noaopt', 'tts'])),
            'edition_line': draw(st.sampled_from([True, True, True, False])),
            'disc': draw(st.integers(0, 3)), 'init_time': draw(st.integers(0, 9)),
            'editions': editions,
            'responses': draw(st.lists(_t4_response(), min_size=1, max_size=4))}


@st.composite
def _ap3_iso(draw):
    naniso = draw(st.sampled_from([0, 0, 1, 2, 3, 4]))
    return {'name': draw(st.integers(0, len(ap3gen.ISOTOPE_NAMES) - 1)),
            'reacs': draw(st.lists(st.integers(0, 5), min_size=1, max_size=4)),
            'naniso': naniso, 'nareac': draw(st.integers(1, 2))}


@st.composite
def _ap3_zone(draw):
    macro = draw(st.one_of(st.none(), st.fixed_dictionaries({
        'reacs': st.lists(st.integers(0, 5), min_size=1, max_size=4),
        'naniso': st.sampled_from([0, 0, 1, 2, 3]), 'nareac': st.integers(1, 2),
        'info1': st.booleans()})))
    return {'flux': draw(st.sampled_from([True, True, False])),
            'isos': draw(st.lists(_ap3_iso(), min_size=0, max_size=3)), 'macro': macro}


@st.composite
def _ap3_output(draw):
    local = draw(st.sampled_from([None, None, 'flat', 'group']))
    total = {'scalars': draw(st.lists(st.integers(0, 1), max_size=2)),
             'arrays': draw(st.lists(st.integers(0, 2), max_size=3)),
             'nsurf': draw(st.sampled_from([0, 0, 0, 1, 2, 3])), 'local': local,
             'local_sizes': draw(st.lists(st.sampled_from([1, 1, 2, 5]), min_size=1, max_size=3))}
    zones = draw(st.lists(_ap3_zone(), min_size=0, max_size=4))
    return {'ng': draw(st.integers(1, 6)), 'total': total, 'zones': zones,
            'zone_names': draw(st.lists(st.integers(0, len(ap3gen.ZONE_NAMES) - 1), min_size=4,
                                        max_size=4, unique=True))}


@st.composite
def _ap3_case(draw):
    layout = draw(st.sampled_from(['std', 'std', 'std', 'std', 'user_flat', 'user_group']))
    case = {'kind': 'ap3', 'layout': layout, 'seed': draw(st.integers(0, 99)),
            'f64': draw(st.booleans()), 'comment': draw(st.booleans()),
            'err0': draw(st.sampled_from([False, False, True]))}
    if layout == 'std':
        case['outputs'] = draw(st.lists(_ap3_output(), min_size=1, max_size=3))
    else:
        case['user'] = {'sizes': draw(st.lists(st.sampled_from([1, 1, 2, 3, 7]), min_size=1,
                                               max_size=4))}
    return case


def strategy(tier):
    return st.one_of(_t4_case(), _t4_case(), _t4_case(), _ap3_case(), _ap3_case())


def enumerations(tier):
    def shipped_listings():
        for name in SHIPPED_T4:
            yield {'kind': 't4file', 'file': name}

    def shipped_hdf():
        for name in SHIPPED_AP3:
            yield {'kind': 'ap3file', 'file': name}
    def shipped_keffs():
        for name in KEFFS_LISTINGS:
            yield {'kind': 't4keffs', 'file': name}
    return [('shipped-listings-reemitted', shipped_listings, True),
            ('shipped-listings-keff-blocks', shipped_keffs, True),
            ('shipped-hdf5-files', shipped_hdf, True)]


# --------------------------------------------------------------------------
# helpers

def _same_exact(got, exp):
    got = np.asarray(got)
    exp = np.asarray(exp)
    if got.shape != exp.shape:
        return False
    if got.dtype.kind in 'fc' and exp.dtype.kind in 'fc':
        return bool(np.array_equal(got, exp, equal_nan=True))
    return bool(np.array_equal(got, exp))


def _close_2ulp(got, exp):
    got = np.asarray(got, dtype=float)
    exp = np.asarray(exp, dtype=float)
    if got.shape != exp.shape:
        return False
    both_nan = np.isnan(got) & np.isnan(exp)
    tol = 2 * np.spacing(np.abs(np.where(np.isnan(exp), 0.0, exp)))
    good = np.abs(got - exp) <= tol
    return bool(np.all(both_nan | good))


def _rel_err(val, sig):
    return np.asarray(val, dtype=float) * np.asarray(sig, dtype=float) * 0.01


def _brief(arr):
    return np.array2string(np.asarray(arr).ravel()[:8], precision=8, threshold=8)


def _zone_key(ztype, zid):
    if isinstance(zid, (list, tuple, np.ndarray)):
        return ztype, tuple(int(z) for z in zid)
    return ztype, int(zid)


# --------------------------------------------------------------------------
# Tripoli-4 oracle

def _expected_score(score):
    """Ground truth of one score block, sorted by increasing boundaries."""
    steps = score['steps']
    ebounds = sorted({float(x) for step in steps for row in step['rows'] for x in row[:2]})
    timed = steps[0]['time'] is not None
    tbounds = sorted({float(x) for step in steps for x in step['time'][1:]}) if timed else []
    nen, ntm = len(ebounds) - 1, (len(tbounds) - 1 if timed else 1)
    exp = {'ebounds': ebounds, 'tbounds': tbounds, 'timed': timed,
           'val': np.full((nen, ntm), np.nan), 'sig': np.full((nen, ntm), np.nan),
           'leth': np.full((nen, ntm), np.nan), 'integ': [None] * ntm}
    filled = 0
    for step in steps:
        itm = tbounds.index(min(float(step['time'][1]), float(step['time'][2]))) if timed else 0
        for row in step['rows']:
            ien = ebounds.index(min(float(row[0]), float(row[1])))
            exp['val'][ien, itm] = float(row[2])
            exp['sig'][ien, itm] = float(row[3])
            exp['leth'][ien, itm] = float(row[4])
            filled += 1
        exp['integ'][itm] = step['integ']
    if filled != nen * ntm:
        raise HarnessError('ground truth does not fill the (energy, time) grid')
    first = steps[0]['rows'][0]
    exp['edec'] = float(first[0]) > float(first[1])
    exp['tdec'] = timed and len(steps) > 1 and float(steps[0]['time'][1]) > float(steps[-1]['time'][1])
    return exp


def _order_feat(exp):
    """Cause feature: was anything printed in decreasing order?"""
    return 'order=dec' if exp['edec'] or exp['tdec'] else 'order=inc'


def _check_binned(out, dset, exp, which, values, sigmas, what):
    """Compare a 7-d dataset (spectrum or energy-integrated per time step)."""
    feat = _order_feat(exp)
    grid = np.asarray(values)
    shape = (1, 1, 1, grid.shape[0], grid.shape[1], 1, 1)
    got = np.asarray(dset.value)
    if got.shape != shape:
        out.failures.append(Failure(f't4_{which}_shape', f'C10/t4/{which}_shape/{feat}',
                                    f'{what}: shape {got.shape}, expected {shape}'))
        return
    value_ok = _same_exact(got[0, 0, 0, :, :, 0, 0], grid)
    if not value_ok:
        out.failures.append(Failure(
            f't4_{which}_value', f'C10/t4/{which}_value/{feat}',
            f'{what}: values {_brief(got)} expected (energy-major, increasing bins) {_brief(grid)}'))
    if sigmas is not None and value_ok:   # the error clause is stated relative to the printed value
        experr = _rel_err(grid, sigmas)
        goterr = np.asarray(dset.error)
        if goterr.shape != shape or not _close_2ulp(goterr[0, 0, 0, :, :, 0, 0], experr):
            neg = 'neg' if np.any(grid < 0) else 'nonneg'
            out.failures.append(Failure(
                f't4_{which}_error', f'C10/t4/{which}_error/score={neg}',
                f'{what}: errors {_brief(goterr)} expected value*sigma%*0.01 = {_brief(experr)}'))
    ebins = exp['ebounds'] if which != 'eintegrated' else [exp['ebounds'][0], exp['ebounds'][-1]]
    for dim, bounds in (('e', ebins), ('t', exp['tbounds'])):
        gotb = np.asarray(dset.bins.get(dim, []), dtype=float)
        if not _same_exact(gotb, np.asarray(bounds, dtype=float)):
            out.failures.append(Failure(
                't4_bins', f'C10/t4/bins/{dim}/{feat}',
                f'{what}: {dim} bins {gotb.tolist()} expected {list(bounds)}'))


def _check_score_item(out, item, score, what):
    exp = _expected_score(score)
    res = item['results']
    feat = _order_feat(exp)
    for key in ('score', 'score/lethargy'):
        if key not in res or not hasattr(res[key], 'value'):
            out.failures.append(Failure('t4_missing_result', f'C10/t4/missing_result/{key}',
                                        f'{what}: no dataset {key!r} (keys {sorted(res)})'))
            return
    _check_binned(out, res['score'], exp, 'score', exp['val'], exp['sig'], what + ' score')
    _check_binned(out, res['score/lethargy'], exp, 'lethargy', exp['leth'], None,
                  what + ' score/lethargy')
    # number of discarded batches
    if 'discarded_batches' not in res or int(res['discarded_batches'].value) != score['disc']:
        out.failures.append(Failure('t4_batches', 'C10/t4/batches/discarded',
                                    f'{what}: discarded batches '
                                    f'{res.get("discarded_batches")} expected {score["disc"]}'))
    integ = exp['integ']
    if all(i is None for i in integ):
        return
    conv = [i for i in integ if i not in (None, 'NC')]
    if conv:
        used = conv[0][0]
        if 'used_batches' not in res or int(res['used_batches'].value) != used:
            out.failures.append(Failure('t4_batches', 'C10/t4/batches/used',
                                        f'{what}: used batches {res.get("used_batches")} '
                                        f'expected {used}'))
    vals = np.array([[np.nan if i in (None, 'NC') else float(i[1]) for i in integ]])
    sigs = np.array([[np.nan if i in (None, 'NC') else float(i[2]) for i in integ]])
    ncf = 'nc' if any(i == 'NC' for i in integ) else 'conv'
    if exp['timed']:
        if 'score_eintegrated' not in res:
            out.failures.append(Failure('t4_missing_result',
                                        f'C10/t4/missing_result/score_eintegrated/{ncf}',
                                        f'{what}: no per-time-step integrated dataset '
                                        f'(keys {sorted(res)})'))
            return
        _check_binned(out, res['score_eintegrated'], exp, 'eintegrated', vals, sigs,
                      what + ' score_eintegrated')
        return
    if 'score_integrated' not in res:
        out.failures.append(Failure('t4_missing_result', f'C10/t4/missing_result/score_integrated/{ncf}',
                                    f'{what}: no integrated dataset (keys {sorted(res)})'))
        return
    dset = res['score_integrated']
    got = np.asarray(dset.value, dtype=float).ravel()
    goterr = np.asarray(dset.error, dtype=float).ravel()
    if integ[0] == 'NC':
        if got.size != 1 or not np.isnan(got[0]) or not np.isnan(goterr[0]):
            out.failures.append(Failure('t4_not_converged', 'C10/t4/not_converged/integrated',
                                        f'{what}: NOT YET CONVERGED read as {got} +- {goterr}'))
        return
    if got.size != 1 or got[0] != vals[0, 0]:
        out.failures.append(Failure('t4_integrated_value', f'C10/t4/integrated_value/{feat}',
                                    f'{what}: integrated {got} expected {vals[0, 0]!r}'))
    if goterr.size != 1 or not _close_2ulp(goterr[0], _rel_err(vals[0, 0], sigs[0, 0])):
        out.failures.append(Failure('t4_integrated_error', f'C10/t4/integrated_error/{feat}',
                                    f'{what}: integrated error {goterr} expected '
                                    f'{_rel_err(vals[0, 0], sigs[0, 0])!r}'))
    gotb = np.asarray(dset.bins.get('e', []), dtype=float)
    if gotb.size and not _same_exact(gotb, np.array([exp['ebounds'][0], exp['ebounds'][-1]])):
        out.failures.append(Failure('t4_integrated_bins', f'C10/t4/integrated_bins/{feat}',
                                    f'{what}: integrated e bins {gotb.tolist()} expected '
                                    f'{[exp["ebounds"][0], exp["ebounds"][-1]]}'))


def _item_key(item):
    if item.get('response_type') == 'generic':
        return ('generic', item.get('response_function'))
    return ('score', item.get('response_function'), item.get('response_name', ''),
            item.get('score_name'), item.get('energy_split_name'), item.get('particle'),
            item.get('scoring_mode'),
            _zone_key(item.get('scoring_zone_type'), item.get('scoring_zone_id', -1)))


def _truth_keys(edition):
    """[(key, response, score)] in printed order."""
    keys = []
    for resp in edition['responses']:
        if resp['kind'] == 'generic':
            keys.append((('generic', resp['function']), resp, None))
            continue
        for score in resp['scores']:
            zone = score['zone']
            keys.append((('score', resp['function'], resp.get('name') or '',
                          resp.get('score_name'), resp.get('esplit'), resp['particle'],
                          score['mode'], _zone_key(zone['type'], zone['id'])), resp, score))
    return keys


def _check_globals(out, glob, edition, edition_line, requested):
    def bad(key, got, exp):
        out.failures.append(Failure('t4_globals', f'C10/t4/globals/{key}',
                                    f'edition {requested}: {key} = {got!r}, printed {exp!r}'))
    if glob.get('batch_number') != edition['batch']:
        bad('batch_number', glob.get('batch_number'), edition['batch'])
    if edition_line and glob.get('edition_batch_number') != edition['batch']:
        bad('edition_batch_number', glob.get('edition_batch_number'), edition['batch'])
    if glob.get('simulation_time') != edition['sim_time']:
        bad('simulation_time', glob.get('simulation_time'), edition['sim_time'])
    if glob.get('source_intensity') != float(edition['source_intensity']):
        bad('source_intensity', glob.get('source_intensity'), edition['source_intensity'])
    if edition.get('mwl') is not None:
        mwl = glob.get('mean_weight_leak')
        exp = dict(zip(('score', 'sigma', 'sigma%'), (float(x) for x in edition['mwl'])))
        if not isinstance(mwl, dict) or {k: mwl.get(k) for k in exp} != exp:
            bad('mean_weight_leak', mwl, exp)


def _check_edition(out, browser, edition, edition_line, requested):
    _check_globals(out, browser.globals, edition, edition_line, requested)
    truth = _truth_keys(edition)
    got = {}
    for item in browser.content:
        key = _item_key(item)
        if key in got:
            out.failures.append(Failure('t4_items', 'C10/t4/items/duplicate',
                                        f'edition {requested}: two items for {key}'))
        got[key] = item
    expkeys = [k for k, _r, _s in truth]
    missing = [k for k in expkeys if k not in got]
    extra = [k for k in got if k not in expkeys]
    if missing or extra:
        out.failures.append(Failure(
            't4_items', 'C10/t4/items/' + ('missing' if missing else 'unexpected'),
            f'edition {requested}: missing {missing[:3]} unexpected {extra[:3]}'))
    for key, resp, score in truth:
        item = got.get(key)
        if item is None:
            continue
        what = f'edition {requested} {resp["function"]}'
        if score is None:
            res = item['results']
            dset = res.get('score_generic')
            if dset is None:
                out.failures.append(Failure('t4_missing_result', 'C10/t4/missing_result/generic',
                                            f'{what}: keys {sorted(res)}'))
                continue
            val, sig = float(resp['score']), float(resp['sigma'])
            if np.asarray(dset.value).shape != () or float(dset.value) != val:
                out.failures.append(Failure('t4_generic_value', 'C10/t4/generic_value',
                                            f'{what}: {dset.value!r} expected {val!r}'))
            if not _close_2ulp(dset.error, _rel_err(val, sig)):
                out.failures.append(Failure(
                    't4_generic_error', f'C10/t4/generic_error/score={"neg" if val < 0 else "nonneg"}',
                    f'{what}: error {dset.error!r} expected {_rel_err(val, sig)!r}'))
            if 'used_batches' not in res or int(res['used_batches'].value) != resp['used']:
                out.failures.append(Failure('t4_batches', 'C10/t4/batches/used-generic',
                                            f'{what}: {res.get("used_batches")} expected {resp["used"]}'))
            continue
        zone = score['zone']
        what += f' {score["mode"]} {zone["type"]} {zone["id"]}'
        if zone.get('vol') is not None and item.get('scoring_zone_volsurf') != float(zone['vol']):
            out.failures.append(Failure('t4_metadata', 'C10/t4/metadata/zone_volume',
                                        f'{what}: volume {item.get("scoring_zone_volsurf")!r} '
                                        f'printed {zone["vol"]}'))
        if resp.get('concentration') is not None and \
                item.get('concentration') != (float(resp['concentration']),):
            out.failures.append(Failure('t4_metadata', 'C10/t4/metadata/concentration',
                                        f'{what}: concentration {item.get("concentration")!r} '
                                        f'printed {resp["concentration"]}'))
        _check_score_item(out, item, score, what)


def _t4_features(truth):
    feats = set()
    for edition in truth['editions']:
        for resp in edition['responses']:
            if resp['kind'] == 'generic':
                feats.add('generic-response')
                toks = [resp['score']]
            else:
                toks = []
                if len(resp['scores']) > 1:
                    feats.add('multi-zone')
                for score in resp['scores']:
                    exp = _expected_score(score)
                    if exp['edec']:
                        feats.add('e-decreasing')
                    if exp['timed']:
                        feats.add('t-steps')
                    if exp['tdec']:
                        feats.add('t-decreasing')
                    if score.get('units'):
                        feats.add('units-line')
                    if len(exp['ebounds']) == 2:
                        feats.add('single-group')
                    ncs = [i == 'NC' for i in exp['integ']]
                    if any(ncs):
                        feats.add('not-converged')
                        if exp['timed']:
                            feats.add('not-converged-in-time-steps')
                    if all(i is None for i in exp['integ']):
                        feats.add('no-integrated-line')
                    toks += [row[2] for step in score['steps'] for row in step['rows']]
            if any(t.startswith('-') for t in toks):
                feats.add('negative')
            if any(float(t) == 0.0 for t in toks):
                feats.add('zero')
    if len(truth['editions']) >= 2:
        feats.add('editions>=2')
    if not truth.get('edition_line', True):
        feats.add('no-edition-line')
    return feats


def _run_t4_truth(out, truth, accesses):
    feats = _t4_features(truth)
    if any(a != 'number' for a in accesses):
        feats.add('access-index')
    out.labels.append('t4')
    out.labels += sorted('t4:' + f for f in feats)
    out.nontrivial = bool(feats & {'editions>=2', 'e-decreasing', 't-decreasing', 'negative', 'zero',
                                   'not-converged'})
    text = t4emit.emit(truth)
    tmpdir = _workdir()
    try:
        path = os.path.join(tmpdir, 'listing.res')
        with open(path, 'w', encoding='utf-8') as fil:
            fil.write(text)
        try:
            parser = Parser(path)
            numbers = parser.batch_numbers()
        except Exception as exc:   # the scan of a well-formed listing must succeed
            out.failures.append(exc_failure('t4_scan_raises', exc))
            return
        expnum = [ed['batch'] for ed in truth['editions']]
        if numbers != expnum:
            out.failures.append(Failure(
                't4_editions', 'C10/t4/editions/' + ('with-edition-line' if truth.get('edition_line', True)
                                                    else 'no-edition-line'),
                f'batch numbers {numbers}, printed editions {expnum}'))
        nedit = len(expnum)
        for ied, edition in enumerate(truth['editions']):
            access = accesses[ied]
            try:
                if access == 'index':
                    pres = parser.parse_from_index(ied)
                elif access == 'negindex':
                    pres = parser.parse_from_index(ied - nedit)
                else:
                    pres = parser.parse_from_number(edition['batch'])
                browser = pres.to_browser()
            except Exception as exc:   # every edition of an in-domain listing must be readable
                out.failures.append(exc_failure('t4_parse_raises', exc))
                continue
            if browser.globals.get('batch_number') != edition['batch']:
                # not the requested edition: the other clauses (stated for the requested
                # edition) would only repeat this failure for every number of the listing
                out.failures.append(Failure(
                    't4_wrong_edition', f'C10/t4/wrong_edition/by-{access}',
                    f'edition {edition["batch"]} requested by {access} (position {ied} of '
                    f'{expnum}), got batch_number {browser.globals.get("batch_number")!r}'))
                continue
            _check_edition(out, browser, edition, truth.get('edition_line', True),
                           f'{edition["batch"]} (by {access})')
    finally:
        shutil.rmtree(tmpdir, ignore_errors=True)


def _run_t4(case, out):
    truth = t4emit.expand(case)
    _run_t4_truth(out, truth, [ed.get('access', 'number') for ed in case['editions']])
    out.info = {'editions': [ed['batch'] for ed in truth['editions']],
                'items_per_edition': len(_truth_keys(truth['editions'][0]))}


# --------------------------------------------------------------------------
# emitter validation on shipped listings (also a metamorphic clause)

def _run_t4file(case, out):
    out.labels.append('t4file')
    path = os.path.join(T4_DATA, case['file'])
    try:
        parser = Parser(path)
        numbers = parser.batch_numbers()
    except Exception as exc:
        out.failures.append(exc_failure('t4_shipped_raises', exc, case['file']))
        return
    tmpdir = _workdir()
    try:
        for batch in numbers:
            try:
                pres = parser.parse_from_number(batch)
                items = pres.to_browser().content
            except Exception as exc:
                out.failures.append(exc_failure('t4_shipped_raises', exc, case['file']))
                continue
            raws = [r for key, lst in pres.pres.items() if key != 'batch_data' for r in lst]
            if len(raws) != len(items):
                raise HarnessError('raw responses and browser items are not aligned')
            sel = [i for i, it in enumerate(items) if t4emit.covered_item(it)]
            if not sel:
                continue
            responses = t4emit.truth_from_items([items[i] for i in sel], [raws[i] for i in sel])
            truth = {'prologue': 'noaopt', 'init_time': 0, 'edition_line': True,
                     'editions': [{'batch': batch, 'sim_time': 1, 'source_intensity': '1.000000e+00',
                                   'mwl': None, 'responses': responses}]}
            lpath = os.path.join(tmpdir, f'reemit_{batch}.res')
            with open(lpath, 'w', encoding='utf-8') as fil:
                fil.write(t4emit.emit(truth))
            try:
                again = Parser(lpath).parse_from_number(batch).to_browser().content
            except Exception as exc:
                out.failures.append(exc_failure('t4_reemit_raises', exc, case['file']))
                continue
            if len(again) != len(sel):
                out.failures.append(Failure('t4_reemit', f'C10/t4/reemit/items/{case["file"]}',
                                            f'batch {batch}: {len(again)} items re-read, '
                                            f'{len(sel)} emitted'))
                continue
            out.nontrivial = True
            for idx, new in zip(sel, again):
                old = items[idx]
                for meta in ('response_function', 'response_name', 'score_name', 'energy_split_name',
                             'particle', 'scoring_mode', 'scoring_zone_type', 'scoring_zone_id',
                             'scoring_zone_volsurf'):
                    if meta in old and str(old[meta]) != str(new.get(meta)):
                        out.failures.append(Failure(
                            't4_reemit', f'C10/t4/reemit/metadata/{meta}',
                            f'{case["file"]} batch {batch}: {meta} {old[meta]!r} -> {new.get(meta)!r}'))
                for rname, dset in old['results'].items():
                    if not hasattr(dset, 'value'):
                        continue
                    other = new['results'].get(rname)
                    same = (other is not None and hasattr(other, 'value')
                            and _same_exact(other.value, dset.value)
                            and _close_2ulp(other.error, dset.error)
                            and all(_same_exact(other.bins.get(k, []), v)
                                    for k, v in dset.bins.items()))
                    if not same:
                        out.failures.append(Failure(
                            't4_reemit', f'C10/t4/reemit/dataset/{rname}',
                            f'{case["file"]} batch {batch} item {idx}: {rname} differs after '
                            f're-emission: {_brief(dset.value)} -> '
                            f'{_brief(other.value) if other is not None else None}'))
    finally:
        shutil.rmtree(tmpdir, ignore_errors=True)


# --------------------------------------------------------------------------
# Apollo3 oracle

def _ds_same(one, two):
    """Differences between two datasets (value, error, bins, what)."""
    diffs = []
    va1, va2 = np.asarray(one.value), np.asarray(two.value)
    if va1.shape != va2.shape:
        diffs.append(('shape', f'{va1.shape} vs {va2.shape}'))
    elif not np.array_equal(va1, va2, equal_nan=True):
        diffs.append(('value', f'{_brief(va1)} vs {_brief(va2)}'))
    er1, er2 = np.asarray(one.error), np.asarray(two.error)
    if er1.shape != er2.shape:
        if va1.shape == va2.shape:
            diffs.append(('error', f'shape {er1.shape} vs {er2.shape}'))
    elif not np.array_equal(er1, er2, equal_nan=True):
        diffs.append(('error', f'{_brief(er1)} vs {_brief(er2)}'))
    if list(one.bins) != list(two.bins) or any(
            not _same_exact(one.bins[k], two.bins[k]) for k in one.bins):
        diffs.append(('bins', f'{dict(one.bins)} vs {dict(two.bins)}'))
    if one.what != two.what:
        diffs.append(('what', f'{one.what!r} vs {two.what!r}'))
    return diffs


def _single_surface(ref):
    return ref['result_name'] in ('surfflux', 'current') and np.shape(ref['value'])[1] == 1


def _ap3_cause(refs):
    """Cause feature of a failure of the whole load, computed from the input file."""
    return 'nsurf=1' if any(_single_surface(r) for r in refs) else ''


def _run_ap3_path(out, path, tag, err0=False):
    refs = ap3gen.reference_items(path)
    aux = sorted(set(ap3gen.AUX))
    try:
        browser = (Reader(path, error_value=0) if err0 else Reader(path)).to_browser()
    except Exception as exc:
        named = [a for a in aux if str(exc).rstrip().endswith(' for ' + a)]
        if named:   # an auxiliary dataset of the documented layout taken for a result
            out.failures.append(Failure('ap3_aux_as_result', f'C10/ap3/aux_as_result/{named[0]}',
                                        f'{tag}: {type(exc).__name__}: {exc}'))
        else:
            out.failures.append(exc_failure('ap3_reader_raises', exc, _ap3_cause(refs)))
        return refs
    found = {}
    for item in browser.content:
        key = (item.get('output'), item.get('zone'), item.get('isotope'), item.get('result_name'))
        if key in found:
            out.failures.append(Failure('ap3_items', 'C10/ap3/items/duplicate',
                                        f'{tag}: two browser items labelled {key}'))
        found[key] = item
    expkeys = {(r['output'], r['zone'], r['isotope'], r['result_name']) for r in refs}
    if len(expkeys) != len(refs):
        raise HarnessError('reference items are not uniquely labelled')
    missing = sorted(expkeys - set(found), key=str)
    extra = sorted(set(found) - expkeys, key=str)
    for key in list(extra):
        named = [a for a in aux if a.lower() == str(key[3]).lower()]
        if named:
            extra.remove(key)
            out.failures.append(Failure('ap3_aux_as_result', f'C10/ap3/aux_as_result/{named[0]}',
                                        f'{tag}: auxiliary dataset returned as a result: {key}'))
    if missing or extra:
        out.failures.append(Failure('ap3_items',
                                    'C10/ap3/items/' + ('missing' if missing else 'unexpected'),
                                    f'{tag}: missing {missing[:3]} unexpected {extra[:3]}'))
    picker = None
    try:
        picker = Picker(path, error_value=0) if err0 else Picker(path)
        for ref in refs:
            key = (ref['output'], ref['zone'], ref['isotope'], ref['result_name'])
            place = ref['place']
            item = found.get(key)
            if item is None:
                continue
            dset = item['results']
            if not _same_exact(dset.value, ref['value']):
                out.failures.append(Failure(
                    'ap3_reader_value', f'C10/ap3/reader_value/{place}',
                    f'{tag} {key}: read {np.asarray(dset.value).shape} {_brief(dset.value)}, stored '
                    f'{np.asarray(ref["value"]).shape} {_brief(ref["value"])}'))
            if ref['pick'] is None:
                continue
            kind, kwargs = ref['pick']
            try:
                if kind == 'standard':
                    picked = picker.pick_standard_value(**kwargs)
                else:
                    picked = picker.pick_user_value(**kwargs)
            except Exception as exc:
                out.failures.append(exc_failure(
                    'ap3_pick_raises', exc,
                    place + ('/nsurf=1' if _single_surface(ref) else '')))
                continue
            for what, detail in _ds_same(picked, dset):
                feat = ('local' if ref.get('local') else 'standard') if what == 'what' else place
                out.failures.append(Failure(
                    f'ap3_pick_{what}', f'C10/ap3/pick_{what}/{feat}',
                    f'{tag} {key}: picked vs loaded {what}: {detail}'))
    finally:
        if picker is not None:
            try:
                picker.close()
            except Exception:   # closing is not what is observed here
                pass
    return refs


def _run_ap3(case, out):
    out.labels.append('ap3')
    out.labels.append('ap3:std' if case['layout'] == 'std' else 'ap3:user')
    tmpdir = _workdir()
    try:
        path = os.path.join(tmpdir, 'file.hdf')
        ap3gen.write(case, path)
        refs = _run_ap3_path(out, path, 'generated', bool(case.get('err0')))
    finally:
        shutil.rmtree(tmpdir, ignore_errors=True)
    if case.get('err0'):
        out.labels.append('ap3:error_value=0')
    zones = {(r['output'], r['zone']) for r in refs if r['zone'] not in (None, 'totaloutput')}
    per_out = {}
    for outp, _z in zones:
        per_out[outp] = per_out.get(outp, 0) + 1
    aniso_iso = any(r['isotope'] not in (None, 'macro') and np.ndim(r['value']) == 2 for r in refs)
    if aniso_iso:
        out.labels.append('ap3:aniso-isotope')
    if any(r['isotope'] == 'macro' and np.ndim(r['value']) == 2 for r in refs):
        out.labels.append('ap3:aniso-macro')
    if any(r.get('local') and r['zone'] == 'totaloutput' for r in refs):
        out.labels.append('ap3:local-in-total')
    if any(r['result_name'] in ('current', 'surfflux') for r in refs):
        out.labels.append('ap3:surfaces')
    if any(_single_surface(r) for r in refs):
        out.labels.append('ap3:single-surface')
    if any(r.get('stored_shape') == (1,) and r['pick'] is not None for r in refs):
        out.labels.append('ap3:localvalue-group-size1')
    if len({r['output'] for r in refs}) >= 2:
        out.labels.append('ap3:outputs>=2')
    if per_out and max(per_out.values()) >= 2 and aniso_iso:
        out.nontrivial = True
        out.labels.append('ap3:nontrivial')
    out.info = {'stored_results': len(refs)}


def _run_ap3file(case, out):
    out.labels.append('ap3file')
    refs = _run_ap3_path(out, os.path.join(AP3_DATA, case['file']), case['file'])
    out.nontrivial = len(refs) > 1
    out.info = {'stored_results': len(refs)}


# --------------------------------------------------------------------------

KEFFS_LISTINGS = ['angle.d.res.ceav5', 'cylindreDecR_with_kij_on_mesh.d.res.ceav5',
                  'entropy.d.res.ceav5', 'pincell.res.ceav5',
                  'pu_met_fast_001_decompose_list_small.d.res.ceav5', 'sensitivity_godiva.d.res',
                  'ttsSimplePacket20.d.PARA.res.ceav5', 'ttsSimplePacket20.d.res.ceav5']


def _run_t4keffs(case, out):
    """k-effective blocks of a shipped listing (a layout the emitter does not produce): every
    printed number of every edition, read independently by vlib/t4keff.py, against the browser
    items of response function KEFFS.  Partially converged rows (value printed, sigma 'Not
    converged') occur in the first editions of entropy.d.res.ceav5."""
    from vlib import t4keff
    out.labels.append('t4keffs')
    path = os.path.join(T4_DATA, case['file'])
    with open(path, errors='ignore') as fil:
        blocks = [b for b in t4keff.keffs_blocks(fil.read())]
    try:
        parser = Parser(path)
        numbers = parser.batch_numbers()
    except Exception as exc:
        out.failures.append(exc_failure('t4_shipped_raises', exc, case['file']))
        return
    if len(blocks) != len(numbers):
        out.labels.append('t4keffs:blocks-do-not-match-editions')
        return
    nchecked = 0
    for batch, blk in zip(numbers, blocks):
        try:
            items = parser.parse_from_number(batch).to_browser().filter_by(
                response_function='KEFFS').content
        except Exception as exc:
            out.failures.append(exc_failure('t4_shipped_raises', exc, case['file']))
            continue
        by_est = {it.get('keff_estimator'): it for it in items}
        rows = [(name, val, sig, None) for name, val, sig in blk['single']]
        rows += [(f'{one}-{two}', val, sig, corr) for one, two, corr, val, sig in blk['combined']]
        if 'full' in blk:
            full = blk['full']
            rows.append(('full combination', full[0] if full else None, full[1] if full else None,
                         None))
        for est, val, sig, corr in rows:
            item = by_est.get(est)
            where = f'{case["file"]} edition {batch} KEFFS {est}'
            if item is None:
                out.failures.append(Failure('t4_items', 'C10/t4/keffs/item-missing',
                                            f'{where}: printed in the listing, no such item'))
                continue
            dset = item['results'].get('keff')
            exp_v = float('nan') if val is None else val
            exp_e = float('nan') if (val is None or sig is None) else val * sig * 0.01
            conv = 'partially-converged' if (val is not None and sig is None) else \
                'not-converged' if val is None else 'converged'
            out.labels.append('t4keffs:' + conv)
            nchecked += 1
            if dset is None or not _same_exact(dset.value, exp_v):
                out.failures.append(Failure(
                    't4_value', f'C10/t4/keffs/value/{conv}',
                    f'{where}: value {getattr(dset, "value", None)!r}, printed '
                    f'{"Not converged" if val is None else val!r}'))
            elif not _close_2ulp(dset.error, exp_e):
                out.failures.append(Failure(
                    't4_error', f'C10/t4/keffs/error/{conv}',
                    f'{where}: error {dset.error!r}, expected value*sigma%*0.01 = {exp_e!r}'))
            if corr is not None:
                cds = item['results'].get('correlation_keff')
                if cds is None or not _same_exact(cds.value, corr):
                    out.failures.append(Failure(
                        't4_value', 'C10/t4/keffs/correlation',
                        f'{where}: correlation {getattr(cds, "value", None)!r}, printed {corr!r}'))
    if nchecked:
        out.nontrivial = True
    out.info = {'file': case['file'], 'editions': len(numbers), 'printed keff rows checked': nchecked}


def run_case(case):
    out = Outcome()
    kind = case['kind']
    if kind == 't4':
        _run_t4(case, out)
    elif kind == 't4file':
        _run_t4file(case, out)
    elif kind == 't4keffs':
        _run_t4keffs(case, out)
    elif kind == 'ap3':
        _run_ap3(case, out)
    elif kind == 'ap3file':
        _run_ap3file(case, out)
    else:
        raise HarnessError(f'unknown case kind {kind!r}')
    return out


def _is_localvalue_size1(case, failure):
    """Known-finding predicate: a local value stored with shape (1,) in a
    top-level ``localvalue`` group (Reader: scalar, Picker: (1,) array; both
    behaviours are asserted by the shipped test-suite)."""
    if not failure.signature.endswith('/local-group/size1'):
        return False
    if case.get('kind') == 'ap3file':
        return True
    return case.get('kind') == 'ap3' and case.get('layout') == 'user_group' \
        and 1 in case.get('user', {}).get('sizes', [])


KNOWN_PREDICATES = {'ap3_localvalue_group_size1': _is_localvalue_size1}

MANIFEST = {
    'text': ('Generated search (Hypothesis). Tripoli-4: synthetic listings emitted from an explicit '
             'ground truth by recombining the response / scoring-zone / spectrum / time-step / '
             'integrated-result layouts of the shipped listings (prologue, batch blocks and epilogue '
             'copied verbatim), 1-4 editions requested by number or index; every dataset of every '
             '(response, zone) item is compared with float(printed token), value*sigma%*0.01 and the '
             'sorted printed boundaries. The emitter is validated on the shipped listings '
             '(re-emission round trip, enumerated). Apollo3: HDF5 files written with h5py in the '
             'documented layout, compared with an independent h5py reference reader and '
             'Reader-vs-Picker differential; the six shipped files are enumerated. Exploration, not '
             'proof: only the spectrum/integrated family of listings is generated.'),
    'note': ('Layouts occurring in no shipped listing are not generated (meshes, angular zones, vov, '
             'Green bands, keff, kij, IFP, perturbations, parallel listings). Trusts h5py and '
             'float() as references.'),
    'technique': 'property-based testing (Hypothesis), round trip through an emitter (inverse), '
                 'reference-model + differential oracle, enumeration of shipped files',
    'design_ref': 'DESIGN.md section 3, C10',
}
