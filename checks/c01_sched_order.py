"""C01 -- a task never starts before its dependencies have finished and
published their results (all interleavings, all worker counts)."""
from hypothesis import strategies as st

from valjean.cosette.task import TaskStatus
from vlib.core import Failure, Outcome
from vlib import schedcase as sc

ID = 'C01'
LEVEL = 'exploration'
RULE = ('case = (acyclic hard/soft/both DAG over 1-7 probe tasks built by construction, outcome per '
        'task from {done, FAILED, raise, None, non-pair, 3-tuple, bad status str/int, non-mapping '
        'update int/list, well-formed update followed by an entry that cannot be merged}, 1-4 workers, schedule = choice list | PCT priorities+change points) run '
        'on the unmodified QueueScheduling/Env loaded with instrumented threading/queue/time; plus '
        'depth-first enumeration of ALL schedules with <= P pre-emptions for small configurations '
        '(each executed schedule counts as one evaluation). Oracle at every probe start: each '
        'dependency has a final status which is still its status when the call returns, has returned from do() if it was executed, and the full '
        'update of every DONE dependency is readable. non-trivial = >=1 edge, >=2 workers and >=1 '
        'pre-emption between a worker leaving do() and its notify; distinct = (graph, outcomes, '
        'workers, trace hash)')
RULE_ADDENDA = (" Decorations shared by the scheduler checks (vlib/schedcase.py): generated insertion order, nested graphs as nodes, a top-level key shared by all updates, back-end first used on another graph, spurious wake-ups, graphs sorted before their last edits, reloaded / resumed initial environment, Scheduler scheduled again, tasks returning their whole own section, updates that are mappings but not dicts, statuses WAITING / PENDING / 1 / 2.0, a well-formed update followed by an entry that can never be merged, a task that schedules a graph of its own with default back-ends (overlapping calls), and (C02, C03) four wide graphs of 300-2100 ready tasks. C01 clause added: the final status seen when a dependant starts is still the dependency's status when the call returns.")
RULE = RULE + RULE_ADDENDA
ASSUMPTIONS = ['interleavings are explored at the granularity of synchronisation operations and probe '
               'yield points (DESIGN.md section 2 caveat); releases/notify are not branching points '
               '(mover argument in vlib/vsched.py)',
               'empty initial environment; acyclic graphs (quantifier of the property)']
BUDGET = {'quick': {'cases': 24000, 'shards': 16, 'seconds': 150, 'shrink_s': 40},
          'thorough': {'cases': 1500000, 'shards': 16, 'seconds': 1500, 'shrink_s': 120}}
FLOORS = {'nontrivial': 0.01, 'has-failing-dep': 0.10}


@st.composite
def _case(draw):
    n, edges = draw(sc.graphs(max_tasks=7))
    outs = draw(sc.outcomes(n, 0.3))
    workers = draw(st.sampled_from([1, 2, 2, 2, 3, 3, 4]))
    sched = draw(sc.schedules(max_len=120))
    case = {'n': n, 'edges': edges, 'outcomes': outs, 'workers': workers, 'sched': sched}
    case.update(draw(sc.extras(n)))
    case.update(draw(sc.preludes(n, with_init=False)))
    if draw(st.integers(0, 4)) == 0:
        # environment resumed from an earlier session: some tasks are DONE already (entries
        # shaped as the back-end leaves them); they are re-executed when a dependency is newer
        init = {str(i): 'DONE' for i in range(n) if draw(st.booleans())}
        if init:
            case['init'] = init
    return case


def strategy(tier):
    return _case()


def _small_configs(tier):
    confs = []
    # two-task configurations, two workers: every edge kind, reduced outcome alphabet
    for kind in 'hsb':
        for out0 in ['done', 'failed', 'raise', 'nonpair', 'badstatus_str', 'partial_clash']:
            confs.append({'n': 2, 'edges': [(1, 0, kind)], 'outcomes': [out0, 'done'], 'workers': 2})
    # three-task shapes
    shapes3 = {
        'chain': [(1, 0, 'h'), (2, 1, 'h')],
        'chain-soft': [(1, 0, 's'), (2, 1, 'h')],
        'fork': [(1, 0, 'h'), (2, 0, 's')],
        'join': [(2, 0, 'h'), (2, 1, 's')],
        'triangle': [(1, 0, 'h'), (2, 0, 'h'), (2, 1, 's')],
    }
    for name, edges in shapes3.items():
        for outs in (['done', 'done', 'done'], ['failed', 'done', 'done'], ['done', 'raise', 'done']):
            confs.append({'n': 3, 'edges': edges, 'outcomes': outs, 'workers': 2})
    return confs


def enumerations(tier):
    def gen():
        confs = _small_configs(tier)
        for conf in confs:
            full = tier == 'thorough' or (conf['n'] == 2 and conf['outcomes'][0] == 'done'
                                          and conf['edges'][0][2] in 'hs')
            if full:
                parts = 16 if conf['n'] == 2 else 64
                for k in range(parts):
                    yield dict(conf, sched=('dfs', 2, (k, parts)))
            else:
                yield dict(conf, sched=('dfs', 1, (0, 1)))
    return [('dfs-bounded-preemption', gen, True)]


def judge(case, rec, out, sched_for_replay=None):
    """Apply the C01 clauses to one run; failures are appended to ``out``."""
    hard, soft = sc.deps_of(case)
    model, execs = sc.model_statuses(case)
    fails = []
    for (name, seen) in rec.starts:
        idx = int(name[1:])
        for dep in sorted(hard[idx] | soft[idx]):
            obs = seen[f't{dep}']
            kind = ('b' if dep in hard[idx] and dep in soft[idx]
                    else 'h' if dep in hard[idx] else 's')
            dout = case['outcomes'][dep]
            status = obs['status']
            if not isinstance(status, TaskStatus) or status not in sc.FINAL:
                fails.append(('dep_not_final', f'C01/dep_not_final/dep={dout}',
                              f'{name} started while {kind}-dependency t{dep} had status {status!r}'))
            if (isinstance(status, TaskStatus) and status in sc.FINAL and not case.get('again')
                    and rec.executions[dep] <= 1 and rec.how == 'returned'
                    and rec.statuses.get(dep) != status):
                # "has reached a final state": a state that changes afterwards was not final
                fails.append(('dep_not_final', f'C01/dep_status_changed/dep={dout}',
                              f'{name} started when {kind}-dependency t{dep} had status {status!r}, '
                              f'but t{dep} (executed {rec.executions[dep]} time(s)) ended as '
                              f'{rec.statuses.get(dep)!r}'))
            if case.get('init'):
                # resumed environment: which tasks are executed is the scheduler's decision
                # (C04); what C01 says is that a dependency that IS executed during this call has
                # returned, and published, before the dependent starts
                ran = rec.executions[dep] >= 1
                if ran and not obs['returned']:
                    fails.append(('dep_not_returned', f'C01/dep_not_returned/resumed/dep={dout}',
                                  f'{name} started before t{dep}, which is (re-)executed in this '
                                  f'call, returned from do(); status seen {status!r}'))
                elif dout == 'done' and ran and not obs['visible']:
                    fails.append(('update_unreadable', 'C01/update_unreadable/resumed/dep=done',
                                  f'{name} started while the update returned by t{dep} in this call '
                                  f'was not (fully) readable; status seen {status!r}'))
                elif not ran and str(dep) in case['init'] and not obs['visible0']:
                    fails.append(('update_unreadable', 'C01/update_unreadable/resumed/carried-entry',
                                  f'{name} started while the entry of t{dep} carried over from the '
                                  f'earlier session was not readable; status seen {status!r}'))
                continue
            if execs[dep] == 1 and not obs['returned']:
                fails.append(('dep_not_returned', f'C01/dep_not_returned/dep={dout}',
                              f'{name} started before t{dep} returned from do()'))
            if dout == 'done' and execs[dep] == 1 and not obs['visible']:
                fails.append(('update_unreadable', 'C01/update_unreadable/dep=done',
                              f'{name} started while the update returned by DONE dependency t{dep} '
                              f'was not (fully) readable; status seen {status!r}'))
    for clause, sig, detail in fails:
        fail = Failure(clause, sig, detail)
        if sched_for_replay is not None:
            fail.case = dict(case, sched=sched_for_replay)
        out.failures.append(fail)
    return fails


def run_case(case):
    out = Outcome()
    out.labels.extend(sc.shape_labels(case))
    if case.get('init'):
        out.labels.append('resumed-environment')
    spec = case['sched']
    hard, soft = sc.deps_of(case)
    has_edge = any(hard[i] | soft[i] for i in hard)
    if any(o != 'done' and any(i in (hard[k] | soft[k]) for k in hard)
           for i, o in enumerate(case['outcomes'])):
        out.labels.append('has-failing-dep')
    if spec[0] == 'dfs':
        keys = set()
        seen_sigs = set()

        def visit(choices, rec):
            sub = Outcome()
            judge(case, rec, sub, sched_for_replay=('choices', list(choices)))
            for fail in sub.failures:
                if fail.signature not in seen_sigs:     # one representative per bucket
                    seen_sigs.add(fail.signature)
                    out.failures.append(fail)
            feat = sc.trace_features(rec)
            if has_edge and case['workers'] >= 2 and feat['window_preemptions'] >= 1:
                keys.add(sc.trace_digest(rec))
        count = sc.dfs_run(case, spec[1], visit, part=tuple(spec[2]))
        out.evals = count
        out.extra_keys = sorted(keys)
        out.nontrivial = bool(keys)
        out.labels.append(f'dfs-P{spec[1]}')
        out.info = {'schedules': count, 'nontrivial_schedules': len(keys)}
        return out
    rec = sc.execute(case)
    judge(case, rec, out)
    feat = sc.trace_features(rec)
    out.labels.append(f'workers={case["workers"]}')
    out.labels.append(f'sched={spec[0]}')
    out.labels.append('ended=' + (rec.verdict[0] if rec.verdict else rec.how))
    if has_edge and case['workers'] >= 2 and feat['window_preemptions'] >= 1:
        out.nontrivial = True
        out.labels.append('nontrivial')
        out.key = sc.trace_digest(rec) + str((case['n'], case['edges'], case['outcomes']))
    out.info = feat
    return out


MANIFEST = {
    'text': ('Graphs may contain nested graph nodes (groups, empty ones included), tasks are inserted in a '
             'generated order, updates also go to a top-level key shared by all tasks, the back-end object may '
             'first have scheduled another graph over the same task names, Condition.wait may wake up '
             'spuriously. '
             'Generated search over (DAG, outcomes, worker count, schedule) with the harness owning the '
             'schedule of the real, unmodified back-end (instrumented threading/queue/time substituted at '
             'import), plus complete enumeration of all schedules with at most 2 pre-emptions for small '
             'configurations. The oracle is evaluated inside the probe tasks at the moment they start. '
             'Exploration: schedules beyond the pre-emption bound and graphs beyond the sampled ones are '
             'not covered.'),
    'note': ('Trusts the look-alike primitives of vlib/vsched.py to have the blocking semantics of CPython '
             'threading/queue; interleavings finer than synchronisation operations are not explored.'),
    'technique': 'property-based testing with a controlled thread scheduler (random, PCT and bounded-pre-emption exhaustive schedules), invariant oracle in probe tasks',
    'design_ref': 'DESIGN.md sections 2 and 3 (C01)',
}
