"""C09 -- slicing a dataset keeps exactly the selected cells together with
their bin edges; squeezing removes exactly the unit dimensions."""
import itertools
import os
import sys
from collections import OrderedDict

import numpy as np
from hypothesis import strategies as st

from valjean.eponine.dataset import Dataset
from vlib.core import Failure, Outcome, exc_failure
from vlib import dsutil

ID = 'C09'
LEVEL = 'exploration'
RULE = ('cases = (shape up to 4-D with 0-6 cells per dimension, per-dimension bin kind edges/'
        'centres or no bins at all, unit-step slices with start/stop in None U [-N-3, N+3]) or '
        '(squeeze of a dataset with 0-4 cells per dimension, with/without bins); all 1-D datasets N<=6 x all '
        '(start, stop) pairs x 3 bin kinds are enumerated exhaustively. Oracle: slice.indices() '
        'on plain arrays. non-trivial = non-empty selection with a negative or out-of-range '
        'bound on an edges dimension, or a squeeze removing >=1 and keeping >=1 dimension; '
        'distinct = structural hash of the case')
RULE_ADDENDA = (" Also: grids that decrease, repeat an edge or wrap around; dimension names '', ' ', '0', 'None'; C / Fortran / strided / negative-stride layouts; two-step history squeeze-then-slice; a second slice of the same dataset run to completion at a generated call boundary inside dataset.py during the first one (what a second thread may do).")
RULE = RULE + RULE_ADDENDA
ASSUMPTIONS = ['slices have step None or 1 (quantifier of the property)',
               'for selections that retain no cell only result.size == 0 is asserted']
BUDGET = {'quick': {'cases': 24000, 'shards': 16, 'seconds': 120},
          'thorough': {'cases': 400000, 'shards': 16, 'seconds': 900}}
FLOORS = {'slice': 0.3, 'squeeze': 0.1}


def _bound(n):
    return st.one_of(st.none(), st.integers(-n - 3, n + 3))


# the coordinates of a dimension need not increase: decreasing grids (energies as Tripoli-4 prints
# them), a repeated edge (bin of zero width), a grid that wraps around (angles)
_GRID = st.sampled_from(['inc', 'inc', 'inc', 'dec', 'dup', 'wrap'])
# names of the dimensions: ordinary, or with an empty / blank / numeric-looking name
_KEYS = st.sampled_from(['plain', 'plain', 'plain', 'empty-first', 'empty-last', 'odd'])


def _key_names(ndim, how):
    names = [f'd{dim}' for dim in range(ndim)]
    if how == 'empty-first':
        names[0] = ''
    elif how == 'empty-last':
        names[-1] = ''
    elif how == 'odd':
        names = [[' ', '0', 'None', 'e'][dim] for dim in range(ndim)]
    return names


def _regrid(arr, how):
    if how == 'dec':
        return arr[::-1].copy()
    if how == 'dup' and arr.size >= 2:
        arr = arr.copy()
        arr[1] = arr[0]
        return arr
    if how == 'wrap' and arr.size >= 2:
        return np.roll(arr, 1)
    return arr


@st.composite
def _slice_case(draw):
    shape = draw(st.lists(st.integers(0, 6), min_size=1, max_size=4))
    ndim = len(shape)
    has_bins = draw(st.sampled_from([True, True, True, False]))
    kinds = [draw(st.sampled_from('ec')) for _ in range(ndim)] if has_bins else None
    slices = [(draw(_bound(n)), draw(_bound(n)), draw(st.sampled_from([None, 1])))
              for n in shape]
    astuple = True if ndim > 1 else draw(st.booleans())
    if 1 in shape and ndim > 1 and any(n != 1 for n in shape) and draw(st.integers(0, 2)) == 1:
        # two-step history: the dataset is squeezed first, the squeezed dataset is sliced
        return {'op': 'slice', 'shape': shape, 'kinds': kinds, 'slices': slices, 'presqueeze': True,
                'astuple': True, 'layout': draw(st.sampled_from(dsutil.LAYOUTS)),
                'grids': [draw(_GRID) for _ in range(ndim)], 'keys': draw(_KEYS)}
    case = {'op': 'slice', 'shape': shape, 'kinds': kinds, 'slices': slices,
            'astuple': astuple, 'layout': draw(st.sampled_from(dsutil.LAYOUTS)),
            'grids': [draw(_GRID) for _ in range(ndim)], 'keys': draw(_KEYS)}
    if astuple and draw(st.integers(0, 5)) == 3:
        # a second thread slices the same dataset while this slice is in progress
        case['other'] = {'k': draw(st.integers(1, 8)),
                         'slices': [(draw(_bound(n)), draw(_bound(n)), None) for n in shape]}
    return case


@st.composite
def _squeeze_case(draw):
    shape = draw(st.lists(st.sampled_from([1, 1, 2, 3, 4, 0]), min_size=1, max_size=4))
    ndim = len(shape)
    has_bins = draw(st.booleans())
    kinds = [draw(st.sampled_from('ec')) for _ in range(ndim)] if has_bins else None
    return {'op': 'squeeze', 'shape': shape, 'kinds': kinds,
            'layout': draw(st.sampled_from(dsutil.LAYOUTS)),
            'grids': [draw(_GRID) for _ in range(ndim)], 'keys': draw(_KEYS)}


def strategy(tier):
    return st.one_of(_slice_case(), _slice_case(), _squeeze_case())


def enumerations(tier):
    def one_d():
        for n in range(0, 7):
            rng = [None] + list(range(-n - 3, n + 4))
            for kinds in (['e'], ['c'], None):
                for start, stop in itertools.product(rng, rng):
                    yield {'op': 'slice', 'shape': [n], 'kinds': kinds,
                           'slices': [(start, stop, None)], 'astuple': False}
    return [('all-1d-slices-N<=6', one_d, True)]


def _build(case):
    shape = tuple(case['shape'])
    size = int(np.prod(shape)) if shape else 1
    value = (np.arange(size, dtype=float) + 1.0).reshape(shape)
    error = value * 0.125
    value = dsutil.relayout(value, case.get('layout', 'C'))     # same numbers, other memory layout
    error = dsutil.relayout(error, case.get('layout', 'C'))
    bins = dsutil.make_bins(shape, case['kinds']) if case['kinds'] else None
    if bins is not None and (case.get('grids') or case.get('keys')):
        names = _key_names(len(shape), case.get('keys', 'plain'))
        grids = case.get('grids') or ['inc'] * len(shape)
        bins = OrderedDict((names[dim], _regrid(arr, grids[dim]))
                           for dim, arr in enumerate(bins.values()))
    return Dataset(value, error, bins=bins, name='ds', what='w'), value, error, bins


def _features(specs, shape, dim):
    start, stop, _ = specs[dim]
    n = shape[dim]

    def cls(x):
        if x is None:
            return 'none'
        if x < -n:
            return 'below'
        if x < 0:
            return 'neg'
        if x > n:
            return 'above'
        return 'pos'
    return cls(start), cls(stop)


def _sliced_while_another_thread_slices(dset, index, other, shape, out):
    """``dset[index]`` during which, at the ``other['k']``-th function call made inside
    valjean/eponine/dataset.py, ANOTHER slice of the same dataset runs to completion: what a second
    thread slicing the shared dataset does when the interpreter switches threads at that point
    (a context switch may happen at any call boundary).  Both selections must be the ones asked
    for; the result of the interrupted one is returned and judged by the caller."""
    slices2 = tuple(slice(*spec) for spec in other['slices'])
    state = {'calls': 0, 'ran': False, 'res': None, 'exc': None}
    previous = sys.gettrace()

    def tracer(frame, event, _arg):
        if event == 'call' and frame.f_code.co_filename.endswith(os.path.join('eponine', 'dataset.py')):
            state['calls'] += 1
            if state['calls'] == other['k'] and not state['ran']:
                state['ran'] = True
                sys.settrace(None)
                try:
                    state['res'] = dset[slices2]
                except Exception as exc:      # pylint: disable=broad-except
                    state['exc'] = exc
                finally:
                    sys.settrace(tracer)
        return None
    sys.settrace(tracer)
    try:
        res = dset[index]
    finally:
        sys.settrace(previous)
    if state['ran']:
        out.labels.append('slice-interleaved-with-another-slice')
        ranges2 = [sl.indices(n)[:2] for sl, n in zip(slices2, shape)]
        if state['exc'] is not None:
            out.failures.append(exc_failure('slice_raises', state['exc'], 'second-thread'))
        elif not any(hi <= lo for lo, hi in ranges2):
            exp_shape = tuple(hi - lo for lo, hi in ranges2)
            got = state['res']
            bad = got.value.shape != exp_shape or any(
                len(arr) not in (n, n + 1) for arr, n in zip(got.bins.values(), exp_shape))
            if bad:
                out.failures.append(Failure(
                    'slice_bins', 'C09/slice_bins/second-thread',
                    f'a second slice {other["slices"]} of the same dataset, run while the first one was '
                    f'in progress, has shape {got.value.shape} and bins of lengths '
                    f'{[len(a) for a in got.bins.values()]}, expected shape {exp_shape}'))
    return res


def run_case(case):
    out = Outcome()
    dset, value, error, bins = _build(case)
    before = dsutil.snapshot(dset)
    shape, kinds, specs = list(case['shape']), case['kinds'], list(case['slices']) \
        if case['op'] == 'slice' else None
    if case['op'] == 'slice' and case.get('presqueeze'):
        out.labels.append('slice-of-a-squeezed-dataset')
        keep = [d for d, n in enumerate(shape) if n != 1]
        try:
            dset = dset.squeeze()
        except Exception as exc:
            out.failures.append(exc_failure('squeeze_raises', exc, 'before-slice'))
            return out
        before = dsutil.snapshot(dset)
        value, error = np.squeeze(value), np.squeeze(error)
        if bins is not None:
            bins = OrderedDict(item for d, item in enumerate(bins.items()) if d in keep)
            kinds = [kinds[d] for d in keep]
        shape = [shape[d] for d in keep]
        specs = [specs[d] for d in keep]
    if case['op'] == 'slice':
        out.labels.append('slice')
        slices = tuple(slice(*s) for s in specs)
        index = slices if case['astuple'] or case.get('presqueeze') else slices[0]
        ranges = [s.indices(n)[:2] for s, n in zip(slices, shape)]
        empty = any(hi <= lo for lo, hi in ranges)
        out.labels.append('empty-selection' if empty else 'nonempty-selection')
        other = case.get('other')
        try:
            if other:
                res = _sliced_while_another_thread_slices(dset, index, other, shape, out)
            else:
                res = dset[index]
        except Exception as exc:  # the property promises a dataset for every such slice
            out.failures.append(exc_failure('slice_raises', exc,
                                            'empty' if empty else 'nonempty'))
            return out
        if empty:
            if res.size != 0:
                out.failures.append(Failure('empty_selection', 'C09/empty_selection/size',
                                            f'size {res.size} for an empty selection'))
        else:
            if not dsutil.same_array(res.value, value[slices]):
                out.failures.append(Failure('slice_value', 'C09/slice_value', 'values differ'))
            if not dsutil.same_array(res.error, error[slices]):
                out.failures.append(Failure('slice_error', 'C09/slice_error', 'errors differ'))
            for why in dsutil.wellformed(res):
                out.failures.append(Failure('wellformed', 'C09/slice_wellformed', why))
            if bins is not None:
                if list(res.bins) != list(bins):
                    out.failures.append(Failure('slice_bins', 'C09/slice_bins/keys',
                                                f'{list(res.bins)} vs {list(bins)}'))
                else:
                    for dim, ((lo, hi), key) in enumerate(zip(ranges, bins)):
                        kind = kinds[dim]
                        exp = bins[key][lo:hi + 1] if kind == 'e' else bins[key][lo:hi]
                        if not dsutil.same_array(res.bins[key], exp):
                            fstart, fstop = _features(specs, shape, dim)
                            out.failures.append(Failure(
                                'slice_bins',
                                f'C09/slice_bins/kind={kind}/start={fstart}',
                                f'dim {dim} N={shape[dim]} slice={specs[dim]}: '
                                f'bins {res.bins[key].tolist()} expected {exp.tolist()}'))
                        if kind == 'e':
                            feats = _features(specs, shape, dim)
                            if set(feats) & {'neg', 'below', 'above'}:
                                out.nontrivial = True
                                out.labels.append('edges-neg-or-oor-bound')
            elif res.bins:
                out.failures.append(Failure('slice_bins', 'C09/slice_bins/invented',
                                            f'bins {res.bins} on a dataset without bins'))
    else:
        out.labels.append('squeeze')
        keep = [d for d, n in enumerate(case['shape']) if n != 1]
        if 0 in case['shape']:
            out.labels.append('squeeze-with-empty-dim')
        if 0 < len(keep) < len(case['shape']):
            out.nontrivial = True
            out.labels.append('squeeze-mixed')
        feat = 'bins' if bins is not None else 'nobins'
        try:
            res = dset.squeeze()
        except Exception as exc:
            out.failures.append(exc_failure('squeeze_raises', exc, feat))
            return out
        if not dsutil.same_array(res.value, np.squeeze(value)):
            out.failures.append(Failure('squeeze_value', 'C09/squeeze_value', 'values differ'))
        if not dsutil.same_array(res.error, np.squeeze(error)):
            out.failures.append(Failure('squeeze_error', 'C09/squeeze_error', 'errors differ'))
        for why in dsutil.wellformed(res):
            out.failures.append(Failure('wellformed', 'C09/squeeze_wellformed', why))
        exp = OrderedDict(item for d, item in enumerate(bins.items()) if d in keep) \
            if bins is not None else OrderedDict()
        if list(res.bins) != list(exp) or not all(
                dsutil.same_array(res.bins[k], exp[k]) for k in exp):
            out.failures.append(Failure('squeeze_bins', f'C09/squeeze_bins/{feat}',
                                        f'bins {dict(res.bins)} expected {dict(exp)}'))
    if dsutil.snapshot(dset) != before:
        out.failures.append(Failure('original_unchanged', f'C09/original_changed/{case["op"]}',
                                    'the sliced/squeezed dataset was modified'))
    return out

MANIFEST = {
    'text': ('Generated search (Hypothesis) over datasets up to 4-D with edge/centre/no bins and all '
             'unit-step slices incl. negative, omitted and out-of-range bounds, plus squeezes; the '
             '1-D sub-space N<=6 is enumerated completely. Oracle = slice.indices() applied to plain '
             'arrays, well-formedness predicate and byte snapshot of the original. Exploration, not '
             'proof: N-d behaviour beyond the sampled cases is not established.'),
    'note': ('Trusts numpy basic slicing and slice.indices as reference semantics; bins are distinct '
             'floats so a wrong edge is visible; step is None/1 only.'),
    'technique': 'property-based testing (Hypothesis) + exhaustive enumeration of 1-D slices, reference-model oracle',
    'design_ref': 'DESIGN.md section 3, C09',
}
