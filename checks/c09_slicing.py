"""C09 -- slicing a dataset keeps exactly the selected cells together with
their bin edges; squeezing removes exactly the unit dimensions."""
import itertools
from collections import OrderedDict

import numpy as np
from hypothesis import strategies as st

from valjean.eponine.dataset import Dataset
from vlib.core import Failure, Outcome, exc_failure
from vlib import dsutil

ID = 'C09'
LEVEL = 'exploration'
RULE = ('cases = (shape up to 4-D with 0-6 cells per dimension, per-dimension bin kind edges/'
        'centres or no bins at all, unit-step slices with start/stop in None U [-N-3, N+3]) or '
        '(squeeze of a dataset with 0-4 cells per dimension, with/without bins); all 1-D datasets N<=6 x all '
        '(start, stop) pairs x 3 bin kinds are enumerated exhaustively. Oracle: slice.indices() '
        'on plain arrays. non-trivial = non-empty selection with a negative or out-of-range '
        'bound on an edges dimension, or a squeeze removing >=1 and keeping >=1 dimension; '
        'distinct = structural hash of the case')
ASSUMPTIONS = ['slices have step None or 1 (quantifier of the property)',
               'for selections that retain no cell only result.size == 0 is asserted']
BUDGET = {'quick': {'cases': 24000, 'shards': 16, 'seconds': 120},
          'thorough': {'cases': 400000, 'shards': 16, 'seconds': 900}}
FLOORS = {'slice': 0.3, 'squeeze': 0.1}


def _bound(n):
    return st.one_of(st.none(), st.integers(-n - 3, n + 3))


# the coordinates of a dimension need not increase: decreasing grids (energies as Tripoli-4 prints
# them), a repeated edge (bin of zero width), a grid that wraps around (angles)
_GRID = st.sampled_from(['inc', 'inc', 'inc', 'dec', 'dup', 'wrap'])
# names of the dimensions: ordinary, or with an empty / blank / numeric-looking name
_KEYS = st.sampled_from(['plain', 'plain', 'plain', 'empty-first', 'empty-last', 'odd'])


def _key_names(ndim, how):
    names = [f'd{dim}' for dim in range(ndim)]
    if how == 'empty-first':
        names[0] = ''
    elif how == 'empty-last':
        names[-1] = ''
    elif how == 'odd':
        names = [[' ', '0', 'None', 'e'][dim] for dim in range(ndim)]
    return names


def _regrid(arr, how):
    if how == 'dec':
        return arr[::-1].copy()
    if how == 'dup' and arr.size >= 2:
        arr = arr.copy()
        arr[1] = arr[0]
        return arr
    if how == 'wrap' and arr.size >= 2:
        return np.roll(arr, 1)
    return arr


@st.composite
def _slice_case(draw):
    shape = draw(st.lists(st.integers(0, 6), min_size=1, max_size=4))
    ndim = len(shape)
    has_bins = draw(st.sampled_from([True, True, True, False]))
    kinds = [draw(st.sampled_from('ec')) for _ in range(ndim)] if has_bins else None
    slices = [(draw(_bound(n)), draw(_bound(n)), draw(st.sampled_from([None, 1])))
              for n in shape]
    astuple = True if ndim > 1 else draw(st.booleans())
    return {'op': 'slice', 'shape': shape, 'kinds': kinds, 'slices': slices,
            'astuple': astuple, 'layout': draw(st.sampled_from(dsutil.LAYOUTS)),
            'grids': [draw(_GRID) for _ in range(ndim)], 'keys': draw(_KEYS)}


@st.composite
def _squeeze_case(draw):
    shape = draw(st.lists(st.sampled_from([1, 1, 2, 3, 4, 0]), min_size=1, max_size=4))
    ndim = len(shape)
    has_bins = draw(st.booleans())
    kinds = [draw(st.sampled_from('ec')) for _ in range(ndim)] if has_bins else None
    return {'op': 'squeeze', 'shape': shape, 'kinds': kinds,
            'layout': draw(st.sampled_from(dsutil.LAYOUTS)),
            'grids': [draw(_GRID) for _ in range(ndim)], 'keys': draw(_KEYS)}


def strategy(tier):
    return st.one_of(_slice_case(), _slice_case(), _squeeze_case())


def enumerations(tier):
    def one_d():
        for n in range(0, 7):
            rng = [None] + list(range(-n - 3, n + 4))
            for kinds in (['e'], ['c'], None):
                for start, stop in itertools.product(rng, rng):
                    yield {'op': 'slice', 'shape': [n], 'kinds': kinds,
                           'slices': [(start, stop, None)], 'astuple': False}
    return [('all-1d-slices-N<=6', one_d, True)]


def _build(case):
    shape = tuple(case['shape'])
    size = int(np.prod(shape)) if shape else 1
    value = (np.arange(size, dtype=float) + 1.0).reshape(shape)
    error = value * 0.125
    value = dsutil.relayout(value, case.get('layout', 'C'))     # same numbers, other memory layout
    error = dsutil.relayout(error, case.get('layout', 'C'))
    bins = dsutil.make_bins(shape, case['kinds']) if case['kinds'] else None
    if bins is not None and (case.get('grids') or case.get('keys')):
        names = _key_names(len(shape), case.get('keys', 'plain'))
        grids = case.get('grids') or ['inc'] * len(shape)
        bins = OrderedDict((names[dim], _regrid(arr, grids[dim]))
                           for dim, arr in enumerate(bins.values()))
    return Dataset(value, error, bins=bins, name='ds', what='w'), value, error, bins


def _features(case, dim):
    start, stop, _ = case['slices'][dim]
    n = case['shape'][dim]

    def cls(x):
        if x is None:
            return 'none'
        if x < -n:
            return 'below'
        if x < 0:
            return 'neg'
        if x > n:
            return 'above'
        return 'pos'
    return cls(start), cls(stop)


def run_case(case):
    out = Outcome()
    dset, value, error, bins = _build(case)
    before = dsutil.snapshot(dset)
    if case['op'] == 'slice':
        out.labels.append('slice')
        slices = tuple(slice(*s) for s in case['slices'])
        index = slices if case['astuple'] else slices[0]
        ranges = [s.indices(n)[:2] for s, n in zip(slices, case['shape'])]
        empty = any(hi <= lo for lo, hi in ranges)
        out.labels.append('empty-selection' if empty else 'nonempty-selection')
        try:
            res = dset[index]
        except Exception as exc:  # the property promises a dataset for every such slice
            out.failures.append(exc_failure('slice_raises', exc,
                                            'empty' if empty else 'nonempty'))
            return out
        if empty:
            if res.size != 0:
                out.failures.append(Failure('empty_selection', 'C09/empty_selection/size',
                                            f'size {res.size} for an empty selection'))
        else:
            if not dsutil.same_array(res.value, value[slices]):
                out.failures.append(Failure('slice_value', 'C09/slice_value', 'values differ'))
            if not dsutil.same_array(res.error, error[slices]):
                out.failures.append(Failure('slice_error', 'C09/slice_error', 'errors differ'))
            for why in dsutil.wellformed(res):
                out.failures.append(Failure('wellformed', 'C09/slice_wellformed', why))
            if bins is not None:
                if list(res.bins) != list(bins):
                    out.failures.append(Failure('slice_bins', 'C09/slice_bins/keys',
                                                f'{list(res.bins)} vs {list(bins)}'))
                else:
                    for dim, ((lo, hi), key) in enumerate(zip(ranges, bins)):
                        kind = case['kinds'][dim]
                        exp = bins[key][lo:hi + 1] if kind == 'e' else bins[key][lo:hi]
                        if not dsutil.same_array(res.bins[key], exp):
                            fstart, fstop = _features(case, dim)
                            out.failures.append(Failure(
                                'slice_bins',
                                f'C09/slice_bins/kind={kind}/start={fstart}',
                                f'dim {dim} N={case["shape"][dim]} slice={case["slices"][dim]}: '
                                f'bins {res.bins[key].tolist()} expected {exp.tolist()}'))
                        if kind == 'e':
                            feats = _features(case, dim)
                            if set(feats) & {'neg', 'below', 'above'}:
                                out.nontrivial = True
                                out.labels.append('edges-neg-or-oor-bound')
            elif res.bins:
                out.failures.append(Failure('slice_bins', 'C09/slice_bins/invented',
                                            f'bins {res.bins} on a dataset without bins'))
    else:
        out.labels.append('squeeze')
        keep = [d for d, n in enumerate(case['shape']) if n != 1]
        if 0 in case['shape']:
            out.labels.append('squeeze-with-empty-dim')
        if 0 < len(keep) < len(case['shape']):
            out.nontrivial = True
            out.labels.append('squeeze-mixed')
        feat = 'bins' if bins is not None else 'nobins'
        try:
            res = dset.squeeze()
        except Exception as exc:
            out.failures.append(exc_failure('squeeze_raises', exc, feat))
            return out
        if not dsutil.same_array(res.value, np.squeeze(value)):
            out.failures.append(Failure('squeeze_value', 'C09/squeeze_value', 'values differ'))
        if not dsutil.same_array(res.error, np.squeeze(error)):
            out.failures.append(Failure('squeeze_error', 'C09/squeeze_error', 'errors differ'))
        for why in dsutil.wellformed(res):
            out.failures.append(Failure('wellformed', 'C09/squeeze_wellformed', why))
        exp = OrderedDict(item for d, item in enumerate(bins.items()) if d in keep) \
            if bins is not None else OrderedDict()
        if list(res.bins) != list(exp) or not all(
                dsutil.same_array(res.bins[k], exp[k]) for k in exp):
            out.failures.append(Failure('squeeze_bins', f'C09/squeeze_bins/{feat}',
                                        f'bins {dict(res.bins)} expected {dict(exp)}'))
    if dsutil.snapshot(dset) != before:
        out.failures.append(Failure('original_unchanged', f'C09/original_changed/{case["op"]}',
                                    'the sliced/squeezed dataset was modified'))
    return out

MANIFEST = {
    'text': ('Generated search (Hypothesis) over datasets up to 4-D with edge/centre/no bins and all '
             'unit-step slices incl. negative, omitted and out-of-range bounds, plus squeezes; the '
             '1-D sub-space N<=6 is enumerated completely. Oracle = slice.indices() applied to plain '
             'arrays, well-formedness predicate and byte snapshot of the original. Exploration, not '
             'proof: N-d behaviour beyond the sampled cases is not established.'),
    'note': ('Trusts numpy basic slicing and slice.indices as reference semantics; bins are distinct '
             'floats so a wrong edge is visible; step is None/1 only.'),
    'technique': 'property-based testing (Hypothesis) + exhaustive enumeration of 1-D slices, reference-model oracle',
    'design_ref': 'DESIGN.md section 3, C09',
}
