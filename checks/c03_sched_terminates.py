"""C03 -- scheduling always terminates and leaves no worker thread behind."""
from hypothesis import strategies as st

from vlib.core import Failure, Outcome
from vlib import schedcase as sc

ID = 'C03'
LEVEL = 'exploration'
RULE = ('case = (hard/soft/both graph over 1-6 probe tasks, possibly with back edges / self loops closing '
        'cycles (hard, soft-only or mixed), outcome per task incl. exceptions and malformed returns, 1-4 '
        'workers, initial environment empty or holding DONE/FAILED/SKIPPED entries shaped like those an '
        'earlier run leaves, schedule) on the unmodified back-end under the controlled scheduler, plus '
        'depth-first enumeration of all schedules with <= P pre-emptions for small configurations. Oracle '
        '(exact, no timers): no reachable state where no thread is runnable while one is unfinished; the '
        'call returns or raises; at that moment every worker thread has exited and no item is left in '
        'the work queue. non-trivial = cycle, malformed/raising outcome, non-empty initial environment, '
        'or the master blocked in Condition.wait at least once; distinct = (graph, outcomes, init, '
        'workers, trace hash)')
RULE_ADDENDA = (' Decorations shared by the scheduler checks (vlib/schedcase.py): generated insertion order, nested graphs as nodes, a top-level key shared by all updates, back-end first used on another graph, spurious wake-ups, graphs sorted before their last edits, reloaded / resumed initial environment, Scheduler scheduled again, tasks returning their whole own section, updates that are mappings but not dicts, statuses WAITING / PENDING / 1 / 2.0, a well-formed update followed by an entry that can never be merged, a task that schedules a graph of its own with default back-ends (overlapping calls), and (C02, C03) four wide graphs of 300-2100 ready tasks.')
RULE = RULE + RULE_ADDENDA
ASSUMPTIONS = ['Condition/Queue/RLock look-alikes have CPython blocking semantics, spurious wake-ups are '
               'generated in an eighth of the cases; corroborated by running generated cases on real threads in a child process '
               '(coverage keys real_thread_*): a real run that hangs or leaks is reported only when the '
               'controlled scheduler reproduces it',
               'initial WAITING/PENDING leftovers are not generated (the property lists the three final states)',
               'a run exceeding 20000 scheduling points is counted as inconclusive, never as a violation']
BUDGET = {'quick': {'cases': 20000, 'shards': 16, 'seconds': 150, 'shrink_s': 40},
          'thorough': {'cases': 1200000, 'shards': 16, 'seconds': 1500, 'shrink_s': 120}}
FLOORS = {'cyclic': 0.08, 'init-nonempty': 0.15, 'malformed': 0.15, 'master-waited': 0.2}


@st.composite
def _case(draw):
    n, edges = draw(sc.graphs(max_tasks=6))
    back = []
    if draw(st.integers(0, 5)) == 0:
        nback = draw(st.integers(1, 2))
        for _ in range(nback):
            i = draw(st.integers(0, n - 1))
            j = draw(st.integers(i, n - 1))          # j >= i: self loop or back edge
            back.append((i, j, draw(st.sampled_from(['h', 's', 'b']))))
    outs = draw(sc.outcomes(n, 0.35, unmergeable=True))
    workers = draw(st.sampled_from([1, 2, 2, 3, 4]))
    init = {}
    if draw(st.integers(0, 2)) == 0:
        for i in range(n):
            stt = draw(st.sampled_from([None, None, 'DONE', 'DONE', 'FAILED', 'SKIPPED']))
            if stt:
                init[str(i)] = stt
    sched = draw(sc.schedules(max_len=100))
    case = {'n': n, 'edges': edges, 'outcomes': outs, 'workers': workers, 'sched': sched}
    case.update(draw(sc.extras(n)))
    case.update(draw(sc.preludes(n, with_init=True)))
    if draw(st.integers(0, 5)) == 0:
        case['again'] = draw(st.sampled_from([1, 1, 2]))
    if back:
        case['back'] = back
        if draw(st.booleans()):
            case['presort'] = True
    if init:
        case['init'] = init
    if draw(st.integers(0, 3)) == 0:
        case['reloaded'] = True
    return case


def strategy(tier):
    return _case()


def _small_configs(tier):
    confs = []
    alpha = ['done', 'raise', 'none', 'nonpair', 'badstatus_str', 'badupdate_list']
    for kind in 'hs':
        for out0 in alpha:
            confs.append({'n': 2, 'edges': [(1, 0, kind)], 'outcomes': [out0, 'done'], 'workers': 2})
    confs.append({'n': 2, 'edges': [(1, 0, 'h')], 'back': [(0, 1, 'h')], 'outcomes': ['done', 'done'],
                  'workers': 2})
    confs.append({'n': 1, 'edges': [], 'back': [(0, 0, 's')], 'outcomes': ['done'], 'workers': 1})
    for init in ({'0': 'DONE'}, {'0': 'FAILED'}, {'1': 'DONE'}, {'0': 'DONE', '1': 'DONE'},
                 {'1': 'SKIPPED'}, {'0': 'DONE', '1': 'FAILED'}):
        confs.append({'n': 2, 'edges': [(1, 0, 'h')], 'outcomes': ['done', 'done'], 'workers': 2,
                      'init': init})
    for outs in (['done', 'done', 'done'], ['raise', 'done', 'done'], ['done', 'nonpair', 'done']):
        confs.append({'n': 3, 'edges': [(1, 0, 'h'), (2, 0, 's')], 'outcomes': outs, 'workers': 2})
        confs.append({'n': 3, 'edges': [(1, 0, 'h'), (2, 1, 'h')], 'outcomes': outs, 'workers': 1})
    return confs


def enumerations(tier):
    def gen():
        for conf in _small_configs(tier):
            if tier == 'thorough':
                parts = 16 if conf['n'] <= 2 else 64
                for k in range(parts):
                    yield dict(conf, sched=('dfs', 2, (k, parts)))
            else:
                yield dict(conf, sched=('dfs', 1, (0, 1)))
    return [('dfs-bounded-preemption', gen, True),
            ('wide-graphs-300-to-2100-tasks', sc.wide_cases, True)]


def _cause(case, rec):
    """Coarse cause features for the bucket signature."""
    if sc.is_cyclic(case):
        return 'cyclic'
    if case.get('again'):
        return 'scheduled-again'
    if rec.deaths and any(o in sc.OUTCOMES_UNMERGEABLE for o in case['outcomes']):
        return 'worker-died/unmergeable-update'
    if rec.deaths:
        return 'worker-died'
    if rec.how == 'raised':
        return 'master-raised:' + type(rec.value).__name__
    if case.get('init'):
        return 'init-nonempty'
    if any(o in sc.OUTCOMES_UNMERGEABLE for o in case['outcomes']):
        return 'unmergeable-update'
    if any(o in sc.OUTCOMES_MALFORMED for o in case['outcomes']):
        return 'malformed'
    return 'plain'


def judge(case, rec, replay_case=None):
    fails = []

    def add(clause, detail):
        fail = Failure(clause, f'C03/{clause}/{_cause(case, rec)}', detail)
        fail.case = replay_case
        fails.append(fail)

    if rec.verdict and rec.verdict[0] == 'deadlock':
        add('deadlock', f'no runnable thread; blocked in {rec.verdict[1]}; dead workers: '
            f'{ {k: repr(v) for k, v in rec.deaths.items()} }')
        return fails
    if rec.verdict and rec.verdict[0] == 'step-bound':
        return fails            # inconclusive
    if rec.how not in ('returned', 'raised'):
        add('comes_back', f'call ended as {rec.how}')
        return fails
    if rec.alive_at_return:
        how = 'returned' if rec.how == 'returned' else f'raised {type(rec.value).__name__}'
        add('workers_alive', f'call {how} while worker threads {rec.alive_at_return} had not exited'
            + (f'; they block for ever in {rec.leak}' if rec.leak else ''))
    elif rec.leak:
        add('workers_leaked', f'threads blocked for ever in {rec.leak}')
    if rec.queue_items:
        add('queue_not_empty', f'{rec.queue_items} item(s) left in the work queue')
    return fails


def run_case(case):
    out = Outcome()
    out.labels.extend(sc.shape_labels(case))
    cyc = sc.is_cyclic(case)
    if cyc:
        out.labels.append('cyclic')
    if case.get('init'):
        out.labels.append('init-nonempty')
    if case.get('again'):
        out.labels.append('scheduled-again')
    if any(o in sc.OUTCOMES_MALFORMED for o in case['outcomes']):
        out.labels.append('malformed')
    if any(o in sc.OUTCOMES_UNMERGEABLE for o in case['outcomes']):
        out.labels.append('unmergeable-update')
    static_nt = cyc or bool(case.get('init')) or any(o != 'done' and o != 'failed'
                                                      for o in case['outcomes'])
    spec = case['sched']
    if spec[0] == 'dfs':
        seen_sigs = set()
        keys = set()
        inconclusive = [0]

        def visit(choices, rec):
            for fail in judge(case, rec, dict(case, sched=('choices', list(choices)))):
                if fail.signature not in seen_sigs:
                    seen_sigs.add(fail.signature)
                    out.failures.append(fail)
            if rec.verdict and rec.verdict[0] == 'step-bound':
                inconclusive[0] += 1
            if static_nt or sc.trace_features(rec)['master_waits']:
                keys.add(sc.trace_digest(rec))
        count = sc.dfs_run(case, spec[1], visit, part=tuple(spec[2]))
        out.evals = count
        out.extra_keys = sorted(keys)
        out.nontrivial = bool(keys)
        out.excluded = inconclusive[0]
        out.labels.append(f'dfs-P{spec[1]}')
        out.info = {'schedules': count}
        return out
    rec = sc.execute(case)
    out.failures.extend(judge(case, rec))
    feat = sc.trace_features(rec)
    if feat['master_waits']:
        out.labels.append('master-waited')
    out.labels.append('ended=' + (rec.verdict[0] if rec.verdict else rec.how))
    if rec.verdict and rec.verdict[0] == 'step-bound':
        out.excluded = 1
    if static_nt or feat['master_waits']:
        out.nontrivial = True
        out.key = sc.trace_digest(rec) + repr((case['n'], case['edges'], case.get('back'),
                                               case['outcomes'], case.get('init'), case['workers']))
    out.info = feat
    return out


REAL_CASES = {'quick': 12, 'thorough': 250}      # per shard


def _confirm(case):
    """Failures of ``case`` under the controlled scheduler: its own schedule, the default one and
    all schedules with at most one pre-emption."""
    found = {}
    for spec in (case['sched'], ('choices', [])):
        for fail in judge(case, sc.execute(case, spec), dict(case, sched=spec)):
            found.setdefault(fail.signature, fail)

    def visit(choices, rec):
        for fail in judge(case, rec, dict(case, sched=('choices', list(choices)))):
            found.setdefault(fail.signature, fail)
    if not found and case['n'] <= 4:
        sc.dfs_run(case, 1, visit, limit=400)
    return list(found.values())


def shard_extra(tier, seed, shard, nshards, tally, deadline):
    """Corroboration on real threads (vlib/realrun.py): generated cases run on the unmodified
    modules in a child process.  A call that does not come back or leaves worker threads alive
    is looked for under the controlled scheduler; only what is reproduced there is reported
    (with its schedule), the rest is counted as unconfirmed."""
    from vlib import realrun
    cases = realrun.collect_cases(_case(), seed * 1000 + 500 + shard, REAL_CASES[tier])
    observations = realrun.corroborate(cases)
    stats = {'real_thread_runs': 0, 'real_thread_came_back_clean': 0, 'real_thread_suspect': 0,
             'real_thread_suspect_confirmed': 0, 'real_thread_unconfirmed': 0, 'real_thread_not_run': 0}
    for case, obs in zip(cases, observations):
        if obs['how'] == 'not-run':
            stats['real_thread_not_run'] += 1
            continue
        stats['real_thread_runs'] += 1
        if obs['how'] in ('returned', 'raised') and not obs['alive']:
            stats['real_thread_came_back_clean'] += 1
            continue
        stats['real_thread_suspect'] += 1
        fails = _confirm(case)
        out = Outcome()
        out.labels.append('real-threads-suspect')
        if fails:
            stats['real_thread_suspect_confirmed'] += 1
            out.failures.extend(fails)
        else:
            stats['real_thread_unconfirmed'] += 1
        tally.add(case, out, 'real-threads')
    return stats


MANIFEST = {
    'text': ('Also generated: updates that cannot be merged into the environment, the same Scheduler scheduled '
             'again on the environment it left, back-end reuse after another graph (whose master may have '
             'failed), nested graph nodes, spurious wake-ups; 12/250 cases per shard run on real threads in a '
             'child process (a hang or leak there is reported only when the controlled scheduler reproduces it). '
             'Generated search over (graph incl. cyclic ones, outcomes incl. exceptions and malformed returns, '
             'initial environments, worker count, schedule) on the real back-end with the harness owning the '
             'schedule: deadlock (no enabled thread), threads alive or blocked for ever when the call comes '
             'back and left-over queue items are decided exactly by the controller, not by timers; all '
             'schedules with <= 1 (quick) / <= 2 (thorough) pre-emptions are enumerated for small '
             'configurations. Exploration: liveness beyond "no deadlock state reachable within the explored '
             'schedules" is not established.'),
    'note': ('Trusts the blocking semantics of the look-alike primitives (vlib/vsched.py); spurious wake-ups (generated in an eighth of the cases) are modelled as a wake-up N scheduling points after going to sleep; '
             'interleavings below synchronisation operations are not explored.'),
    'technique': 'property-based testing with a controlled thread scheduler; exact deadlock/leak verdicts; bounded-pre-emption exhaustive schedules',
    'design_ref': 'DESIGN.md sections 2 and 3 (C03)',
}
