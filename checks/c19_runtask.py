"""C19 -- a failing command is never reported as done and its output is
captured intact.

A case is a *history*: an output root, a pool of task names and a list of
rounds; every round runs a few RunTask objects (directly through ``task.do``
or through a real ``Scheduler`` with 1-2 worker threads) in the same output
root.  Every command is a real ``/bin/sh`` process that appends its index to a
marker file (outside the output root), prints generated text on both streams
and exits with a generated status (or kills itself with a signal), or an
executable that cannot be started.  The oracle is a plain model of "run the
commands in order, stop at the first non-zero status" over the *generated*
statuses and texts, the marker file written by the commands themselves, and a
scan of the directory tree.
"""
import os
import pathlib
import re
import shutil
import tempfile
import threading
from collections.abc import Mapping

from hypothesis import strategies as st

from valjean.config import Config
from valjean.cosette.task import TaskStatus
from valjean.cosette.run import RunTask, RunTaskFactory
from valjean.cosette.code import CheckoutTask, BuildTask
from valjean.cosette.depgraph import DepGraph
from valjean.cosette.scheduler import Scheduler
from valjean.cosette.env import Env
from valjean.cosette.backends.queue import QueueScheduling
import valjean.path as vpath
from vlib.core import Failure, Outcome, exc_failure

ID = 'C19'
LEVEL = 'exploration'
RULE = ('case = output root (existing / to be created) + pool of 1-4 distinct task names (ordinary, '
        'blanks/unicode/punctuation, confusable variants, invalid: empty, ".", "..", with "/", '
        'absolute, with NUL, >255 bytes) + 1-3 rounds; a round runs 1-4 RunTask objects of the pool '
        '(from_cli / from_clis / closure / RunTaskFactory) with 1-5 commands each, or a CheckoutTask / '
        'BuildTask whose git / cmake is a generated two-step script (1 task in 7), directly '
        '(task.do) or through Scheduler with 1-2 real worker threads, all in the same root; a '
        'command is a real /bin/sh process (inline -c, script file, or executable script) that '
        'marks its index, prints generated text on stdout and stderr and exits with a generated '
        'status 0-255 or kills itself (SIGKILL/SIGTERM), or an executable that cannot be started '
        '(missing absolute/relative, not executable, directory, bad format, NUL in the name). All '
        '(length<=4, position, fault kind) x {direct, scheduled} single-task lists, all invalid '
        'names x constructors and all (step, fault kind / unstartable tool) of the checkout and build '
        'tasks are enumerated. non-trivial = some task has a non-zero status or an unstartable '
        'command that is not in last position, or >= 2 task executions share the root; distinct = '
        'structural hash of the case; evaluations = task executions')
RULE_ADDENDA = (' Also: several commands sharing one command line (call-counting script); rarely a never-ending command under the subprocess option timeout=4; one task in twenty without any command.')
RULE = RULE + RULE_ADDENDA
ASSUMPTIONS = [
    'commands are POSIX sh scripts run by /bin/sh (dash); exit statuses 0-255 and death by '
    'SIGKILL/SIGTERM (reported by subprocess as -9/-15) are the "arbitrary exit statuses"',
    'texts written by the commands never contain "$": a "$" in the stderr capture starts an echo '
    'line of RunTask ("$ <command line>\\n"), which is removed before comparing; command lines '
    'never contain a newline',
    'for a command that cannot be started, task.do() called directly may raise or return FAILED '
    '(the property only says the task fails rather than the run); through Scheduler the task must '
    'be FAILED and schedule() must return; return codes are compared only where they are recorded',
    'a task with an invalid file name may fail (or be rejected at construction) without running '
    'anything; if it completes, every clause applies to it',
    'task names are distinct within a round (documented requirement); a later round re-using a name '
    'is a re-run of that task: its capture files must hold the output of the latest run only',
    'surrogate code points are not generated (names and texts are valid unicode)',
    'CheckoutTask / BuildTask are run with a script in place of git / cmake (instance attribute GIT / '
    'CMAKE) and only with task names that are valid file names (also with ".log" appended, no '
    'newline); for them the clauses are status, steps run, and content of the log file (both streams '
    'in the order written); the own-directory clause is not applied to their shared log directory',
]
BUDGET = {'quick': {'cases': 8000, 'shards': 16, 'seconds': 150, 'shrink_s': 20},
          'thorough': {'cases': 120000, 'shards': 16, 'seconds': 780, 'shrink_s': 90}}
# a case runs a handful of one-line shell scripts (plus, rarely, one 4-second time-out per task)
CASE_TIMEOUT = 90
FLOORS = {'direct': 0.3, 'sched': 0.3, 'sched-2w': 0.1, 'fail-nonlast': 0.25,
          'unstartable': 0.12, 'unstartable-nonlast': 0.05, 'invalid-name': 0.12,
          'rerun-same-name': 0.12, 'multi-task-root': 0.5, 'signal': 0.04,
          'confusable-names': 0.05, 'code-task': 0.15, 'logdir-race-requested': 0.04}

TMPBASE = '/dev/shm' if os.path.isdir('/dev/shm') else '/var/tmp'
HANG_S = 20.0
MISSING = ['abs-missing', 'rel-missing', 'noexec', 'dir', 'badformat', 'nul']
CAPTURE_NAMES = ('stdout', 'stderr')
CODE_CTORS = ('checkout', 'build')


# --------------------------------------------------------------------------
# generator

_TEXT_CHARS = list("abXY01 \n\t%\\'\"#-*?~`!&|;<>(){}") + ['é', 'λ', '日', '\x00', '\x7f', '\r']
_TEXT = st.one_of(
    st.text(alphabet=st.sampled_from(_TEXT_CHARS), max_size=10),
    st.text(alphabet=st.characters(exclude_categories=['Cs'], exclude_characters='$'), max_size=6),
    st.sampled_from(['', 'out\n', 'line 1\nline 2\n', 'no newline', '\n\n', ' ']))

_ORD = st.text(alphabet=st.sampled_from(list('abcxyz019_')), min_size=1, max_size=6)
_ODD = st.sampled_from([' ', 'a b', ' a', 'a ', 'é', 'é', 'naïve task', '日本語', 'a\nb', '-x', '~',
                        '*', "it's", '"q"', 'a\\b', '...', '.a', 'a.', 'stdout', 'stderr', 'A', 'a',
                        'x' * 255, 'é' * 127, '%s', '{env}', 'a$b', 'a;b', '\t', 'con', 'a.f'])
_INVALID = st.sampled_from(['', '', '.', '..', 'a/b', 'a/', '/', '@TMP@/esc', '../esc', 'a/../../esc',
                            'x\x00y', '\x00', 'x' * 256, 'x' * 300, 'é' * 128])
_ANY = st.text(alphabet=st.characters(exclude_categories=['Cs']), max_size=5)


def _variants(base):
    return [base + ' ', ' ' + base, base.upper(), base.lower(), base + '.', base.strip(),
            base.replace('/', '_'), base.replace(' ', '_'), base + '\n', base[:-1], base + base]


@st.composite
def _names(draw):
    kind = draw(st.sampled_from(['plain', 'plain', 'mixed', 'mixed', 'invalid', 'family']))
    if kind == 'plain':
        pool = draw(st.lists(_ORD, min_size=1, max_size=4, unique=True))
    elif kind == 'mixed':
        pool = draw(st.lists(st.one_of(_ORD, _ODD, _ODD, _ANY), min_size=1, max_size=4, unique=True))
    elif kind == 'invalid':
        pool = draw(st.lists(st.one_of(_INVALID, _INVALID, _ORD, _ODD), min_size=1, max_size=4,
                             unique=True))
        if not any(name_class(n) in INVALID_CLASSES for n in pool):
            bad = draw(_INVALID)
            if bad not in pool:
                pool.insert(draw(st.integers(0, len(pool))), bad)
    else:
        base = draw(st.one_of(_ORD, _ODD, st.sampled_from(['a/b', 'a b', 'Ab', 'x_y'])))
        vars_ = [v for v in dict.fromkeys(_variants(base)) if v != base]
        picked = draw(st.lists(st.sampled_from(vars_), min_size=1, max_size=3, unique=True))
        pool = [base] + picked
        pool = list(draw(st.permutations(pool)))
    return pool


@st.composite
def _cmd(draw, startable=False):
    what = draw(st.sampled_from(['ok'] * 12 + ['exit'] * 5 + ['signal'] + ['missing'] * 2))
    if startable and what == 'missing':
        what = 'exit'
    if what == 'missing':
        how = draw(st.sampled_from(MISSING))
        if draw(st.integers(0, 99)) == 57:        # (not an end point: those are drawn more often)
            # a command that never ends, in a task created with the subprocess option timeout=:
            # like a command that cannot be started, it has no exit status at all
            how = 'timeout'
        return {'kind': 'missing', 'how': how}
    cmd = {'kind': 'sh', 'form': draw(st.sampled_from(['inline', 'inline', 'file', 'exec', 'same', 'same'])),
           'out': draw(_TEXT), 'err': draw(_TEXT), 'first': draw(st.sampled_from(['out', 'err'])),
           'exit': 0, 'sig': None}
    if what == 'exit':
        cmd['exit'] = draw(st.one_of(st.sampled_from([1, 1, 2, 126, 127, 128, 137, 254, 255]),
                                     st.integers(1, 255)))
    elif what == 'signal':
        cmd['sig'] = draw(st.sampled_from([9, 15]))
    return cmd


@st.composite
def _task(draw, npool):
    if draw(st.integers(0, 6)) == 0:
        # a CheckoutTask / BuildTask: two calls of one tool (git / cmake), here a generated script
        return {'name': draw(st.integers(0, npool - 1)), 'ctor': draw(st.sampled_from(CODE_CTORS)),
                'cmds': [draw(_cmd(startable=True)), draw(_cmd(startable=True))],
                'tool': draw(st.sampled_from([None] * 5 + MISSING))}
    # (a task without any command is legal: nothing fails, it is DONE with no return code)
    cmds = draw(st.lists(_cmd(), min_size=0 if draw(st.integers(0, 19)) == 7 else 1, max_size=5))
    ctors = ['clis', 'clis', 'closure'] + (['cli', 'cli', 'factory'] if len(cmds) == 1 else [])
    return {'name': draw(st.integers(0, npool - 1)), 'ctor': draw(st.sampled_from(ctors)),
            'cmds': cmds}


@st.composite
def _case(draw):
    names = draw(_names())
    nrounds = draw(st.sampled_from([1, 2, 2, 3]))
    rounds = []
    for _ in range(nrounds):
        mode = draw(st.sampled_from(['direct', 'sched']))
        tasks = draw(st.lists(_task(len(names)), min_size=1, max_size=min(4, len(names)),
                              unique_by=lambda t: t['name']))
        rnd = {'mode': mode, 'workers': draw(st.sampled_from([1, 2, 2])) if mode == 'sched' else 0,
               'tasks': tasks}
        if len(names) >= 2 and draw(st.integers(0, 7)) == 0:
            # two workers, a checkout and a build task that use the (shared) log directory for the
            # first time: the schedule "both see it missing, one creates it, then the other" is
            # forced (see _LogDirRace)
            first, second = draw(st.permutations(range(len(names))))[:2]
            head = [{'name': first, 'ctor': 'checkout', 'tool': None,
                     'cmds': [draw(_cmd(startable=True)), draw(_cmd(startable=True))]},
                    {'name': second, 'ctor': 'build', 'tool': None,
                     'cmds': [draw(_cmd(startable=True)), draw(_cmd(startable=True))]}]
            rest = [t for t in tasks if t['name'] not in (first, second)]
            rnd = {'mode': 'sched', 'workers': 2, 'tasks': head + rest, 'race': 'logdir'}
        rounds.append(rnd)
    return {'root': draw(st.sampled_from(['exists', 'exists', 'missing', 'deep-missing'])),
            'names': names, 'rounds': rounds}


def strategy(tier):
    return _case()


def enumerations(tier):
    faults = [('exit', 1), ('exit', 255), ('exit', 128), ('signal', 9), ('signal', 15)] + \
             [('missing', how) for how in MISSING]

    def cmd_of(fault, idx):
        if fault is None:
            return {'kind': 'sh', 'form': 'inline', 'out': f'o{idx}\n', 'err': f'e{idx}', 'first': 'out',
                    'exit': 0, 'sig': None}
        kind, arg = fault
        if kind == 'missing':
            return {'kind': 'missing', 'how': arg}
        return {'kind': 'sh', 'form': 'file', 'out': f'o{idx}', 'err': f'e{idx}\n', 'first': 'err',
                'exit': arg if kind == 'exit' else 0, 'sig': arg if kind == 'signal' else None}

    def positions():
        for mode in ('direct', 'sched'):
            for n in range(1, 5):
                for pos in range(n):
                    for fault in faults:
                        cmds = [cmd_of(fault if k == pos else None, k) for k in range(n)]
                        yield {'root': 'missing', 'names': ['t', 'other'], 'rounds': [
                            {'mode': mode, 'workers': 2, 'tasks': [
                                {'name': 0, 'ctor': 'clis', 'cmds': cmds},
                                {'name': 1, 'ctor': 'cli', 'cmds': [cmd_of(None, 9)]}]}]}

    def invalid_names():
        bad = ['', '.', '..', 'a/b', '/', 'a/', '@TMP@/esc', '../esc', 'x\x00y', 'x' * 256, 'é' * 128]
        for mode in ('direct', 'sched'):
            for name in bad:
                for ctor in ('cli', 'clis', 'closure'):
                    for second in (False, True):
                        tasks = [{'name': 0, 'ctor': ctor, 'cmds': [cmd_of(None, 0)]},
                                 {'name': 1, 'ctor': 'cli', 'cmds': [cmd_of(None, 1)]}]
                        rounds = [{'mode': mode, 'workers': 1, 'tasks': tasks}]
                        if second:
                            rounds.append({'mode': 'direct', 'workers': 0, 'tasks': list(reversed(tasks))})
                        yield {'root': 'exists', 'names': [name, 'good'], 'rounds': rounds}

    def code_tasks():
        for mode in ('direct', 'sched'):
            for ctor in CODE_CTORS:
                for tool in [None] + MISSING:
                    for pos in ((None, 0, 1) if tool is None else (None,)):
                        for fault in ([None] if pos is None else faults[:5]):
                            cmds = [cmd_of(fault if k == pos else None, k) for k in range(2)]
                            task = {'name': 0, 'ctor': ctor, 'cmds': cmds, 'tool': tool}
                            other = {'name': 1, 'ctor': 'cli', 'cmds': [cmd_of(None, 9)]}
                            yield {'root': 'missing', 'names': ['t', 'other'], 'rounds': [
                                {'mode': mode, 'workers': 2, 'tasks': [task, other]},
                                {'mode': mode, 'workers': 1, 'tasks': [task]}]}
        for fault in [None] + faults[:5]:
            for first, second in (('checkout', 'build'), ('build', 'checkout'), ('build', 'build')):
                tasks = [{'name': 0, 'ctor': first, 'cmds': [cmd_of(None, 0), cmd_of(fault, 1)], 'tool': None},
                         {'name': 1, 'ctor': second, 'cmds': [cmd_of(fault, 0), cmd_of(None, 1)], 'tool': None}]
                yield {'root': 'exists', 'names': ['t', 'other'], 'rounds': [
                    {'mode': 'sched', 'workers': 2, 'tasks': tasks, 'race': 'logdir'}]}

    return [('fault-kind-x-position-n<=4', positions, True),
            ('invalid-names', invalid_names, True),
            ('checkout-build-steps', code_tasks, True)]


# --------------------------------------------------------------------------
# model

INVALID_CLASSES = {'empty', 'dot', 'dotdot', 'nul', 'slash', 'slash-abs', 'slash-up', 'toolong'}


def name_class(name):
    if name == '':
        return 'empty'
    if name == '.':
        return 'dot'
    if name == '..':
        return 'dotdot'
    if '\0' in name:
        return 'nul'
    if '/' in name:
        if name.startswith(('/', '@TMP@')):
            return 'slash-abs'
        return 'slash-up' if '..' in name.split('/') else 'slash'
    if len(name.encode('utf-8')) > 255:
        return 'toolong'
    if name in CAPTURE_NAMES:
        return 'capture-name'
    if re.fullmatch(r'[A-Za-z0-9_]+', name):
        return 'ordinary'
    if any(ch.isspace() for ch in name):
        return 'blank'
    if not name.isascii():
        return 'unicode'
    return 'punct'


_OK_CMD = {'kind': 'sh', 'form': 'inline', 'out': '', 'err': '', 'first': 'out', 'exit': 0, 'sig': None}


def _printf_fmt(text):
    """``text`` as a printf format of sh made of safe characters only (no quote,
    no newline, no '$', no '%')."""
    out = []
    for char in text:
        if char.isascii() and (char.isalnum() or char in ' _.,:+='):
            out.append(char)
        else:
            out.extend('\\%03o' % byte for byte in char.encode('utf-8'))
    return ''.join(out)


def _script(cmd, idx, marker):
    p_out = "printf '%s'" % _printf_fmt(cmd['out'])
    p_err = "printf '%s' >&2" % _printf_fmt(cmd['err'])
    parts = ["printf '%d ' >> '%s'" % (idx, marker)]
    parts += [p_out, p_err] if cmd['first'] == 'out' else [p_err, p_out]
    if cmd['sig']:
        parts.append('kill -s %s $$' % {9: 'KILL', 15: 'TERM'}[cmd['sig']])
        parts.append("printf 'survived' ; printf '%d-survived ' >> '%s'" % (idx, marker))
    parts.append('exit %d' % cmd['exit'])
    return '; '.join(parts)


# seconds granted to each command of a task created with timeout= (the other commands of such a
# task are one-line shell scripts that take milliseconds)
TIMEOUT = 4.0

class Exec:
    """One execution of one task: the command lines and what the model expects."""

    def __init__(self, spec, name):
        self.spec = spec
        self.name = name
        self.cls = name_class(name)
        self.valid = self.cls not in INVALID_CLASSES
        self.ctor = spec['ctor']
        if self.ctor in CODE_CTORS and not (self.valid and '\n' not in name
                                            and len(name.encode('utf-8')) <= 240):
            # the code tasks are driven only with names that are valid file names, also with
            # '.log' appended, and that keep the echoed command line (which shows the
            # directory named after the task) on one line
            self.ctor = 'clis'
        self.cmds = list(spec['cmds'])
        self.tool = None
        if self.ctor in CODE_CTORS:
            # two steps, one tool: an unstartable tool makes both steps unstartable
            self.cmds = (self.cmds + [dict(_OK_CMD), dict(_OK_CMD)])[:2]
            hows = [spec.get('tool')] + [c['how'] for c in self.cmds if c['kind'] == 'missing']
            hows = [h for h in hows if h]
            if hows:
                self.tool = hows[0]
                self.cmds = [{'kind': 'missing', 'how': hows[0]}] * 2
        self.marker = None
        self.clis = []
        self.exp_log = b''
        self.ran = []            # indices of the commands the model runs
        self.codes = []          # their return codes
        self.start_fail = None   # how the first unstartable command (if reached) is unstartable
        self.first_bad = None    # index of the first command that is not a success
        self.exp_out = b''
        self.exp_err = b''
        self.task = None
        self.ctor_exc = None
        self.raised = None
        self.result = None
        self.update = None
        self.status = None
        self.features = set()
        stopped = False
        self.unstartable_after_stop = False
        for idx, cmd in enumerate(self.cmds):
            if cmd['kind'] == 'missing':
                code = None
            else:
                code = -cmd['sig'] if cmd['sig'] else cmd['exit']
            if stopped:
                self.unstartable_after_stop |= code is None
                continue
            if code is None:
                self.start_fail = cmd['how']
                self.first_bad = idx
                stopped = True
                continue
            self.ran.append(idx)
            self.codes.append(code)
            self.exp_out += cmd['out'].encode('utf-8')
            self.exp_err += cmd['err'].encode('utf-8')
            both = [cmd['out'], cmd['err']] if cmd['first'] == 'out' else [cmd['err'], cmd['out']]
            self.exp_log += ''.join(both).encode('utf-8')
            if code != 0:
                self.first_bad = idx
                stopped = True
        ncmd = len(self.cmds)
        if self.first_bad is None:
            self.cause = 'all-zero'
        else:
            cmd = self.cmds[self.first_bad]
            what = ('unstartable' if cmd['kind'] == 'missing' else 'signal' if cmd['sig'] else 'exit')
            self.cause = what + ('-last' if self.first_bad == ncmd - 1 else '-nonlast')
        self.kind = self.cause.rsplit('-', 1)[0] if self.first_bad is not None else 'all-zero'
        self.sig_name = 'valid' if self.valid else self.cls

    def prepare(self, tmp, tag):
        """Write the scripts and build the command lines."""
        self.marker = os.path.join(tmp, 'mark', tag)
        if self.ctor in CODE_CTORS:
            if self.tool:
                self.clis = [self._missing(self.tool, tmp, 0)[:1]]
            else:
                path = os.path.join(tmp, 'scr', f'{tag}_tool')
                with open(path, 'w', encoding='utf-8') as fil:
                    fil.write('#!/bin/sh\ncase "$1" in\ncheckout|--build) %s ;;\n*) %s ;;\nesac\n'
                              % (_script(self.cmds[1], 1, self.marker),
                                 _script(self.cmds[0], 0, self.marker)))
                os.chmod(path, 0o755)
                self.clis = [[path]]
            return
        same = [idx for idx, cmd in enumerate(self.cmds)
                if cmd['kind'] == 'sh' and cmd['form'] == 'same']
        if same:
            # ONE command line for all these commands: a script that counts its calls and
            # behaves as the k-th of them at its k-th call (identical command lines in one task,
            # e.g. the same tool run before and after something else, need not end the same way)
            path = os.path.join(tmp, 'scr', f'{tag}_same.sh')
            count = os.path.join(tmp, 'scr', f'{tag}_same.count')
            with open(path, 'w', encoding='utf-8') as fil:
                fil.write("#!/bin/sh\nn=$(cat '%s' 2>/dev/null || echo 0)\necho $((n+1)) > '%s'\n"
                          'case "$n" in\n' % (count, count))
                for k, idx in enumerate(same):
                    fil.write('%d) %s ;;\n' % (k, _script(self.cmds[idx], idx, self.marker)))
                fil.write('*) exit 99 ;;\nesac\n')
        for idx, cmd in enumerate(self.cmds):
            if cmd['kind'] == 'missing':
                self.clis.append(self._missing(cmd['how'], tmp, idx))
            elif cmd['form'] == 'same':
                self.clis.append(['/bin/sh', path])
            else:
                self.clis.append(self._sh(cmd, idx, tmp, tag))

    def _sh(self, cmd, idx, tmp, tag):
        script = _script(cmd, idx, self.marker)
        if cmd['form'] == 'inline':
            return ['/bin/sh', '-c', script]
        path = os.path.join(tmp, 'scr', f'{tag}_c{idx}.sh')
        with open(path, 'w', encoding='utf-8') as fil:
            fil.write('#!/bin/sh\n' + script + '\n')
        if cmd['form'] == 'file':
            return ['/bin/sh', path]
        os.chmod(path, 0o755)
        return [path, 'an argument', "it's"]

    @staticmethod
    def _missing(how, tmp, idx):
        fix = os.path.join(tmp, 'fx')
        if how == 'abs-missing':
            return [os.path.join(fix, 'nonexistent', 'prog'), 'arg']
        if how == 'rel-missing':
            return ['no-such-command-c19-%d' % idx]
        if how == 'noexec':
            return [os.path.join(fix, 'noexec.sh')]
        if how == 'dir':
            return [os.path.join(fix, 'adir'), '-x']
        if how == 'badformat':
            return [os.path.join(fix, 'badformat')]
        if how == 'nul':
            return ['/bin/sh\0', '-c', 'exit 0']
        if how == 'timeout':
            return ['/bin/sleep', '1000']
        raise ValueError(how)

    def build(self):
        clis, ctor = self.clis, self.ctor
        try:
            if ctor == 'checkout':
                self.task = CheckoutTask(self.name, repository='/nonexistent/repository.git',
                                         flags=['--depth', '1'])
                self.task.GIT = clis[0][0]        # instance attribute: nothing global is changed
            elif ctor == 'build':
                self.task = BuildTask(self.name, source=os.path.dirname(self.marker),
                                      configure_flags=['-DX=1'], targets=['all'])
                self.task.CMAKE = clis[0][0]
            elif any(cmd.get('how') == 'timeout' for cmd in self.cmds):
                self.task = RunTask.from_clis(self.name, clis, timeout=TIMEOUT)
            elif ctor == 'cli' and len(clis) == 1:
                self.task = RunTask.from_cli(self.name, clis[0])
            elif ctor == 'closure':
                self.task = RunTask(self.name, lambda _env, _config: clis)
            elif ctor == 'factory' and len(clis) == 1:
                # final task name = <given name>.f ; self.name was computed accordingly
                factory = RunTaskFactory.from_executable(clis[0][0], name='f')
                self.task = factory.make(name=self.name[:-2], extra_args=list(clis[0][1:]))
            else:
                self.task = RunTask.from_clis(self.name, clis)
        except Exception as exc:     # judged by the caller (allowed for invalid names only)
            self.ctor_exc = exc


def _final_name(spec, names, tmp):
    name = names[spec['name'] % len(names)]
    if spec['ctor'] == 'factory' and len(spec['cmds']) == 1:
        name = name + '.f'
    return name.replace('@TMP@', tmp)


def _plan(case, tmp):
    """The executions of every round (model only; names unique within a round by
    construction: a second task with a name already used in the round is dropped)."""
    plan = []
    for rnd in case['rounds']:
        execs, seen = [], set()
        for spec in rnd['tasks']:
            name = _final_name(spec, case['names'], tmp)
            if name not in seen:
                seen.add(name)
                execs.append(Exec(spec, name))
        plan.append(execs)
    return plan


def _input_labels(case, plan, out):
    """Classes of the *input* (independent of what the code under test does)."""
    lab = out.labels
    lab.append('root-' + case['root'])
    names_so_far = set()
    for rnd, execs in zip(case['rounds'], plan):
        lab.append(rnd['mode'])
        if rnd['mode'] == 'sched' and (rnd.get('workers') or 1) >= 2:
            lab.append('sched-2w')
        for exe in execs:
            lab.append('ctor-' + exe.ctor)
            if exe.ctor in CODE_CTORS:
                lab.append('code-task')
            lab.append('ncmd=%d' % min(len(exe.cmds), 5))
            lab.append('name:' + exe.cls)
            if not exe.valid:
                lab.append('invalid-name')
            if exe.name in names_so_far:
                lab.append('rerun-same-name')
        if _race_wanted(rnd, execs):
            lab.append('logdir-race-requested')
        for exe in execs:
            if exe.cause.endswith('-nonlast'):
                lab.append('fail-nonlast')
                out.nontrivial = True
            lab.append(exe.kind if exe.kind != 'exit' else 'exit-nonzero')
            if exe.kind == 'unstartable':
                lab.append('unstartable:' + exe.start_fail)
                if exe.cause.endswith('-nonlast'):
                    lab.append('unstartable-nonlast')
            if exe.ctor not in CODE_CTORS:
                lab.extend('form-' + c['form'] for c in exe.cmds if c['kind'] == 'sh')
                if sum(c['kind'] == 'sh' and c['form'] == 'same' for c in exe.cmds) >= 2:
                    lab.append('identical-command-lines')
        names_so_far |= {exe.name for exe in execs}
        folded = {}
        for exe in execs:
            folded.setdefault(re.sub(r'[\s/_.]+', '', exe.name).lower(), set()).add(exe.name)
        if any(len(v) > 1 for v in folded.values()):
            lab.append('confusable-names')
    if sum(len(execs) for execs in plan) >= 2:
        lab.append('multi-task-root')
        out.nontrivial = True
    if len(plan) > 1:
        lab.append('multi-round')


def _read(path):
    with open(path, 'rb') as fil:
        return fil.read()


_ECHO = re.compile(rb'\$ [^\n]*\n')


def _strip_echo(data):
    return _ECHO.sub(b'', data)


def _inside(path, parent):
    """True if ``path`` is a strict descendant of ``parent`` (both real paths)."""
    return path != parent and os.path.commonpath([path, parent]) == parent


def _short(data, limit=80):
    return repr(data if len(data) <= limit else data[:limit] + b'...')


# --------------------------------------------------------------------------
# execution

class _LogDirRace:
    """Forces one legal interleaving of two workers that both need a directory that does not
    exist yet: the first ``exists()`` on it answers False and the directory is then created (by
    "the other worker", which had also seen it missing) before the caller goes on.  Done by giving
    valjean.path a Path class whose exists() does that, once, for that directory only."""

    def __init__(self, directory):
        self.directory = directory
        self.fired = False
        self.lock = threading.Lock()
        self.saved = None

    def __enter__(self):
        race = self

        class RacyPath(type(pathlib.Path())):
            def exists(self, **kwargs):
                if str(self) != race.directory:
                    return super().exists(**kwargs)
                with race.lock:
                    res = super().exists(**kwargs)
                    if not res and not race.fired:
                        race.fired = True
                        os.makedirs(race.directory, exist_ok=True)
                    return res

        self.saved = vpath.Path
        vpath.Path = RacyPath
        return self

    def __exit__(self, *exc):
        vpath.Path = self.saved
        return False


class _NoRace:
    fired = False

    def __enter__(self):
        return self

    def __exit__(self, *exc):
        return False


def _race_wanted(rnd, execs):
    return (rnd.get('race') == 'logdir' and rnd['mode'] == 'sched' and (rnd.get('workers') or 1) >= 2
            and sum(exe.ctor in CODE_CTORS for exe in execs) >= 2)


def _schedule(tasks, workers, config, box):
    try:
        graph = DepGraph.from_dependency_dictionary({task: set() for task in tasks})
        sched = Scheduler(hard_graph=graph, backend=QueueScheduling(n_workers=workers))
        box['env'] = sched.schedule(config=config, env=Env())
    except Exception as exc:     # the property: the run itself must not fail
        box['exc'] = exc


def run_case(case):
    out = Outcome(evals=0)
    tmp = tempfile.mkdtemp(prefix='vv-c19-', dir=TMPBASE)
    try:
        _history(case, tmp, out)
    finally:
        shutil.rmtree(tmp, ignore_errors=True)
    out.evals = max(out.evals, 1)
    out.labels = sorted(set(out.labels))
    return out


def _fixtures(tmp):
    for sub in ('scr', 'mark', 'fx', 'fx/adir'):
        os.mkdir(os.path.join(tmp, sub))
    with open(os.path.join(tmp, 'fx', 'noexec.sh'), 'w') as fil:
        fil.write('#!/bin/sh\nexit 0\n')
    os.chmod(os.path.join(tmp, 'fx', 'noexec.sh'), 0o644)
    with open(os.path.join(tmp, 'fx', 'badformat'), 'wb') as fil:
        fil.write(b'\x00\x01\x02 not a program\n')
    os.chmod(os.path.join(tmp, 'fx', 'badformat'), 0o755)


def _history(case, tmp, out):
    tmp = os.path.realpath(tmp)
    _fixtures(tmp)
    root = os.path.join(tmp, 'out')
    if case['root'] == 'exists':
        os.mkdir(root)
    elif case['root'] == 'deep-missing':
        root = os.path.join(root, 'deep', 'er')
    config = Config({'path': {'output-root': root, 'log-root': os.path.join(tmp, 'fx', 'log'),
                              'report-root': os.path.join(tmp, 'fx', 'report')}})
    plan = _plan(case, tmp)
    _input_labels(case, plan, out)
    state = {'last': {}, 'owners': {}, 'loose': set(), 'tainted': False, 'root_is_task_dir': False}
    for rnd_idx, (rnd, execs) in enumerate(zip(case['rounds'], plan)):
        for t_idx, exe in enumerate(execs):
            exe.prepare(tmp, f'r{rnd_idx}t{t_idx}')
            exe.build()
        runnable = [exe for exe in execs if exe.task is not None]
        out.evals += len(execs)
        mode = rnd['mode']
        sched_problem = None
        if mode == 'direct':
            for exe in runnable:
                try:
                    exe.result = exe.task.do(env={}, config=config)
                except Exception as exc:   # judged below: allowed only for start-up failures
                    exe.raised = exc       # and invalid names
        elif runnable:
            workers = rnd.get('workers') or 1
            box = {}
            thread = threading.Thread(target=_schedule, daemon=True,
                                      args=([exe.task for exe in runnable], workers, config, box))
            race = (_LogDirRace(os.path.join(tmp, 'fx', 'log')) if _race_wanted(rnd, execs)
                    else _NoRace())
            with race:
                thread.start()
                thread.join(HANG_S)
            if race.fired:
                out.labels.append('logdir-race-forced')
            cause = ('unstartable-command' if any(exe.kind == 'unstartable' for exe in runnable)
                     else 'invalid-name' if any(not exe.valid for exe in runnable) else 'plain')
            if thread.is_alive():
                sched_problem = Failure('sched_hangs', f'C19/sched_hangs/{cause}',
                                        f'schedule() did not return within {HANG_S} s')
            elif 'exc' in box:
                sched_problem = exc_failure('schedule_raises', box['exc'], cause)
            else:
                env = box['env']
                for exe in runnable:
                    exe.result = ('sched', env.get(exe.name))
        if sched_problem is not None:
            out.failures.append(sched_problem)
            out.labels.append('stopped-after-scheduler-failure')
            break
        _judge_round(execs, mode, root, tmp, state, out)
        for exe in execs:
            out.labels.extend(exe.features)
        if state['tainted']:
            out.labels.append('stopped-after-shared-directory')
            break


def _status_name(status):
    return getattr(status, 'name', None) or repr(status)


def _judge_round(execs, mode, root, tmp, state, out):
    fails = []      # (exe, Failure)
    executed = set()
    for exe in execs:
        if exe.ctor in CODE_CTORS:
            _judge_code(exe, mode, tmp, fails)
            continue
        executed.add(exe.name)
        _judge_exec(exe, mode, root, tmp, state, fails)
    # tasks of earlier rounds that were not executed now: their files must be untouched
    for name, rec in sorted(state['last'].items()):
        if name in executed:
            continue
        for stream in ('stdout', 'stderr'):
            path, exp = rec[stream]
            try:
                got = _read(path)
            except OSError as exc:
                got = b'<unreadable: ' + type(exc).__name__.encode() + b'>'
            if stream == 'stderr':
                got = _strip_echo(got)
            if got != exp:
                fails.append((None, Failure(
                    'foreign_write', 'C19/foreign_write',
                    f'{stream} of task {name!r} (not run in this round) changed: {_short(got)} '
                    f'expected {_short(exp)}')))
    # every file below the scratch area belongs to exactly one task directory
    owners = set(state['owners']) | state['loose']
    fixtures = tuple(os.path.join(tmp, sub) + os.sep for sub in ('scr', 'mark', 'fx'))
    stray = []
    for dirpath, _dirs, files in os.walk(tmp):
        for fname in files:
            path = os.path.join(dirpath, fname)
            if path.startswith(fixtures):
                continue
            if not any(os.path.dirname(path) == own or _inside(path, own) for own in owners):
                stray.append(path)
    if stray:
        # attribute the files to the tasks of this round whose name, taken literally as a path
        # below the root, designates the directory the files are in
        state['tainted'] = True
        real_root = os.path.realpath(root)
        where = {os.path.dirname(path) for path in stray}
        blamed = {exe.sig_name for exe in execs if '\0' not in exe.name
                  and os.path.normpath(os.path.join(real_root, exe.name)) in where}
        if not blamed:     # a task whose name is rejected up front writes nothing
            blamed = {'valid'} if any(exe.valid for exe in execs) else {exe.sig_name for exe in execs}
        kind = ('not-below-root' if any(not _inside(d, real_root) for d in where) else 'stray')
        fails.append((None, Failure(
            'own_dir', f'C19/own_dir/{kind}/name=' + '+'.join(sorted(blamed)),
            f'file(s) outside every task directory: {sorted(stray)[:4]} (root {root})')))
    consequences = ('stdout_content', 'stderr_content', 'capture_read', 'foreign_write')
    for exe, fail in fails:
        if state['tainted'] and fail.clause in consequences:
            # two tasks were found sharing a directory (reported as own_dir): what the files
            # hold is a consequence of that
            out.labels.append('content-clauses-skipped-after-shared-directory')
            continue
        if (state['root_is_task_dir'] and exe is not None and exe.name in CAPTURE_NAMES
                and fail.clause != 'own_dir'):
            out.excluded += 1      # consequence of another task having used the root itself
            continue
        out.failures.append(fail)


def _judge_code(exe, mode, tmp, fails):
    """CheckoutTask / BuildTask (valid names only): status, which steps ran, log content."""
    def fail(clause, sig, detail):
        fails.append((exe, Failure(clause, f'C19/{sig}/code-task',
                                   f'{exe.ctor} task {exe.name!r} [{mode}]: {detail}')))

    if exe.task is None:
        fails.append((exe, exc_failure('ctor_raises', exe.ctor_exc, 'code-task')))
        return
    status, update, raised = None, None, exe.raised
    key = 'checkout_log' if exe.ctor == 'checkout' else 'build_log'
    if mode == 'direct':
        if raised is None:
            res = exe.result
            if not (isinstance(res, tuple) and len(res) == 2):
                fail('result_shape', 'result_shape', f'do() returned {res!r:.200}')
                return
            env_up, status = res
            update = env_up.get(exe.name) if isinstance(env_up, Mapping) else None
    else:
        entry = exe.result[1]
        if not isinstance(entry, dict) or 'status' not in entry:
            fail('no_status', f'no_status/{exe.kind}', f'no status in the environment: {entry!r:.200}')
            return
        status = entry['status']
        update = entry if key in entry else None
    try:
        marks = _read(exe.marker).decode().split()
    except FileNotFoundError:
        marks = []
    ran_ok = marks == [str(i) for i in exe.ran]
    if not ran_ok and not marks and (raised is not None or (status == TaskStatus.FAILED
                                                            and update is None)):
        fail('spurious_failure', 'spurious_failure',
             f'the task failed ({raised!r:.150}) before running any step although its tool can be '
             f'started (steps expected: {exe.ran})')
        return
    if not ran_ok:
        extra = 'later-commands-ran' if len(marks) > len(exe.ran) else 'commands-missing'
        fail('commands_run', f'commands_run/{extra}/{exe.kind}',
             f'steps that ran: {marks}, expected {exe.ran} ({exe.cause})')
        return
    if exe.start_fail is not None:
        if mode == 'direct' and raised is not None:
            exe.features.add('unstartable-raises-in-do')
        elif status != TaskStatus.FAILED:
            how = {'nul': 'nul-in-command', 'timeout': 'timeout'}.get(exe.start_fail, 'os-refuses')
            fail('start_failure', f'start_failure/got={_status_name(status)}/{how}',
                 f'the tool cannot be started but the task is {status}')
    elif raised is not None:
        fails.append((exe, exc_failure('do_raises', raised, f'{exe.kind}/code-task')))
        return
    else:
        expected = TaskStatus.DONE if exe.cause == 'all-zero' else TaskStatus.FAILED
        if status != expected:
            fail('status', f'status/exp={expected.name}/got={_status_name(status)}/{exe.cause}',
                 f'codes per model {exe.codes}, status {status}')
        elif update is None:
            fail('update_missing', f'update_missing/{exe.kind}', 'no environment update')
    path = update.get(key) if update is not None else os.path.join(tmp, 'fx', 'log', exe.name + '.log')
    if isinstance(path, str) and os.path.isfile(path):
        got = _strip_echo(_read(path))
        if got != exe.exp_log:
            fail('log_content', 'capture_content/log',
                 f'{path} holds {_short(got)}, the steps wrote {_short(exe.exp_log)}')
    elif update is not None:
        fail('capture_path', 'capture_path/missing-log', f'no log file at {path!r}')


def _judge_exec(exe, mode, root, tmp, state, fails):
    def fail(clause, sig, detail):
        fails.append((exe, Failure(clause, f'C19/{sig}', f'task {exe.name!r} [{mode}]: {detail}')))

    rerun = 'rerun' if exe.name in state['last'] else 'fresh'
    state['last'].pop(exe.name, None)
    guess_dir = os.path.join(root, exe.name) if exe.valid else None

    # ---- construction
    if exe.task is None:
        if exe.valid:
            fails.append((exe, exc_failure('ctor_raises', exe.ctor_exc, 'name=' + exe.sig_name)))
        else:
            exe.features.add('invalid-name-rejected-at-construction')
        return

    # ---- what did the task report?
    status, update, raised = None, None, exe.raised
    if mode == 'direct':
        if raised is None:
            res = exe.result
            if not (isinstance(res, tuple) and len(res) == 2):
                fail('result_shape', 'result_shape', f'do() returned {res!r:.200}')
                return
            env_up, status = res
            update = env_up.get(exe.name) if isinstance(env_up, Mapping) else None
    else:
        entry = exe.result[1]
        if not isinstance(entry, dict) or 'status' not in entry:
            fail('no_status', f'no_status/{exe.kind}/name={exe.sig_name}',
                 f'no status in the scheduled environment: {entry!r:.200}')
            return
        status = entry['status']
        update = entry if 'stdout' in entry or 'return_codes' in entry else None
    exe.status = status
    completed = raised is None and update is not None

    # ---- clean failure of a task with an invalid name
    if not exe.valid and not completed:
        if raised is not None or status == TaskStatus.FAILED:
            exe.features.add('invalid-name-fails-cleanly')
            return
        group = exe.cls if exe.cls in ('empty', 'toolong') else 'forbidden-characters'
        fail('invalid_name', f'invalid_name/status={_status_name(status)}/name={group}',
             f'status {status} without any environment update')
        return

    # ---- which commands ran (written by the commands themselves); everything else the task
    # reports is a function of that, so a wrong set of commands is reported alone
    try:
        marks = _read(exe.marker).decode().split()
    except FileNotFoundError:
        marks = []
    ran_ok = marks == [str(i) for i in exe.ran]
    failed_early = raised is not None or (status == TaskStatus.FAILED and update is None)
    if ran_ok and exe.start_fail is None and exe.unstartable_after_stop and failed_early:
        # the list goes on, after the command that ends it, with one that cannot be started
        # (which leaves no mark): a start-up failure here means that the list was not ended
        ran_ok = False
        fail('commands_run', f'commands_run/later-commands-ran/{exe.kind}',
             f'start-up failure ({raised!r:.150}) although the list ends at command '
             f'{exe.first_bad} ({exe.cause}); only later commands cannot be started')
    elif not ran_ok:
        extra = 'later-commands-ran' if len(marks) > len(exe.ran) else 'commands-missing'
        if any('survived' in m for m in marks):
            extra = 'signal-survived'      # would be a defect of the harness script, not of valjean
        fail('commands_run', f'commands_run/{extra}/{exe.kind}',
             f'commands that ran: {marks}, expected {exe.ran} (first failing command: '
             f'{exe.first_bad}, {exe.cause})')

    # ---- status
    if not ran_ok:
        pass
    elif exe.start_fail is not None:
        if mode == 'direct' and raised is not None:
            exe.features.add('unstartable-raises-in-do')
        elif status != TaskStatus.FAILED:
            how = {'nul': 'nul-in-command', 'timeout': 'timeout'}.get(exe.start_fail, 'os-refuses')
            fail('start_failure', f'start_failure/got={_status_name(status)}/{how}',
                 f'command {exe.first_bad} cannot be started but the task is {status}')
    else:
        if raised is not None:
            fails.append((exe, exc_failure('do_raises', raised, f'{exe.kind}/name={exe.sig_name}')))
        else:
            expected = TaskStatus.DONE if exe.cause == 'all-zero' else TaskStatus.FAILED
            if status != expected:
                fail('status', f'status/exp={expected.name}/got={_status_name(status)}/{exe.cause}',
                     f'codes per model {exe.codes}, status {status}')
            elif update is None:
                fail('update_missing', f'update_missing/{exe.kind}',
                     'the task ran but proposed no environment update')
    if raised is not None and exe.start_fail is None or not ran_ok and update is None:
        if guess_dir and os.path.isdir(guess_dir):
            state['owners'].setdefault(os.path.realpath(guess_dir), exe.name)
        if raised is not None and exe.start_fail is None:
            return

    # ---- return codes
    if update is not None and ran_ok:
        codes = update.get('return_codes', None)
        if codes is None:
            if exe.start_fail is None:
                fail('return_codes', 'return_codes/missing', f'no return_codes in {sorted(update)}')
        elif list(codes) != exe.codes:
            fail('return_codes', f'return_codes/{exe.kind}',
                 f'recorded {list(codes)!r:.120}, commands run returned {exe.codes}')

    # ---- captured output and its location
    paths = {}
    if update is not None:
        for stream in ('stdout', 'stderr'):
            if isinstance(update.get(stream), str):
                paths[stream] = os.path.realpath(update[stream])
            else:
                fail('capture_path', f'capture_path/missing-{stream}',
                     f'no {stream} path in the update ({sorted(update)})')
    elif guess_dir and os.path.isdir(guess_dir):
        # the task failed before reporting: look where the documentation says the files are
        for stream in ('stdout', 'stderr'):
            path = os.path.join(guess_dir, stream)
            if os.path.isfile(path):
                paths[stream] = os.path.realpath(path)
        state['owners'].setdefault(os.path.realpath(guess_dir), exe.name)
        exe.features.add('unstartable-files-found-by-location')
    if len(paths) == 2 and paths['stdout'] == paths['stderr']:
        fail('capture_path', 'capture_path/same-file', f'both streams captured in {paths["stdout"]}')

    real_root = os.path.realpath(root)
    dirs = sorted({os.path.dirname(p) for p in paths.values()})
    for dname in dirs:
        why = None
        if not _inside(dname, real_root):
            why = 'not-below-root'
            state['root_is_task_dir'] |= dname == real_root
        else:
            for other_dir, other in state['owners'].items():
                if other == exe.name:
                    continue
                if other_dir == dname:
                    why = 'shared-with-other-task'
                elif _inside(dname, other_dir) or _inside(other_dir, dname):
                    why = why or 'nested-in-other-task'
        if why:
            state['tainted'] = True
            others = {d: n for d, n in state['owners'].items() if n != exe.name}
            fail('own_dir', f'own_dir/{why}/name={exe.sig_name}',
                 f'capture directory {dname} (root {real_root}); directories of other tasks: '
                 f'{others}'[:400])
        if why == 'not-below-root':
            state['loose'].add(dname)     # already reported; only used to attribute files
        else:
            state['owners'].setdefault(dname, exe.name)

    if ran_ok and not (len(paths) == 2 and paths['stdout'] == paths['stderr']):
        rec = {}
        for stream, exp in (('stdout', exe.exp_out), ('stderr', exe.exp_err)):
            if stream not in paths:
                continue
            try:
                got = _read(paths[stream])
            except OSError as exc:
                fail('capture_read', f'capture_read/{stream}/{type(exc).__name__}', str(exc))
                continue
            if stream == 'stderr':
                got = _strip_echo(got)
            if got != exp:
                fail(f'{stream}_content', f'capture_content/{rerun}',
                     f'{paths[stream]} holds {_short(got)}, the commands wrote {_short(exp)}')
            rec[stream] = (paths[stream], got)    # as seen now: must stay so while not re-run
        if len(rec) == 2:
            state['last'][exe.name] = rec


def _runs_empty_name(case, _failure):
    """A RunTask whose name is the empty string is executed in the case."""
    names = case['names']
    return any(names[t['name'] % len(names)] == ''
               and not (t['ctor'] == 'factory' and len(t['cmds']) == 1)    # that one is named '.f'
               for rnd in case['rounds'] for t in rnd['tasks'])


# only used if the defect is recorded as a known finding instead of being repaired
# (signature C19/own_dir/not-below-root/name=empty); cases without such a task stay strict
KNOWN_PREDICATES = {'runtask_with_empty_name': _runs_empty_name,
                    # signature C19/spurious_failure/code-task
                    'logdir_race_forced': lambda case, _failure: any(
                        rnd.get('race') == 'logdir' for rnd in case['rounds'])}


MANIFEST = {
    'text': ('Generated histories (Hypothesis) of RunTask executions sharing one output root: 1-3 rounds '
             'of 1-4 tasks with 1-5 real /bin/sh commands each (generated exit status 0-255, death by '
             'signal, text on both streams, six kinds of unstartable executable at any position), run '
             'through task.do and through Scheduler with 1-2 real worker threads, with ordinary, odd, '
             'confusable and invalid task names and re-runs of a name; one task in seven is a '
             'CheckoutTask/BuildTask driven with a generated script in place of git/cmake. All (list '
             'length<=4, failing position, fault kind) x {direct, scheduled}, all invalid names x '
             'constructors and all (step, fault) of the checkout/build tasks are enumerated exhaustively. Oracle = model "run in order, stop at first non-zero" over the '
             'generated statuses/texts, marker file appended by the commands themselves (which commands '
             'really ran), byte comparison of the capture files, and a scan of the whole scratch tree '
             '(every file lies in the directory of exactly one task, strictly below the root, no two '
             'names share or nest directories, files of tasks not run in a round are unchanged). '
             'Exploration, not proof.'),
    'note': ('Real processes and real threads: the interleaving of two workers is whatever the OS gives '
             '(the per-task results are interleaving-independent). Echo lines "$ ..." of RunTask are '
             'stripped from stderr, so their presence/format is not checked. CheckoutTask/BuildTask '
             'are driven with a fake tool and valid names only (real git/cmake are not run). '
             'Return codes of a task whose command could not be started are compared only if recorded.'),
    'technique': ('property-based testing of operation histories (Hypothesis) + exhaustive enumeration of '
                  'fault positions, reference-model oracle with side-channel marker files'),
    'design_ref': 'DESIGN.md section 3, C19',
}
