"""C07 -- the chi-square comparison reports, per compared dataset, the sum over
the used bins of (difference / quadratic error)^2, the number of used bins as
degrees of freedom and the upper-tail probability of the chi-square law; the
verdict is true exactly when every probability exceeds the level; with
ignore_empty exactly the bins with two zero errors are left out."""
import math
import os

import numpy as np
from hypothesis import strategies as st

from valjean.gavroche.stat_tests.chi2 import TestChi2
from vlib.core import Failure, Outcome, exc_failure, HarnessError
from vlib import dsutil, dist, statgen
from vlib.statgen import close

ID = 'C07'
LEVEL = 'exploration'
RULE = ('case = reference dataset + 1-3 compared datasets of one shape (() to 3-D, 1-5 cells per '
        'dimension, shared bins or none), alpha in (0,1), ignore_empty in {False, True}, one '
        'permutation of the flattened bins. Errors follow a generated zero pattern (both zero / one '
        'zero / none; per-case zero rate 0, 20 or 50 %); values are placed at z*q from the reference '
        'value with a per-dataset spread (so that p-values cover (0,1)), equal to it, or free; NaN '
        'and +-inf in values and errors only when ignore_empty is off. Oracle: plain-float reference '
        '(math.fsum of (d/q)^2 over the used bins, IEEE semantics) + independent chi-square upper '
        'tail (vlib/dist.py). non-trivial = (ignore_empty and some dataset has >= 1 bin left out '
        'and >= 1 bin used) or (>= 2 datasets with different reference verdicts) or a special value '
        '(NaN / inf input, or a NaN / inf statistic); distinct = structural hash of the case')
ASSUMPTIONS = [
    'finite non-zero values and errors have magnitude in [1e-140, 1e140] (plus, in a sixth of the cases, '
    'errors of 1e-170 .. 5e-324 whose squares underflow: such bins are not empty); errors are non-negative; '
    'NaN and infinities are generated only with ignore_empty=False (quantifier of the property)',
    'two cases in seven without special values hold integer values stored as int32 (|v| <= 1e9) or '
    'int64 (|v| <= 1e15): neither the values nor their differences leave the dtype',
    'reference law: vlib/dist.py gamma_q (series + Lentz continued fraction), validated in setup() '
    'against tabulated values; agreement with scipy measured at <= 2e-13 relative',
    'tolerances: statistic 1e-9 relative; p-value 1e-6 relative / 1e-300 absolute, computed from '
    'the statistic the code reports; the verdict of a dataset whose p-value is within 1e-6 '
    '(relative) of alpha is not judged (counted as excluded)',
    'when every bin of a dataset is left out (ndf = 0) only the statistic (0) and ndf (0) are '
    'asserted: the property claims nothing about the probability or the verdict there',
]
_SHRINK = os.environ.get('VERIF_SHRINK_S')        # shorter shrinking for sensitivity runs
BUDGET = {'quick': {'cases': 16000, 'shards': 16, 'seconds': 120,
                    'shrink_s': int(_SHRINK or 45)},
          'thorough': {'cases': 300000, 'shards': 16, 'seconds': 900,
                       'shrink_s': int(_SHRINK or 60)}}
FLOORS = {'ignore-empty': 0.3, 'ignore-off': 0.3, 'mixed-zero-pattern': 0.06,
          'all-left-out': 0.005, 'datasets-differ': 0.03, 'special-input': 0.08,
          'nan-statistic': 0.04, 'inf-statistic': 0.02, 'verdict-true': 0.2,
          'verdict-false': 0.2, 'p-in-(1e-6,1-1e-6)': 0.25, 'scalar': 0.05,
          'multi-dataset': 0.3}

TOL_STAT = 1e-9
TOL_PVALUE = 1e-6
ABS_PVALUE = 1e-300
BAND = 1e-6


def setup(tier):
    bad = dist.selftest()
    if bad:
        raise HarnessError('vlib.dist selftest failed: ' + '; '.join(bad))


# ---------------------------------------------------------------- generator

@st.composite
def _case(draw):
    shape = draw(statgen.shapes())
    kinds = statgen.kinds_for(draw, shape)
    size = statgen.size_of(shape)
    nds = draw(st.sampled_from([1, 1, 2, 3]))
    alpha = draw(statgen.alphas())
    ignore = draw(st.booleans())
    special = 0 if ignore else draw(st.sampled_from([0, 0, 0, 30, 100]))
    zero = draw(st.sampled_from([0, 200, 500, 900] if ignore else [0, 0, 0, 100, 400]))
    # errors so small that their squares underflow to 0 although they are not zero: such a
    # bin is NOT empty (its statistic is d/0 = inf or 0/0 = nan, by IEEE arithmetic)
    tiny = draw(st.integers(0, 5)) == 0

    def err(val):
        if tiny and draw(st.integers(0, 3)) == 0:
            return draw(st.sampled_from(TINY_ERRORS))
        return statgen.error(draw, val, special, zero)
    # integer-valued datasets (counts, tallies stored as int32 / int64): magnitudes such that
    # neither the values nor their differences leave the dtype, and exact as floats
    vdtype = draw(st.sampled_from([None] * 5 + ['i4', 'i8'])) if not special else None
    if vdtype:
        vmax = 10 ** 9 if vdtype == 'i4' else 10 ** 15
        return _int_case(draw, shape, kinds, size, nds, alpha, ignore, err, vdtype, vmax)
    refv = [statgen.value(draw, special) for _ in range(size)]
    refe = [err(v) for v in refv]
    others = []
    for _ in range(nds):
        spread = draw(st.sampled_from([0.3, 0.8, 1.0, 1.3, 2.0, 4.0]))
        wild = draw(st.integers(0, 7)) == 0          # some bins get an unrelated value
        vals, errs = [], []
        for v1, e1 in zip(refv, refe):
            e2 = err(v1)
            q = math.hypot(e1, e2) if not (math.isnan(e1) or math.isnan(e2)) else math.nan
            mode = draw(st.integers(0, 19))
            if mode == 0 and wild:
                v2 = statgen.value(draw, special)
            elif not (math.isfinite(q) and q > 0.0 and math.isfinite(v1)):
                v2 = v1 if draw(st.booleans()) else statgen.value(draw, special)
            elif mode <= 2:
                v2 = v1
            else:
                v2 = statgen.clamp(v1 + spread * draw(st.floats(-2.0, 2.0)) * q)
            vals.append(v2)
            errs.append(e2)
        others.append({'v': vals, 'e': errs})
    perm = draw(st.permutations(list(range(size))))
    return {'shape': shape, 'kinds': kinds, 'ref': {'v': refv, 'e': refe}, 'others': others,
            'alpha': alpha, 'ignore_empty': ignore, 'perm': list(perm),
            'layout': draw(st.sampled_from(dsutil.LAYOUTS))}


def _int_case(draw, shape, kinds, size, nds, alpha, ignore, err, vdtype, vmax):
    def ival():
        expo = draw(st.integers(0, len(str(vmax)) - 1))
        return draw(st.integers(-min(10 ** expo, vmax), min(10 ** expo, vmax)))
    refv = [ival() for _ in range(size)]
    refe = [err(float(v)) for v in refv]
    others = []
    for _ in range(nds):
        spread = draw(st.sampled_from([0.3, 0.8, 1.0, 1.3, 2.0, 4.0]))
        vals, errs = [], []
        for v1, e1 in zip(refv, refe):
            e2 = err(float(v1))
            q = math.hypot(e1, e2)
            mode = draw(st.integers(0, 19))
            if mode == 0:
                v2 = ival()
            elif mode <= 2 or not q > 0.0:
                v2 = v1
            else:
                step = spread * draw(st.floats(-2.0, 2.0)) * q
                v2 = v1 + int(max(-2.0 * vmax, min(2.0 * vmax, step)))
                if v2 == v1 and step:
                    v2 = v1 + (1 if step > 0 else -1)
                v2 = max(-vmax, min(vmax, v2))
            vals.append(v2)
            errs.append(e2)
        others.append({'v': vals, 'e': errs})
    perm = draw(st.permutations(list(range(size))))
    return {'shape': shape, 'kinds': kinds, 'ref': {'v': refv, 'e': refe}, 'others': others,
            'alpha': alpha, 'ignore_empty': ignore, 'perm': list(perm), 'vdtype': vdtype,
            'layout': draw(st.sampled_from(dsutil.LAYOUTS))}


def strategy(tier):
    return _case()


# ------------------------------------------------------------------- oracle

def _ieee_div(num, den):
    if math.isnan(num) or math.isnan(den):
        return math.nan
    if den == 0.0:
        if num == 0.0:
            return math.nan
        return math.copysign(math.inf, num) * math.copysign(1.0, den)
    if math.isinf(num) and math.isinf(den):
        return math.nan
    return num / den


def _reference(refv, refe, othv, othe, ignore):
    """(statistic, ndf, left_out) of one compared dataset."""
    terms, left = [], 0
    for v1, e1, v2, e2 in zip(refv, refe, othv, othe):
        if ignore and e1 == 0.0 and e2 == 0.0:
            left += 1
            continue
        tval = _ieee_div(v1 - v2, math.sqrt(e1 * e1 + e2 * e2))
        terms.append(tval * tval)
    if any(math.isnan(t) for t in terms):
        stat = math.nan
    elif any(math.isinf(t) for t in terms):
        stat = math.inf
    else:
        try:
            stat = math.fsum(terms)
        except OverflowError:
            stat = math.inf
    return stat, len(terms), left


TINY_ERRORS = [1e-170, 1e-200, 5e-324, 2.5e-162]


def _domain_ok(case):
    if not 0.0 < case['alpha'] < 1.0:
        return False
    size = statgen.size_of(case['shape'])
    special = not case['ignore_empty']
    for dset in [case['ref']] + list(case['others']):
        if len(dset['v']) != size or len(dset['e']) != size:
            return False
        if not all(statgen.in_domain(x, special) for x in dset['v']):
            return False
        if not all((statgen.in_domain(x, special) or x in TINY_ERRORS) and not x < 0.0
                   for x in dset['e']):
            return False
    return 1 <= len(case['others']) <= 3 and sorted(case['perm']) == list(range(size))


def _conj(flags):
    if any(f is False for f in flags):
        return False
    if any(f is None for f in flags):
        return None
    return True


def run_case(case):
    with np.errstate(all='ignore'):
        return _run_case(case)


def _evaluate(case, shape, kinds, ref, oths):
    lay = case.get('layout', 'C')
    vdt = case.get('vdtype')
    rds = statgen.make_dataset(shape, kinds, ref['v'], ref['e'], 'ref', lay, vdt)
    ods = [statgen.make_dataset(shape, kinds, o['v'], o['e'], f'o{i}', lay, vdt)
           for i, o in enumerate(oths)]
    return _evaluate_ds(case, rds, ods)


def _evaluate_ds(case, rds, ods):
    test = TestChi2(rds, *ods, name='c07', alpha=case['alpha'],
                    ignore_empty=case['ignore_empty'])
    res = test.evaluate()
    return {'chi2': [float(x) for x in res.chi2], 'ndf': [int(x) for x in res.test.ndf],
            'ndf_raw': list(res.test.ndf),
            'pvalue': [float(x) for x in res.pvalue], 'verdict': bool(res),
            'oracles': statgen.flat_bool(res.oracles())}


def _run_case(case):
    out = Outcome()
    if not _domain_ok(case):
        raise HarnessError('case outside the domain of C07')
    shape, kinds, alpha, ignore = case['shape'], case['kinds'], case['alpha'], case['ignore_empty']
    size = statgen.size_of(shape)
    nds = len(case['others'])
    kind = 'scalar' if not shape else 'array'
    mode = 'ie=on' if ignore else 'ie=off'
    refv, refe = case['ref']['v'], case['ref']['e']
    out.labels += [kind, f'ndim={len(shape)}', 'ignore-empty' if ignore else 'ignore-off',
                   'multi-dataset' if nds > 1 else 'single-dataset']
    if case.get('vdtype'):
        out.labels.append('integer-values-' + case['vdtype'])

    refs = [_reference(refv, refe, o['v'], o['e'], ignore) for o in case['others']]
    special_in = any(math.isnan(x) or math.isinf(x)
                     for d in [case['ref']] + list(case['others']) for x in d['v'] + d['e'])
    if special_in:
        out.labels.append('special-input')
    if any(x in TINY_ERRORS for dset in [case['ref']] + list(case['others']) for x in dset['e']):
        out.labels.append('underflowing-error')
    mixed = any(left and ndf for _s, ndf, left in refs)
    if mixed:
        out.labels.append('mixed-zero-pattern')
    if any(ndf == 0 for _s, ndf, _l in refs):
        out.labels.append('all-left-out')
    if any(math.isnan(s) for s, _n, _l in refs):
        out.labels.append('nan-statistic')
    if any(math.isinf(s) for s, _n, _l in refs):
        out.labels.append('inf-statistic')

    try:
        got = _evaluate(case, shape, kinds, case['ref'], case['others'])
    except Exception as exc:  # every input of the domain must be evaluated
        out.failures.append(exc_failure('evaluate_raises', exc, f'{kind}/{mode}'))
        return out
    if not (len(got['chi2']) == len(got['ndf']) == len(got['pvalue']) == len(got['oracles'])
            == nds):
        out.failures.append(Failure('result_shape', f'C07/result_shape/{kind}',
                                    f'{nds} datasets but chi2/ndf/pvalue/oracles have lengths '
                                    f'{len(got["chi2"])}/{len(got["ndf"])}/{len(got["pvalue"])}/'
                                    f'{len(got["oracles"])}'))
        return out

    passes = []          # reference verdict per dataset: True / False / None (not judged)
    pvals_ref = []
    for i, (stat, ndf, left) in enumerate(refs):
        feat = f'{mode}/{kind}/' + ('some-left-out' if left else 'none-left-out')
        where = f'dataset {i} ({ndf} used, {left} left out of {size} bins)'
        # number of degrees of freedom = number of used bins
        if got['ndf'][i] != ndf or got['ndf_raw'][i] != ndf:
            out.failures.append(Failure('ndf', f'C07/ndf/{feat}',
                                        f'{where}: ndf {got["ndf_raw"][i]!r}, expected {ndf}'))
        # statistic
        sgot = got['chi2'][i]
        stat_ok = close(sgot, stat, TOL_STAT)
        if not stat_ok:
            cls = 'nan' if math.isnan(stat) else 'inf' if math.isinf(stat) else 'finite'
            out.failures.append(Failure('statistic', f'C07/statistic/{feat}/ref={cls}',
                                        f'{where}: chi2 {sgot!r}, reference {stat!r}'))
        # probability of the statistic that is reported
        pgot = got['pvalue'][i]
        pexp = None
        if ndf >= 1 and not math.isnan(sgot) and got['ndf'][i] == ndf:
            pexp = dist.chi2_sf(sgot, ndf)
            if not close(pgot, pexp, TOL_PVALUE, ABS_PVALUE):
                out.failures.append(Failure('pvalue', f'C07/pvalue/{kind}',
                                            f'{where}: p-value {pgot!r}, reference {pexp!r} for '
                                            f'chi2 {sgot!r}, ndf {ndf}'))
        # reference verdict of this dataset
        if ndf == 0:
            ok = None
        elif math.isnan(stat):
            ok = False if not ignore else None     # "when no bin is left out"
        else:
            pref = dist.chi2_sf(stat, ndf)
            pvals_ref.append(pref)
            ok = None if abs(pref - alpha) <= BAND * alpha else pref > alpha
        passes.append(ok)
        if ok is None:
            out.excluded += 1
        elif got['oracles'][i] != ok:
            cls = 'nan' if math.isnan(stat) else 'inf' if math.isinf(stat) else 'finite'
            out.failures.append(Failure('dataset_verdict', f'C07/dataset_verdict/{mode}/ref={cls}',
                                        f'{where}: oracle {got["oracles"][i]}, reference {ok} '
                                        f'(chi2 {stat!r}, alpha {alpha!r})'))
        if pexp is not None and abs(pexp - alpha) > BAND * alpha and \
                got['oracles'][i] != (pgot > alpha):
            out.failures.append(Failure('oracle_vs_pvalue', f'C07/oracle_vs_pvalue/{kind}',
                                        f'{where}: oracle {got["oracles"][i]} but p-value '
                                        f'{pgot!r} vs alpha {alpha!r}'))

    if any(1e-6 < p < 1.0 - 1e-6 for p in pvals_ref):
        out.labels.append('p-in-(1e-6,1-1e-6)')
    decided = [p for p in passes if p is not None]
    differ = True in decided and False in decided
    if differ:
        out.labels.append('datasets-differ')
    verdict_ref = _conj(passes)
    out.labels.append({True: 'verdict-true', False: 'verdict-false',
                       None: 'verdict-undecided'}[verdict_ref])
    out.nontrivial = mixed or differ or special_in or \
        any(math.isnan(s) or math.isinf(s) for s, _n, _l in refs)

    own = all(got['oracles'])
    if got['verdict'] != own:
        out.failures.append(Failure('verdict_vs_oracles', f'C07/verdict_vs_oracles/nds={nds}',
                                    f'bool(result) {got["verdict"]} but all(oracles()) {own}'))
    if verdict_ref is not None and got['verdict'] != verdict_ref:
        out.failures.append(Failure('verdict', f'C07/verdict/{mode}/nds={min(nds, 2)}/'
                                    f'ref={verdict_ref}',
                                    f'bool(result) {got["verdict"]}, reference {verdict_ref} '
                                    f'(per dataset {passes})'))
    # an undefined statistic never passes when no bin is left out
    if not ignore:
        for i, sgot in enumerate(got['chi2']):
            if math.isnan(sgot) and (got['oracles'][i] or got['verdict']):
                out.failures.append(Failure('nan_never_passes', f'C07/nan_never_passes/{kind}',
                                            f'dataset {i}: chi2 is NaN, oracle '
                                            f'{got["oracles"][i]}, verdict {got["verdict"]}'))

    # "exceeds" is strict: with the level set to the probability reported for
    # dataset 0 that dataset does not pass, with the next float below it does
    p0 = got['pvalue'][0]
    if 0.0 < p0 < 1.0 and refs[0][1] >= 1 and \
            close(p0, dist.chi2_sf(got['chi2'][0], refs[0][1]), TOL_PVALUE, ABS_PVALUE):
        for lvl, expected, what in ((p0, False, 'on'),
                                    (math.nextafter(p0, 0.0), True, 'just-below')):
            if not 0.0 < lvl < 1.0:
                continue
            try:
                edge = _evaluate(dict(case, alpha=lvl), shape, kinds, case['ref'],
                                 case['others'][:1])
            except Exception as exc:
                out.failures.append(exc_failure('evaluate_raises', exc, f'{kind}/{mode}/edge'))
                continue
            if edge['pvalue'][0] == p0 and edge['verdict'] != expected:
                out.failures.append(Failure('strict_level', f'C07/strict_level/{what}',
                                            f'p-value {p0!r} against alpha {lvl!r}: verdict '
                                            f'{edge["verdict"]}, expected {expected}'))

    # ---- permutation of the bins (same permutation for all datasets)
    perm = case['perm']
    pref_ = {'v': [refv[j] for j in perm], 'e': [refe[j] for j in perm]}
    poth = [{'v': [o['v'][j] for j in perm], 'e': [o['e'][j] for j in perm]}
            for o in case['others']]
    try:
        pgot_ = _evaluate(case, shape, kinds, pref_, poth)
    except Exception as exc:
        out.failures.append(exc_failure('evaluate_raises', exc, f'{kind}/{mode}/permuted'))
        return out
    tol = max(size, 1) * 2.0 ** -50
    for i in range(nds):
        if not close(pgot_['chi2'][i], got['chi2'][i], tol):
            out.failures.append(Failure('permutation', f'C07/permutation/statistic/{mode}',
                                        f'dataset {i}: chi2 {got["chi2"][i]!r} became '
                                        f'{pgot_["chi2"][i]!r} after permuting the bins'))
        if pgot_['ndf'][i] != got['ndf'][i]:
            out.failures.append(Failure('permutation', f'C07/permutation/ndf/{mode}',
                                        f'dataset {i}: ndf {got["ndf"][i]} became '
                                        f'{pgot_["ndf"][i]} after permuting the bins'))
    if all(p is not None for p in passes) and pgot_['verdict'] != got['verdict']:
        out.failures.append(Failure('permutation', f'C07/permutation/verdict/{mode}',
                                    f'verdict {got["verdict"]} became {pgot_["verdict"]} after '
                                    f'permuting the bins'))
    # ---- history: the SAME dataset objects, compared once with the original numbers, then given
    # the permuted numbers (arrays edited in place or attributes re-assigned, as the repository's
    # own tests do with .error) and compared again: the new comparison must see the datasets as
    # they are now, i.e. give what fresh datasets holding these numbers give (pgot_)
    lay, vdt = case.get('layout', 'C'), case.get('vdtype')
    hds = [statgen.make_dataset(shape, kinds, d['v'], d['e'], f'h{i}', lay, vdt)
           for i, d in enumerate([case['ref']] + list(case['others']))]
    new = [statgen.make_dataset(shape, kinds, d['v'], d['e'], f'n{i}', lay, vdt)
           for i, d in enumerate([pref_] + poth)]
    try:
        _evaluate_ds(case, hds[0], hds[1:])
        for k, (dst, src) in enumerate(zip(hds, new)):
            for attr in ('value', 'error'):
                cur = getattr(dst, attr)
                if isinstance(cur, np.ndarray) and cur.ndim and (k + len(attr)) % 2:
                    cur[...] = getattr(src, attr)
                else:
                    setattr(dst, attr, getattr(src, attr))
        hgot = _evaluate_ds(case, hds[0], hds[1:])
    except Exception as exc:
        out.failures.append(exc_failure('evaluate_raises', exc, f'{kind}/{mode}/history'))
        return out
    out.labels.append('re-evaluated-after-change-of-the-datasets')
    same = all(len(hgot[key]) == len(pgot_[key]) and all(
        (a == b) or (isinstance(a, float) and math.isnan(a) and math.isnan(b))
        for a, b in zip(hgot[key], pgot_[key])) for key in ('chi2', 'ndf', 'pvalue'))
    if not same or hgot['verdict'] != pgot_['verdict']:
        out.failures.append(Failure(
            'history', f'C07/history/datasets-changed/{kind}/{mode}',
            f'datasets compared once, then given other numbers (in place / by assignment): the new '
            f'comparison reports chi2 {hgot["chi2"]} ndf {hgot["ndf"]} p {hgot["pvalue"]} verdict '
            f'{hgot["verdict"]}; fresh datasets with the same numbers give chi2 {pgot_["chi2"]} ndf '
            f'{pgot_["ndf"]} p {pgot_["pvalue"]} verdict {pgot_["verdict"]}'))
    out.info = {'reference': [(s, n, l) for s, n, l in refs], 'got_chi2': got['chi2'],
                'got_pvalue': got['pvalue'], 'verdict': got['verdict']}
    return out


MANIFEST = {
    'text': ('Generated search (Hypothesis) over reference + 1-3 compared datasets, scalar to 3-D, '
             'with generated patterns of zero errors, both settings of ignore_empty, NaN and '
             'infinities when the option is off, alpha over (0,1) and p-values spread over (0,1). '
             'Every case is judged clause by clause: statistic, ndf, probability, per-dataset and '
             'global verdict, NaN statistic never passes, and invariance under one generated '
             'permutation of the bins. Exploration, not proof.'),
    'note': ('Reference law from vlib/dist.py (no scipy/numpy), validated at start-up against '
             'tabulated values; datasets whose probability is within 1e-6 (relative) of alpha and '
             'datasets with every bin left out are not judged for the verdict and are counted.'),
    'technique': 'property-based testing (Hypothesis), independent numeric oracle + metamorphic relation',
    'design_ref': 'DESIGN.md section 3, C07',
}
