"""C11 -- a truncated Tripoli-4 listing gives a parser error or the last
complete edition.

Crash points are byte offsets.  A *sweep* case stands for a block of offsets
of one listing (a shipped one, or a synthetic one rebuilt from a recipe of
whole blocks of shipped listings); a *history* case is a list of
(listing, offset) operations executed one after the other in this process.

Every prefix is written to a scratch file and given to ``Parser(path)``;
every scanned edition is then parsed (``parse_from_number`` /
``parse_from_index(-1)``).  Oracle (never the implementation on the same
input):

* exception clause: only ``ParserException`` may come out of either step;
* differential clause: an edition that parses has the same results as the
  edition with the same batch number of the *complete* listing parsed in a
  pristine process (digests of every response / batch datum; arrays with
  dtype, shape and bytes);
* history clause: an observation made here, after whatever this process
  parsed before, equals the observation of the same prefix made by a process
  that has not parsed anything yet;
* no hang: a prefix gets 1000 x the time of the complete listing (capped);
  an overrun is re-run alone in a pristine process and reported only if it
  reproduces.
"""
import collections
import math
import os
import sys

from hypothesis import strategies as st

from vlib import t4trunc as T
from vlib.core import Failure, Outcome, HarnessError

ID = 'C11'
LEVEL = 'fault_enumeration'

SMALL = 36 * 1024          # quick tier: shipped listings up to this size are swept at every offset
BLOCK = {'quick': 160, 'thorough': 256}
HANG_FLOOR = 5.0
HANG_CAP = {'quick': 20.0, 'thorough': 120.0}

RULE = (
    'crash point = byte offset k of a listing L; the prefix L[:k] is written to a file, scanned with '
    'Parser(path) and every scanned edition is parsed. Listings: the 25 Tripoli-4 listings shipped under '
    '/repo/tests and synthetic ones rebuilt from whole blocks of them (head of the same or of another '
    'listing of the same kind, a sub-sequence of the editions with 0-3 or all of the batch blocks that '
    'precede each, a selection / repetition / permutation of the response blocks of each edition, with or '
    'without the text after the last edition). quick: every offset 0..len of the shipped listings <= 36 KiB; '
    'for the larger ones every offset inside or within 80 bytes of 3 instances (first, middle, last) of every '
    'class of line the scanner interprets; generated: synthetic listings swept at the offsets in/next to their '
    'interpreted lines plus drawn offsets, drawn offsets of the large listings, and histories of 2-5 '
    '(listing, offset) parses in one process compared with pristine processes. thorough: every offset of every '
    'shipped listing (exhaustive), more generated cases, and an atheris stage driving the same case decoder '
    'when atheris can be imported. Every first parse of an edition text in a case is repeated in a pristine '
    'process. non-trivial = prefix that ends strictly inside a line the scanner interprets, or that holds >= 1 '
    'complete edition followed by an incomplete one; distinct = (listing digest, offset)')
RULE_ADDENDA = (" Also: synthetic listings with multi-byte UTF-8 lines (every cut inside such a character is visited); a history step may reuse the previous step's length on the same path; every case ends with a parse from a second thread.")
RULE = RULE + RULE_ADDENDA
ASSUMPTIONS = [
    'listings are the shipped ones and whole-block recombinations of them; a killed job is modelled by '
    'truncation only (no torn or reordered blocks)',
    "the parser's own error type is valjean.eponine.tripoli4.parse.ParserException; any other Exception "
    'out of Parser(path), parse_from_number or parse_from_index is a violation',
    'compared results = ParseResult.res without run_data (counters of the run, NORMAL COMPLETION, file '
    'name); batch_data.elapsed_time (printed after the edition) is not compared, and the simulation / '
    'exploitation time of the last edition is not compared when the cut falls inside its end-flag line '
    '(digits that are not in the file)',
    'an edition is identified by its batch number; the reference is the complete listing parsed in a '
    'freshly started interpreter (forked per request before anything was parsed)',
    '"whatever was parsed earlier" is read as: the outcome (error type, editions, results) of a prefix '
    'does not depend on what the process parsed before',
    'never hangs = within min(cap, max(5 s, 1000 x time of the complete listing)), cap 20 s quick / 120 s '
    'thorough; overruns that do not reproduce in a pristine process are counted, not reported',
]
BUDGET = {'quick': {'cases': 1100, 'shards': 16, 'seconds': 240, 'shrink_s': 40},
          'thorough': {'cases': 8000, 'shards': 16, 'seconds': 2400, 'shrink_s': 60}}
# fractions of the generated cases (about half of what the quick tier measures)
FLOORS = {'gen:synth': 0.25, 'gen:sample': 0.08, 'gen:history': 0.10, 'synth:multi-edition': 0.06,
          # ('synth:reference-parses' depends on the behaviour of the code under test: not a floor)
          'synth:foreign-head': 0.05, 'synth:responses-recombined': 0.08,
          'history:mixed-listings': 0.08}

_STATE = {'tier': 'quick', 'pristine': None, 'refs': {}, 'fresh': {}, 'fuzz': None}
_PER_OFFSET = collections.Counter()    # reporting only: classes counted per prefix (evidence: offsets[...])


# --------------------------------------------------------------------------
# set-up, references

def _pristine():
    pri = _STATE['pristine']
    if pri is None or pri.pid != os.getpid():
        pri = _STATE['pristine'] = T.Pristine()
    return pri


def setup(tier):
    _STATE['tier'] = tier
    if '--replay' in sys.argv or _STATE['refs']:
        return
    # warm-up of a cache of pure values: the references of the shipped listings (complete listing,
    # pristine process), computed once in the parent and inherited by the shards
    names = [name for name, _ in T.shipped()]
    reqs = [{'data': data, 'which': None, 'budget': 600.0} for _, data in T.shipped()]
    pri = _pristine()
    for (name, data), ans in zip(T.shipped(), pri.batch(reqs, parallel=min(8, os.cpu_count() or 1))):
        if ans.get('timeout'):
            raise HarnessError(f'complete listing {name} not parsed within 600 s')
        _STATE['refs'][T.short_id(data)] = ans
    assert len(names) == len(_STATE['refs'])


def _reference(data):
    key = T.short_id(data)
    ref = _STATE['refs'].get(key)
    if ref is None:
        ref = _pristine().one(data, None, 600.0)
        if ref.get('timeout'):
            raise HarnessError('complete listing not parsed within 600 s')
        if len(_STATE['refs']) > 400:
            _STATE['refs'].clear()
        _STATE['refs'][key] = ref
    return ref


def _budget(ref):
    return min(HANG_CAP[_STATE['tier']], max(HANG_FLOOR, 1000.0 * ref['seconds']))


# --------------------------------------------------------------------------
# oracle

def _klass(res):
    """Comparable summary of one outcome."""
    if res is None:
        return None
    if res == 'ok' or res == 'PE':
        return res
    if res[0] == 'EXC':
        return f'{res[1]}@{res[2]}'
    return res[0]


def _strip_index(path):
    return path.split('[')[0]


class _Judge:
    """Evaluates the clauses for the prefixes of one listing."""

    def __init__(self, out, data, spec):
        self.out = out
        self.data = data
        self.spec = spec            # how the listing is named in a case: ('listing', name) / ('recipe', dict)
        self.tab = T.table(data)
        self.lid = int(T.short_id(data), 16)
        self.ref = _reference(data)
        self.budget = _budget(self.ref)
        self.labels = {}
        self.nt_keys = []

    def case_for(self, offset):
        case = {'kind': 'sweep', 'offsets': [offset]}
        case[self.spec[0]] = self.spec[1]
        return case

    def label(self, lab, num=1):
        self.labels[lab] = self.labels.get(lab, 0) + num

    def fail(self, clause, signature, detail, offset):
        self.out.failures.append(Failure(clause, signature, f'offset {offset} of {self.describe()}: {detail}',
                                         self.case_for(offset)))

    def describe(self):
        return self.spec[1] if self.spec[0] == 'listing' else f'synthetic listing ({len(self.data)} bytes)'

    def classify(self, offset):
        """Labels and the non-triviality rule (input features only)."""
        cls, partial = self.tab.cut_class(offset)
        complete, started = self.tab.context(offset)
        self.label('cut:' + cls + ('' if partial or cls == 'boundary' else '(content complete)'))
        if not self.tab.editions or offset <= self.tab.starts[self.tab.editions[0][0]]:
            self.label('where:before-first-edition')
        elif started > complete:
            self.label('where:inside-edition-%s' % ('first' if complete == 0 else 'after-complete-ones'))
        else:
            self.label('where:after-%s-complete-edition(s)' % ('1' if complete == 1 else 'n'))
        nontrivial = (partial and cls != 'other') or (complete >= 1 and started > complete)
        if nontrivial:
            self.nt_keys.append((self.lid << 24) | offset)
        return cls, partial

    def admissible(self, obs, offset, cls, partial, origin):
        """Exception, identity and differential clauses on one observation.  Returns False when the
        observation itself violates the exception clause."""
        good = True
        scan = obs['scan']
        if scan not in ('ok', 'PE'):
            self.fail('scan_raises', f'C11/scan_raises/{scan[1]}@{scan[2]}',
                      f'{origin}: Parser(path) raised {scan[3]} (cut line class: {cls})', offset)
            return False
        if scan == 'PE':
            return True
        if not obs['batches']:
            res = obs['noed']
            if res[0] == 'EXC':
                self.fail('parse_raises', f'C11/parse_raises/{res[1]}@{res[2]}/no-edition',
                          f'{origin}: Parser(path) accepted a listing without edition and '
                          f'parse_from_index(-1) raised {res[3]}', offset)
                good = False
            return good
        refobs = self.ref['obs']
        for pos, bnum in enumerate(obs['batches']):
            res = obs['eds'].get(bnum)
            if res is None:
                continue
            if res[0] == 'EXC':
                self.fail('parse_raises', f'C11/parse_raises/{res[1]}@{res[2]}',
                          f'{origin}: parsing edition {bnum} raised {res[3]} (cut line class: {cls})', offset)
                good = False
                continue
            if res[0] != 'ok':
                continue
            if refobs['scan'] != 'ok':
                self.out.excluded += 1      # nothing was obtained from the complete listing
                continue
            if bnum not in refobs['eds']:
                self.fail('edition_unknown', 'C11/edition_unknown',
                          f'{origin}: results returned for edition {bnum}; the complete listing has '
                          f'editions {refobs["batches"]}', offset)
                continue
            want = refobs['eds'][bnum]
            if want[0] != 'ok':
                self.out.excluded += 1
                continue
            skip = {'batch_data.elapsed_time'}
            where = 'edition-complete'
            if cls == 'end_flag' and pos == len(obs['batches']) - 1:
                # only the edition's OWN end-flag line carries its time; some listings repeat
                # the time line after the final state of the random generator: a cut there
                # must not change the (complete) last edition
                line_idx = self.tab.line_of(offset)
                own = any(end == line_idx for _rag, end in self.tab.editions)
                where = 'cut-in-its-end-flag-line' if own else 'cut-in-a-repeated-time-line'
                if partial and own:
                    skip |= {'batch_data.simulation_time', 'batch_data.exploitation_time'}
            got = res[1]
            diff = sorted(p for p in set(got) | set(want[1])
                          if p not in skip and got.get(p) != want[1].get(p))
            if diff:
                kinds = sorted({_strip_index(p) for p in diff})
                self.fail('edition_differs', f'C11/edition_differs/{kinds[0]}',
                          f'{origin}: edition {bnum} differs from the same edition of the complete listing '
                          f'in {diff[:6]} ({where}; cut line class: {cls})', offset)
        return good

    def same(self, here, fresh, offset, cls):
        """History clause: observation in this process vs in a pristine process."""
        if _klass(here['scan']) != _klass(fresh['scan']):
            self.fail('history_outcome',
                      f'C11/history_outcome/scan:{_klass(fresh["scan"])}->{_klass(here["scan"])}',
                      f'Parser(path) gives {_klass(fresh["scan"])} in a fresh process and '
                      f'{_klass(here["scan"])} here (cut line class: {cls})', offset)
            return
        if here['batches'] != fresh['batches']:
            self.fail('history_outcome', 'C11/history_outcome/editions',
                      f'editions {fresh["batches"]} in a fresh process, {here["batches"]} here', offset)
            return
        for bnum, now in here['eds'].items():
            then = fresh['eds'].get(bnum)
            if then is None:
                continue
            if _klass(now) != _klass(then):
                self.fail('history_outcome', f'C11/history_outcome/parse:{_klass(then)}->{_klass(now)}',
                          f'edition {bnum}: {_klass(then)} in a fresh process, {_klass(now)} here', offset)
            elif now[0] == 'ok' and now[1] != then[1]:
                diff = sorted(p for p in set(now[1]) | set(then[1]) if now[1].get(p) != then[1].get(p))
                kinds = sorted({_strip_index(p) for p in diff})
                self.fail('history_outcome', f'C11/history_outcome/results/{kinds[0]}',
                          f'edition {bnum}: results differ from those of a fresh process in {diff[:6]}', offset)

    def overrun(self, offset, cls):
        """An observation exceeded its budget here: re-run it alone in a pristine process."""
        ans = _pristine().one(self.data[:offset], None, self.budget)
        if ans.get('timeout'):
            self.fail('hang', f'C11/hang/cut={cls}',
                      f'no answer within {self.budget:.0f} s (complete listing: {self.ref["seconds"]:.3f} s), '
                      'here and alone in a fresh process', offset)
            return True
        self.out.excluded += 1
        self.label('overrun-not-reproduced')
        return False

    def fresh(self, offset, which):
        """Observation of a prefix by a pristine process (memo of pure values)."""
        key = (self.lid, offset, None if which is None else tuple(which))
        memo = _STATE['fresh']
        if key not in memo:
            if len(memo) > 4000:
                memo.clear()
            ans = _pristine().one(self.data[:offset], which, self.budget)
            memo[key] = None if ans.get('timeout') else ans['obs']
        return memo[key]

    def sweep(self, offsets, work):
        """In-process sweep of ``offsets``; every edition text parsed for the first time in this sweep is
        parsed again by a pristine process."""
        cache = {} if _STATE['fuzz'] is None else _STATE['fuzz']
        refobs = self.ref['obs']
        # the reference is itself an observation of the prefix of full length in a fresh process
        full = len(self.data)
        fcls, fpartial = self.tab.cut_class(full)
        self.admissible(refobs, full, fcls, fpartial, 'fresh process')
        for offset in offsets:
            cls, partial = self.classify(offset)
            path = work.put(self.data, offset)
            before = set(cache) if _STATE['fuzz'] is None else None
            obs, _secs = T.observe_guarded(path, self.budget, None, cache)
            self.out.evals += 1
            if obs is None:
                if self.overrun(offset, cls):
                    break
                continue
            self.label('outcome:' + ('scan-' + _klass(obs['scan']) if obs['scan'] != 'ok' else
                                     'editions-%s' % ('1' if len(obs['batches']) == 1 else
                                                      'n' if obs['batches'] else '0')))
            for res in obs['eds'].values():
                self.label('parse:' + _klass(res))
            okay = self.admissible(obs, offset, cls, partial, 'this process')
            new = [key for key in cache if key not in before] if before is not None else []
            if new and okay and obs['batches']:
                # positions of the editions that were really parsed at this offset
                which = [pos for pos, bnum in enumerate(obs['batches'])
                         if any(cache[key] is obs['eds'].get(bnum) for key in new)]
                if offset == full and which == list(range(len(obs['batches']))):
                    fresh = refobs
                else:
                    fresh = self.fresh(offset, which)
                    self.out.evals += 1
                self.label('pristine-repeat')
                if fresh is None:
                    if self.overrun(offset, cls):
                        break
                    continue
                if self.admissible(fresh, offset, cls, partial, 'fresh process'):
                    self.same(obs, fresh, offset, cls)

    def finish(self):
        # labels of a case = the classes present in it; the per-prefix counts go to the evidence file
        # through shard_extra
        self.out.labels.extend(sorted(self.labels))
        _PER_OFFSET.update(self.labels)
        if self.nt_keys:      # the first key is the key of the case (so that it can be shown as a sample)
            self.out.nontrivial = True
            self.out.key = self.nt_keys[0]
            self.out.extra_keys.extend(self.nt_keys[1:])


# --------------------------------------------------------------------------
# cases

def _large():
    return [name for name, data in T.shipped() if len(data) > SMALL]


def _spec_and_data(case):
    if 'recipe' in case:
        return ('recipe', case['recipe']), T.build_synthetic(case['recipe'])
    return ('listing', case['listing']), T.shipped_by_name(case['listing'])


def _offsets_of(case, size):
    if 'range' in case:
        lo, hi = case['range']
        return list(range(max(0, lo), min(size, hi) + 1))
    return sorted({min(max(0, off), size) for off in case['offsets']})


def _synth_offsets(case, data):
    size = len(data)
    n_off = int(min(400, max(40, 4e6 / max(1, size))))
    tab = T.table(data)
    struct = tab.interpreted_windows(2)
    stride = max(1, math.ceil(len(struct) / (0.8 * n_off)))
    offs = set(struct[case['phase'] % stride::stride])
    for pick in case['picks'][:max(8, n_off // 5)]:
        offs.add(pick % (size + 1))
    offs.update(T.note_offsets(data))      # cuts inside a multi-byte character
    offs.add(size)
    return sorted(offs)


def _interesting(data):
    """Offsets worth visiting in a history: complete listing, around the end of every edition."""
    tab = T.table(data)
    offs = [len(data)]
    for rag, end in tab.editions:
        offs.append(tab.starts[rag] + 5)
        if end is not None:
            start, cend = tab.starts[end], tab.content_end[end]
            offs += [cend + 1, cend, cend - 1, start + 16, start + 2, cend + 40]
    return [min(max(0, off), len(data)) for off in offs]


def run_case(case):
    out = Outcome()
    out.evals = 0
    work = T.Workfile()
    try:
        kind = case['kind']
        if kind in ('sweep', 'synth', 'sample'):
            if kind == 'sample':
                names = _large()
                name = names[case['listing'] % len(names)]
                spec, data = ('listing', name), T.shipped_by_name(name)
                offsets = sorted({pick % (len(data) + 1) for pick in case['picks']})
                out.labels.append('gen:sample')
            elif kind == 'synth':
                spec, data = _spec_and_data(case)
                offsets = _synth_offsets(case, data)
                out.labels.append('gen:synth')
                _synth_labels(out, case['recipe'], data)
            else:
                spec, data = _spec_and_data(case)
                offsets = _offsets_of(case, len(data))
            judge = _Judge(out, data, spec)
            judge.sweep(offsets, work)
            judge.finish()
            out.info = {'listing': judge.describe(), 'size': len(data), 'offsets': len(offsets),
                        'editions of the complete listing': judge.ref['obs']['batches']}
        elif kind == 'history':
            _run_history(out, case, work)
        else:
            raise HarnessError(f'unknown kind of case {kind!r}')
        _other_thread_probe(out)
    finally:
        work.close()
    out.evals = max(1, out.evals)
    return out


PROBE_LISTING = 'ttsSimplePacket20.d.PARA.res.ceav5'     # 8 KiB, one edition, parses in ~30 ms
PROBE_WAIT = 60.0


def _other_thread_probe(out):
    """'whatever was parsed earlier in the same process': after the parses of this case (many of
    which failed with the parser's error), a complete listing is parsed from ANOTHER thread.  It
    must come back (a lock or any process-wide state left behind by a failed parse would block it:
    the scheduler parses listings from worker threads) and give the reference result.  Waiting
    2 x 60 s for a 30 ms parse; the stuck thread is a daemon."""
    import threading
    if _STATE.get('probe-stuck'):
        out.labels.append('other-thread-probe:skipped-already-stuck')
        return
    data = T.shipped_by_name(PROBE_LISTING)
    work = T.Workfile()
    path = work.put(data)
    box = {}

    def body():
        box['obs'] = T.observe(path)
    thread = threading.Thread(target=body, daemon=True, name='c11-other-thread')
    thread.start()
    thread.join(PROBE_WAIT)
    if thread.is_alive():
        thread.join(PROBE_WAIT)
    out.evals += 1
    if thread.is_alive():
        _STATE['probe-stuck'] = True      # the lock stays taken in this process: report once
        fail = Failure('hang', 'C11/hang/other-thread-after-earlier-parses',
                       f'parsing the complete listing {PROBE_LISTING} from a second thread did not come '
                       f'back within {2 * PROBE_WAIT:.0f} s after the parses of this case in the main thread')
        out.failures.append(fail)
        return
    work.close()
    out.labels.append('other-thread-probe')
    ref = _STATE.setdefault('probe-ref', {})
    dig = T.digest(box.get('obs'))
    if 'digest' not in ref:
        ref['digest'] = dig
    if box.get('obs', {}).get('scan') != 'ok' or not any(
            res[0] == 'ok' for res in box['obs']['eds'].values()) or dig != ref['digest']:
        out.failures.append(Failure(
            'history_outcome', 'C11/history_outcome/other-thread-probe',
            f'the complete listing {PROBE_LISTING} parsed from a second thread gave '
            f'{_klass(box.get("obs", {}).get("scan"))} / '
            f'{[_klass(r) for r in box.get("obs", {}).get("eds", {}).values()]} or a result that '
            'differs from the first probe of this process'))


def _synth_labels(out, recipe, data):
    ref = _reference(data)['obs']
    if len(ref['batches']) >= 2:
        out.labels.append('synth:multi-edition')
    if ref['scan'] == 'ok' and ref['eds'] and all(r[0] == 'ok' for r in ref['eds'].values()):
        out.labels.append('synth:reference-parses')
    if recipe.get('head') is not None:
        out.labels.append('synth:foreign-head')
    if any(p.get('resp') is not None for p in recipe['eds']):
        out.labels.append('synth:responses-recombined')
    if any(p.get('keep') is not None for p in recipe['eds']):
        out.labels.append('synth:batch-blocks-dropped')
    if not recipe.get('tail', True):
        out.labels.append('synth:no-tail')
    if recipe.get('notes'):
        out.labels.append('synth:multi-byte-characters')
        if any(off > 4096 for off in T.note_offsets(data)):
            out.labels.append('synth:multi-byte-characters-beyond-4KiB')


def _run_history(out, case, work):
    out.labels.append('gen:history')
    pool = T.shipped()
    seen = set()
    judges = []
    steps = []
    for oper in case['ops']:
        name, data = pool[oper['l'] % len(pool)]
        seen.add(name)
        inter = _interesting(data)
        offset = min(max(0, inter[oper['at'] % len(inter)] + oper.get('jit', 0)), len(data))
        if oper.get('same_len') and steps and steps[-1][2] <= len(data):
            # same scratch path, same number of bytes as the previous step, other content
            # (what a re-started job leaves in place of the file of the killed one)
            offset = steps[-1][2]
            out.labels.append('history:same-length-as-previous')
        steps.append((name, data, offset, [oper.get('ed', 0)]))
    if len(seen) > 1:
        out.labels.append('history:mixed-listings')
    for name, data, offset, which in steps:
        judge = _Judge(out, data, ('listing', name))
        judges.append(judge)
        cls, partial = judge.classify(offset)
        path = work.put(data, offset)
        obs, _secs = T.observe_guarded(path, judge.budget, which, None)
        out.evals += 1
        if obs is None:
            if judge.overrun(offset, cls):
                break
            continue
        judge.label('history-step:' + ('scan-' + _klass(obs['scan']) if obs['scan'] != 'ok' else 'scan-ok'))
        okay = judge.admissible(obs, offset, cls, partial, 'this process')
        fresh = judge.fresh(offset, which)
        out.evals += 1
        if fresh is None:
            if judge.overrun(offset, cls):
                break
            continue
        if judge.admissible(fresh, offset, cls, partial, 'fresh process') and okay:
            judge.same(obs, fresh, offset, cls)
    # a failure of a history is reproduced by the history (the order matters), not by one prefix
    for fail in out.failures:
        if fail.clause == 'history_outcome':
            fail.case = None
    keys = []
    for judge in judges:
        out.labels.extend(lab for lab in sorted(judge.labels) if lab not in out.labels)
        _PER_OFFSET.update(judge.labels)
        keys.extend(judge.nt_keys)
    out.extra_keys.extend(keys)
    if keys:
        out.nontrivial = True
        out.key = 'history:' + ','.join(map(str, [(j.lid << 24) | s[2] for j, s in zip(judges, steps)]))
    out.info = {'steps': [(s[0], s[2]) for s in steps]}


# --------------------------------------------------------------------------
# generators

def _recipes():
    nbase = len(T.bases())
    weights = []
    for idx, name in enumerate(T.bases()):
        seg = T.segments(name)
        size = sum(len(line) for edi in seg.editions for part in ('pre', 'end') for line in edi[part]) \
            + sum(len(line) for edi in seg.editions for blk in edi['blocks'] for line in blk)
        weights += [idx] * (6 if len(seg.editions) > 1 else 2 if size < 20000 else 1)
    assert nbase
    pick = st.fixed_dictionaries({
        'ed': st.integers(0, 9),
        'keep': st.one_of(st.none(), st.integers(0, 3)),
        'resp': st.one_of(st.none(), st.none(), st.lists(st.integers(0, 21), min_size=0, max_size=4))})
    return st.fixed_dictionaries({
        'base': st.sampled_from(weights),
        'head': st.one_of(st.none(), st.none(), st.integers(0, 15)),
        'eds': st.one_of(st.lists(pick, min_size=1, max_size=1), st.lists(pick, min_size=2, max_size=4),
                         st.lists(pick, min_size=2, max_size=4)),
        'tail': st.sampled_from([True, True, False]),
        'notes': st.one_of(st.just([]), st.just([]), st.lists(st.fixed_dictionaries({
            'where': st.sampled_from(['head', 'after', 'after']), 'at': st.integers(0, 400),
            'text': st.integers(0, 2)}), min_size=1, max_size=3))})


def strategy(tier):
    synth = st.fixed_dictionaries({
        'kind': st.just('synth'), 'recipe': _recipes(), 'phase': st.integers(0, 63),
        'picks': st.lists(st.integers(0, 1 << 20), min_size=8, max_size=80)})
    sample = st.fixed_dictionaries({
        'kind': st.just('sample'), 'listing': st.integers(0, 31),
        'picks': st.lists(st.integers(0, 1 << 20), min_size=6, max_size=14)})
    # histories prefer the small listings (an operation costs a scan and up to two parses, twice)
    order = sorted(range(len(T.shipped())), key=lambda i: len(T.shipped()[i][1]))
    lst = st.sampled_from(order[:14] * 3 + order[14:])
    oper = st.fixed_dictionaries({'l': lst, 'at': st.integers(0, 63), 'jit': st.integers(-3, 3),
                                  'ed': st.integers(0, 9),
                                  'same_len': st.sampled_from([False, False, True])})
    history = st.fixed_dictionaries({'kind': st.just('history'),
                                     'ops': st.lists(oper, min_size=2, max_size=5)})
    # (one_of would merge the repeated branches: the mix is drawn explicitly)
    return st.sampled_from([synth] * 6 + [sample] * 2 + [history] * 2).flatmap(lambda strat: strat)


def enumerations(tier):
    block = BLOCK[tier]

    def ranges(names):
        for name in names:
            size = len(T.shipped_by_name(name))
            for lo in range(0, size + 1, block):
                yield {'kind': 'sweep', 'listing': name, 'range': [lo, min(size, lo + block - 1)]}

    def small():
        return ranges([name for name, data in T.shipped() if len(data) <= SMALL])

    def large_windows():
        for name in _large():
            offs = T.table(T.shipped_by_name(name)).interpreted_windows(80, 3)
            for idx in range(0, len(offs), block):
                yield {'kind': 'sweep', 'listing': name, 'offsets': offs[idx:idx + block]}

    def everything():
        return ranges([name for name, _ in T.shipped()])

    if tier == 'quick':
        return [('every-offset-of-shipped-listings<=36KiB', small, True),
                ('interpreted-lines+-80-bytes-3-per-class-of-larger-shipped-listings', large_windows, True)]
    return [('every-offset-of-every-shipped-listing', everything, True)]


# --------------------------------------------------------------------------
# optional fuzz stage (thorough tier)

def case_from_bytes(blob):
    """Decoder used by the atheris target: fuzzer bytes -> a sweep case with one offset.  The input stays
    in the domain of the property: a prefix of a shipped or recombined listing."""
    if len(blob) < 4:
        return None
    off = int.from_bytes(blob[1:4], 'little')
    if blob[0] & 1 == 0 or len(blob) < 8:
        names = [name for name, _ in T.shipped()]
        name = names[(blob[0] >> 1) % len(names)]
        return {'kind': 'sweep', 'listing': name, 'offsets': [off % (len(T.shipped_by_name(name)) + 1)]}
    body = blob[4:]
    eds = []
    for idx in range(0, min(len(body) - 3, 12), 3):
        resp = None if body[idx + 2] & 1 else [body[idx + 2] >> 1, body[idx + 2] >> 4]
        eds.append({'ed': body[idx] % 10, 'keep': None if body[idx + 1] & 4 else body[idx + 1] % 4,
                    'resp': resp})
    recipe = {'base': (blob[0] >> 1) % len(T.bases()),
              'head': None if body[-1] & 1 else body[-1] >> 1,
              'eds': eds or [{'ed': 0, 'keep': None, 'resp': None}], 'tail': bool(body[-1] & 2)}
    size = len(T.build_synthetic(recipe))
    return {'kind': 'sweep', 'recipe': recipe, 'offsets': [off % (size + 1)]}


def fuzz_mode():
    """Mode of the atheris child: every execution is one prefix, so the memo of parsed edition texts is
    kept for the whole campaign and the pristine repeats are left to the sweep."""
    _STATE['fuzz'] = {}


def shard_extra(tier, seed, shard, nshards, tally, deadline):
    extra = {}
    if tier == 'thorough':
        from vlib import t4fuzz
        extra.update(t4fuzz.stage(sys.modules[__name__], seed, shard, nshards, tally, deadline))
    extra.update({f'offsets[{lab}]': num for lab, num in sorted(_PER_OFFSET.items())})
    return extra


MANIFEST = {
    'text': ('Enumeration of crash points: every byte offset of every shipped Tripoli-4 listing (thorough; '
             'quick: every offset of those <= 36 KiB and all offsets in/near the lines the scanner interprets '
             'of the larger ones), plus generated synthetic listings made of whole blocks of shipped ones, '
             'drawn offsets and histories of parses in one process. Each prefix goes through Parser(path) and '
             'the parse of every scanned edition. Oracle: only ParserException may be raised; an edition that '
             'parses equals (digest of every response and batch datum) the same edition of the complete '
             'listing parsed in a pristine interpreter; the outcome here equals the outcome of a pristine '
             'process; time budget per prefix. Fault enumeration, complete over the stated offsets of the '
             'stated listings only; other listings are not covered.'),
    'note': ('Trusts the complete listing parsed in a fresh process as reference for the results (differential '
             'between truncated and complete file, not an independent reading of the numbers: that is C10); '
             'run_data, elapsed_time and a simulation time whose digits were cut are not compared; "never '
             'hangs" is decided up to a capped budget; truncation is the only fault model.'),
    'technique': ('exhaustive fault enumeration (byte-offset sweep) + property-based generation (Hypothesis) of '
                  'recombined listings and parse histories, differential oracle against a pristine process, '
                  'optional coverage-guided stage (atheris) over the same case decoder'),
    'design_ref': 'DESIGN.md section 3, C11',
}
