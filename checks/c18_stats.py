"""C18 -- diagnostic statistics count every task and every test result exactly
once (task summary, test summary, summary by label combination)."""
from collections import OrderedDict

import numpy as np
from hypothesis import strategies as st

from valjean.cosette.task import TaskStatus
from valjean.eponine.dataset import Dataset
from valjean.gavroche.test import TestEqual, TestResult, TestResultFailed
from valjean.gavroche.eval_test_task import actually_eval_test
from valjean.gavroche.stat_tests.student import TestStudent
from valjean.gavroche.diagnostics.metadata import TestMetadata
from valjean.gavroche.diagnostics.stats import (
    TestStatsTasks, TestStatsTests, TestStatsTestsByLabels, TestOutcome,
    TestStatsTestsByLabelsException, classification_counts)
from vlib.core import Failure, Outcome, HarnessError, exc_failure

ID = 'C18'
LEVEL = 'exploration'
RULE = ('case = list of 0-7 (mostly 1-7) (task name, environment section) pairs (names from a pool of 4 so that they '
        'repeat; any of the 5 task statuses, 30 % of the cases all DONE; section with or without a '
        "'result' list of 0-4 REAL test results: TestEqual / TestStudent on 2-bin datasets, TestMetadata, "
        'or a failed evaluation (TestResultFailed from inconsistent bins), in ~5 % of the cases also '
        'entries that are not test results; intended verdict generated, '
        '25 % of the cases all successful; test names from a pool of 4; label dictionaries = subsets '
        'of 3 labels with values from a 3-string pool, dense or sparse) + by_labels = tuple of 1-3 labels '
        '(2/3 distinct labels in any order, 1/6 with repetition allowed, 1/6 incl. a label that no '
        'test carries). The same list is given to TestStatsTasks, TestStatsTests and '
        'TestStatsTestsByLabels; oracle = counting by plain loops over the case. non-trivial = >= 3 '
        'results with mixed verdicts and at least one result lacking a requested label or one task '
        "without 'result'; distinct = structural hash of the case")
RULE_ADDENDA = (' Also: reserved labels _result / _test_name on one result in twelve; results that come from the same Test object as an earlier one (re-evaluated after its data changed); the verdict read again after the counting helper.')
RULE = RULE + RULE_ADDENDA
ASSUMPTIONS = [
    "elements of a 'result' list are TestResult objects, except in ~5 % of the cases where one or more "
    'entries are plain values (int / str / dict / None): the test summary must list each of them once '
    'under TestOutcome.NOT_A_TEST (documented meaning of that outcome) and keep counting the others; '
    'the summary by labels is not given these entries',
    "label values are strings; in one result out of twelve the reserved labels '_test_name' / '_result' "
    "(documented as replaced with a warning) are carried by a test, with string or 0/1 values; they never "
    "belong to by_labels",
    'the verdict of a summary that observed nothing (no task / no result and nothing missing / no '
    'label group) is not asserted: the three summary kinds disagree on it and nothing documents it',
    'summaries are read with non-inserting accesses (bool, dict(classify), oracles, '
    'nb_missing_labels); the counting helper classification_counts, whose reads insert keys '
    '(property C13), is exercised last on a fresh evaluation and only its returned counts are judged',
]
BUDGET = {'quick': {'cases': 12000, 'shards': 16, 'seconds': 120, 'shrink_s': 30},
          'thorough': {'cases': 200000, 'shards': 16, 'seconds': 900, 'shrink_s': 45}}
FLOORS = {'nontrivial': 0.15, 'has-not-a-test-entry': 0.02, 'tasks-all-done': 0.15, 'tests-all-success': 0.08,
          'tests-mixed-verdicts': 0.3, 'has-missing-result': 0.3, 'bylabels-exception-expected': 0.05,
          'bylabels-groups>=2': 0.25, 'bylabels-missing-label': 0.3, 'bylabels-nlab>=2': 0.3, 'bylabels-multilabel-groups>=2': 0.15,
          'repeated-task-names': 0.3, 'empty-input': 0.01}

STATUSES = ['WAITING', 'PENDING', 'DONE', 'FAILED', 'SKIPPED']
KINDS = ['equal', 'student', 'metadata', 'failed']
TASK_NAMES = ['t0', 't1', 't2', 't3']
TEST_NAMES = ['n0', 'n1', 'n2', 'n3']
LABEL_POOL = ['a', 'b', 'c', 'd']
VALUE_POOL = ['x', 'y', '']
JUNK = ['int', 'str', 'dict', 'none', 'zero']
JUNK_VALUES = {'int': 42, 'str': 'text', 'dict': {'k': 1}, 'none': None, 'zero': 0}


# --------------------------------------------------------------------------
# generator

@st.composite
def _labels(draw, rich):
    # rich: most labels present (so that multi-label groups exist); otherwise sparse
    prob = [True, True, True, False] if rich else [True, False]
    labels = {lab: draw(st.sampled_from(VALUE_POOL)) for lab in LABEL_POOL[:3]
              if draw(st.sampled_from(prob))}
    if draw(st.integers(0, 11)) == 0:
        # the two labels the by-labels summary reserves for itself: documented as replaced
        # (with a warning) when a test carries them, so they must not influence any count
        if draw(st.booleans()):
            labels['_result'] = draw(st.sampled_from(['reviewed', 0, 1, 'SUCCESS']))
        else:
            labels['_test_name'] = draw(st.sampled_from(['x', 'm0']))
    return labels


@st.composite
def _result(draw, all_ok, rich):
    kind = draw(st.sampled_from(KINDS[:3] if all_ok else KINDS))
    if all_ok:
        okay = True
    elif kind == 'failed':
        okay = False
    else:
        okay = draw(st.booleans())
    return {'kind': kind, 'ok': okay, 'name': draw(st.sampled_from(TEST_NAMES)),
            'labels': draw(_labels(rich))}


@st.composite
def _case(draw):
    all_done = draw(st.sampled_from([True, False, False]))
    all_ok = draw(st.sampled_from([True, False, False, False]))
    rich = draw(st.sampled_from([True, True, False]))
    p_missing = draw(st.sampled_from([0, 1, 1, 2]))   # out of 4
    junk = draw(st.integers(0, 11)) == 0             # some 'result' entries are not test results
    ntasks = draw(st.sampled_from([0] + 3 * list(range(1, 8))))
    tasks = []
    for _ in range(ntasks):
        status = 'DONE' if all_done else draw(st.sampled_from(STATUSES))
        if draw(st.integers(0, 3)) < p_missing:
            results = None
        else:
            nres = draw(st.sampled_from([0, 1, 1, 2, 2, 3, 4]))
            results = [draw(_result(all_ok, rich)) for _ in range(nres)]
            if junk and draw(st.booleans()):
                results.insert(draw(st.integers(0, len(results))),
                               {'kind': 'junk', 'value': draw(st.sampled_from(JUNK))})
        tasks.append({'name': draw(st.sampled_from(TASK_NAMES)), 'status': status,
                      'results': results})
    # some results come from the SAME Test object as an earlier one (a test evaluated again
    # after its datasets changed: same name, same label dictionary, possibly another verdict)
    last = {}
    for task in tasks:
        for spec in task['results'] or ():
            if spec['kind'] in ('equal', 'student'):
                if spec['kind'] in last and draw(st.integers(0, 3)) == 1:
                    spec['twin'] = True
                    spec['name'], spec['labels'] = last[spec['kind']]['name'], \
                        dict(last[spec['kind']]['labels'])
                else:
                    last[spec['kind']] = spec
    # by_labels: 'd' never appears in a test -> documented exception
    how = draw(st.sampled_from(['distinct'] * 4 + ['any', 'absent']))
    if how == 'distinct':
        by_labels = draw(st.permutations(LABEL_POOL[:3]))[:draw(st.sampled_from([1, 2, 2, 3]))]
    else:
        pool = LABEL_POOL if how == 'absent' else LABEL_POOL[:3]
        by_labels = draw(st.lists(st.sampled_from(pool), min_size=1, max_size=3))
    return {'tasks': tasks, 'by_labels': by_labels}


def strategy(tier):
    return _case()


# --------------------------------------------------------------------------
# construction of real objects

def _dataset(values, edges, name):
    return Dataset(np.array(values, dtype=float), np.full(len(values), 0.125),
                   bins=OrderedDict([('x', np.array(edges, dtype=float))]), name=name)


def _make_result(spec, last=None):
    if spec['kind'] == 'junk':
        return JUNK_VALUES[spec['value']]
    kind, okay, name = spec['kind'], spec['ok'], spec['name']
    labels = dict(spec['labels'])
    ref = _dataset([1.0, 2.0], [0.0, 1.0, 2.0], 'ref')
    if spec.get('twin') and last is not None and kind in last:
        test, other = last[kind]         # the same Test object, evaluated again on changed data
        other.value[1] = 2.0 if okay else 7.0
        res = test.evaluate()
    elif kind in ('equal', 'student'):
        other = _dataset([1.0, 2.0 if okay else 7.0], [0.0, 1.0, 2.0], 'other')
        test = (TestEqual if kind == 'equal' else TestStudent)(ref, other, name=name, labels=labels)
        res = test.evaluate()
        if last is not None:
            last[kind] = (test, other)
    elif kind == 'metadata':
        res = TestMetadata({'A': {'k': 'v'}, 'B': {'k': 'v' if okay else 'w'}},
                           name=name, labels=labels).evaluate()
    elif kind == 'failed':
        other = _dataset([1.0, 2.0], [0.0, 1.0, 3.0], 'other')   # inconsistent bins
        res = actually_eval_test(TestEqual(ref, other, name=name, labels=labels))
        if not isinstance(res, TestResultFailed):
            raise HarnessError('inconsistent bins did not give a failed evaluation')
    else:
        raise HarnessError(f'unknown result kind {kind!r}')
    if not isinstance(res, TestResult) or bool(res) != bool(okay):
        raise HarnessError(f'result {spec} was built with verdict {bool(res)}')
    return res


def _build(case, with_junk=True):
    task_results = []
    last, made = {}, []
    for task in case['tasks']:
        section = {'status': TaskStatus[task['status']]}
        if task['results'] is not None:
            section['result'] = []
            for spec in task['results']:
                if with_junk or spec['kind'] != 'junk':
                    section['result'].append(_make_result(spec, last))
                    if spec['kind'] != 'junk':
                        made.append((spec, section['result'][-1]))
        task_results.append((task['name'], section))
    for spec, res in made:      # an earlier result keeps its verdict when its test is evaluated again
        if bool(res) != bool(spec['ok']):
            raise HarnessError(f'result {spec} changed its verdict to {bool(res)}')
    return task_results


def _has_junk(case):
    return any(spec['kind'] == 'junk' for task in case['tasks'] for spec in task['results'] or ())


# --------------------------------------------------------------------------
# reference counting (plain loops over the case)

def _ref_tasks(case):
    ref = {}
    for task in case['tasks']:
        ref.setdefault(task['status'], []).append(task['name'])
    return {k: sorted(v) for k, v in ref.items()}


def _ref_tests(case):
    ref = {}
    for task in case['tasks']:
        if task['results'] is None:
            ref.setdefault('MISSING', []).append(task['name'])
            continue
        for spec in task['results']:
            if spec['kind'] == 'junk':     # documented: TestOutcome.NOT_A_TEST, by task name
                ref.setdefault('NOT_A_TEST', []).append(task['name'])
                continue
            ref.setdefault('SUCCESS' if spec['ok'] else 'FAILURE', []).append(spec['name'])
    return {k: sorted(v) for k, v in ref.items()}


def _ref_bylabels(case):
    by_labels = case['by_labels']
    specs = [spec for task in case['tasks'] if task['results'] is not None
             for spec in task['results'] if spec['kind'] != 'junk']
    known = set()
    for spec in specs:
        known.update(spec['labels'])
    expect_exc = any(lab not in known for lab in by_labels)
    groups = {}
    missing = 0
    for spec in specs:
        if any(lab not in spec['labels'] for lab in by_labels):
            missing += 1
            continue
        key = tuple(spec['labels'][lab] for lab in by_labels)
        grp = groups.setdefault(key, {'OK': 0, 'KO': 0, 'total': 0})
        grp['OK' if spec['ok'] else 'KO'] += 1
        grp['total'] += 1
    ordered = [dict(labels=key, **groups[key]) for key in sorted(groups)]
    return specs, expect_exc, ordered, missing


KNOWN_PREDICATES = {
    'has_not_a_test_entry': lambda case, failure: _has_junk(case),
}


def _names(lst):
    return sorted(str(item.name) for item in lst)


def _plain(classify):
    """Non-inserting snapshot {status name: sorted names}, empty lists dropped."""
    return {key.name: _names(val) for key, val in dict(classify).items() if len(val) != 0}


# --------------------------------------------------------------------------

def _check_tasks(case, task_results, out):
    ref = _ref_tasks(case)
    ntasks = len(case['tasks'])
    feat = 'repeated-names' if len({t['name'] for t in case['tasks']}) < ntasks else 'unique-names'
    try:
        res = TestStatsTasks(name='tasks', task_results=task_results).evaluate()
        verdict = bool(res)
        got = _plain(res.classify)
    except Exception as exc:
        out.failures.append(exc_failure('tasks_raises', exc, 'empty' if not ntasks else feat))
        return
    if got != ref:
        out.failures.append(Failure('tasks_classify', f'C18/tasks_classify/{feat}',
                                    f'classify {got} expected {ref}'))
    if ntasks:
        exp = all(t['status'] == 'DONE' for t in case['tasks'])
        if verdict != exp:
            out.failures.append(Failure('tasks_verdict', f'C18/tasks_verdict/expected={exp}',
                                        f'bool {verdict} for statuses {sorted(ref)}'))
    # counting helper, last and on a fresh evaluation (its reads insert keys: C13)
    try:
        fresh = TestStatsTasks(name='tasks', task_results=task_results).evaluate()
        seen = _plain(fresh.classify)     # the helper is judged against what classify says
        statuses, counts = classification_counts(fresh.classify, TaskStatus.DONE)
    except Exception as exc:
        out.failures.append(exc_failure('tasks_counts_raises', exc))
        return
    gotc = [(s.name, int(c)) for s, c in zip(statuses, counts)]
    expc = {k: len(v) for k, v in seen.items()}
    if (dict(gotc) != expc or len(gotc) != len(expc) or len(statuses) != len(counts)
            or ('DONE' in expc and gotc[0][0] != 'DONE')):
        out.failures.append(Failure('tasks_counts', 'C18/tasks_counts',
                                    f'classification_counts {gotc} expected {expc}'))
    # the verdict of a summary does not depend on what was read from it before
    if ntasks and bool(fresh) != exp:
        out.failures.append(Failure('tasks_verdict', f'C18/tasks_verdict/after-counts/expected={exp}',
                                    f'bool {bool(fresh)} after classification_counts for statuses '
                                    f'{sorted(ref)}'))


def _check_tests(case, task_results, out):
    ref = _ref_tests(case)
    junk = 'not-a-test' if _has_junk(case) else ''
    try:
        res = TestStatsTests(name='tests', task_results=task_results).evaluate()
        verdict = bool(res)
        got = _plain(res.classify)
    except Exception as exc:
        out.failures.append(exc_failure('tests_raises', exc, junk))
        return
    if got != ref:
        wrong = sorted(k for k in set(got) | set(ref) if got.get(k) != ref.get(k))
        out.failures.append(Failure('tests_classify', 'C18/tests_classify/' + '+'.join(wrong)
                                    + ('/' + junk if junk else ''),
                                    f'classify {got} expected {ref}'))
    if ref:   # something was observed
        exp = set(ref) == {'SUCCESS'}
        if verdict != exp:
            out.failures.append(Failure('tests_verdict', f'C18/tests_verdict/expected={exp}',
                                        f'bool {verdict} for outcomes '
                                        f'{ {k: len(v) for k, v in ref.items()} }'))
    try:
        fresh = TestStatsTests(name='tests', task_results=task_results).evaluate()
        seen = _plain(fresh.classify)     # the helper is judged against what classify says
        statuses, counts = classification_counts(fresh.classify, TestOutcome.SUCCESS)
    except Exception as exc:
        out.failures.append(exc_failure('tests_counts_raises', exc))
        return
    gotc = [(s.name, int(c)) for s, c in zip(statuses, counts)]
    expc = {k: len(v) for k, v in seen.items()}
    if (dict(gotc) != expc or len(gotc) != len(expc) or len(statuses) != len(counts)
            or ('SUCCESS' in expc and gotc[0][0] != 'SUCCESS')):
        out.failures.append(Failure('tests_counts', 'C18/tests_counts',
                                    f'classification_counts {gotc} expected {expc}'))
    if ref and bool(fresh) != (set(ref) == {'SUCCESS'}):
        out.failures.append(Failure('tests_verdict', 'C18/tests_verdict/after-counts',
                                    f'bool {bool(fresh)} after classification_counts for outcomes '
                                    f'{ {k: len(v) for k, v in ref.items()} }'))


def _check_bylabels(case, task_results, out):
    by_labels = tuple(case['by_labels'])
    specs, expect_exc, ref, ref_missing = _ref_bylabels(case)
    nlab = len(by_labels)
    depth = 'one-label' if len(set(by_labels)) == 1 else 'several-labels'
    feat = f'nlab={nlab}' + ('/dup' if len(set(by_labels)) < nlab else '')
    if _has_junk(case):   # no documented behaviour of this summary for non-test entries
        task_results = _build(case, with_junk=False)
    test = TestStatsTestsByLabels(name='bylabels', task_results=task_results,
                                  by_labels=by_labels)
    try:
        res = test.evaluate()
    except TestStatsTestsByLabelsException as exc:
        if not expect_exc:
            out.failures.append(Failure(
                'bylabels_exception', 'C18/bylabels_exception/unexpected',
                f'every label of {by_labels} is carried by some test, yet: {exc}'))
        return
    except Exception as exc:
        out.failures.append(exc_failure('bylabels_raises', exc,
                                        ('absent-label/' if expect_exc else '') + feat))
        return
    if expect_exc:
        out.failures.append(Failure(
            'bylabels_exception', 'C18/bylabels_exception/not-raised',
            f'{by_labels} contains a label that no test carries, no exception; '
            f'classify={res.classify}'))
        return
    try:
        verdict = bool(res)
        oracles = [bool(x) for x in res.oracles()]
        nmiss = res.nb_missing_labels()
        got = [dict(grp) for grp in res.classify]
    except Exception as exc:
        out.failures.append(exc_failure('bylabels_read_raises', exc, feat))
        return
    gkeys = [tuple(grp.get('labels', ())) for grp in got]
    rkeys = [grp['labels'] for grp in ref]
    groups_ok = gkeys == rkeys
    if not groups_ok:
        what = 'order' if sorted(gkeys) == sorted(rkeys) else 'set'
        out.failures.append(Failure('bylabels_groups', f'C18/bylabels_groups/{what}/{depth}',
                                    f'by_labels={by_labels}: groups {gkeys} expected {rkeys}'))
    else:
        bad = [(g, r) for g, r in zip(got, ref)
               if any(g.get(k) != r[k] for k in ('OK', 'KO', 'total'))]
        if bad:
            out.failures.append(Failure('bylabels_counts', 'C18/bylabels_counts',
                                        f'by_labels={by_labels}: got {bad[0][0]} '
                                        f'expected {bad[0][1]}'))
    if any(g.get('OK', 0) + g.get('KO', 0) != g.get('total') for g in got):
        out.failures.append(Failure('bylabels_sum', 'C18/bylabels_sum',
                                    f'OK + KO != total in {got}'))
    if nmiss != ref_missing:
        out.failures.append(Failure('bylabels_missing', 'C18/bylabels_missing',
                                    f'by_labels={by_labels}: nb_missing_labels {nmiss} expected '
                                    f'{ref_missing} ({len(specs)} results)'))
    if sum(g.get('total', 0) for g in got) + nmiss != len(specs):
        out.failures.append(Failure('bylabels_partition', 'C18/bylabels_partition',
                                    f'totals + missing != {len(specs)} results: {got}, {nmiss}'))
    # oracles / verdict are judged against the reference groups; when the groups themselves are
    # already reported wrong, only their consistency with the reported groups is judged
    basis = ref if groups_ok else got
    exp_oracles = [grp.get('OK') == grp.get('total') for grp in basis]
    if oracles != exp_oracles:
        out.failures.append(Failure('bylabels_oracles', 'C18/bylabels_oracles',
                                    f'oracles {oracles} expected {exp_oracles} for {basis}'))
    if basis and verdict != all(exp_oracles):
        out.failures.append(Failure(
            'bylabels_verdict', f'C18/bylabels_verdict/expected={all(exp_oracles)}',
            f'bool {verdict} for groups {basis}'))


def run_case(case):
    out = Outcome()
    tasks = case['tasks']
    task_results = _build(case)
    specs, expect_exc, ref_groups, ref_missing = _ref_bylabels(case)
    nomiss = [t for t in tasks if t['results'] is None]
    verdicts = {spec['ok'] for spec in specs}

    def lab(cond, name):
        if cond:
            out.labels.append(name)
    lab(not tasks, 'empty-input')
    lab(tasks and not specs, 'no-results')
    lab(tasks and all(t['status'] == 'DONE' for t in tasks), 'tasks-all-done')
    lab(len({t['status'] for t in tasks}) > 1, 'tasks-mixed-status')
    lab(len({t['name'] for t in tasks}) < len(tasks), 'repeated-task-names')
    lab(len({s['name'] for s in specs}) < len(specs), 'repeated-test-names')
    lab(nomiss, 'has-missing-result')
    lab(any(t['results'] == [] for t in tasks), 'has-empty-result-list')
    lab(specs and verdicts == {True} and not nomiss, 'tests-all-success')
    lab(verdicts == {True, False}, 'tests-mixed-verdicts')
    lab(any(s['kind'] == 'failed' for s in specs), 'has-failed-evaluation')
    lab(_has_junk(case), 'has-not-a-test-entry')
    lab(expect_exc, 'bylabels-exception-expected')
    lab(not expect_exc and not ref_groups, 'bylabels-no-group')
    lab(not expect_exc and len(ref_groups) >= 2, 'bylabels-groups>=2')
    lab(not expect_exc and ref_missing > 0, 'bylabels-missing-label')
    lab(not expect_exc and ref_groups and all(g['OK'] == g['total'] for g in ref_groups),
        'bylabels-all-success')
    lab(not expect_exc and len(case['by_labels']) >= 2, 'bylabels-nlab>=2')
    lab(len(set(case['by_labels'])) < len(case['by_labels']), 'bylabels-repeated-label')
    lab(not expect_exc and len(set(case['by_labels'])) >= 2 and len(ref_groups) >= 2,
        'bylabels-multilabel-groups>=2')
    missing_label = any(lab_ not in s['labels'] for s in specs for lab_ in case['by_labels'])
    if len(specs) >= 3 and verdicts == {True, False} and (missing_label or nomiss):
        out.nontrivial = True
        out.labels.append('nontrivial')

    _check_tasks(case, task_results, out)
    _check_tests(case, task_results, out)
    _check_bylabels(case, task_results, out)
    return out


MANIFEST = {
    'text': ('Generated search (Hypothesis) over lists of (task name, environment section) pairs with every '
             'task status, repeated names, sections with/without a result list, and real test results '
             '(TestEqual, TestStudent, TestMetadata, failed evaluations) with generated verdicts and label '
             'dictionaries over a small pool; label selections of 1-3 labels incl. labels no test carries. '
             'The three summaries (TestStatsTasks, TestStatsTests, TestStatsTestsByLabels) are compared with '
             'a reference counter written as plain loops: every task once under its status, every result once '
             'under its verdict, result-less tasks as MISSING, per-group OK/KO/total, sorted groups, number of '
             'results lacking a label, OK+KO == total, totals + missing == number of results, verdict of the '
             'summary, documented exception iff a requested label is carried by no test. Exploration, not proof.'),
    'note': ('The verdict of a summary that observed nothing is not asserted. NOT_A_TEST entries and non-string '
             'label values are not generated. The counting helper classification_counts is judged on its '
             'returned counts only, on a fresh evaluation, because its reads insert keys (C13).'),
    'technique': 'property-based testing (Hypothesis), reference-model oracle (plain-loop counter)',
    'design_ref': 'DESIGN.md section 3, C18',
}
