"""C12 -- a rendered report shows a failure mark exactly for the results that
failed; detailed tables highlight exactly the failing bins with their values,
errors and bin labels; every table is valid reStructuredText that reads back as
the formatted inputs, also after slicing / joining.

Two families of cases:

* *renderings*: a test result of one of the kinds with a built-in tabular or
  textual representation is built from plain generated inputs (with a failing
  pattern imposed by construction), rendered by ``Rst.format_result`` with one
  of the representers at one of the verbosities, and the text is parsed back
  with docutils (``vlib/rstread.py``).  The *result object* is the ground truth
  for what failed (whether a bin should fail is the business of C05-C07).
* *chains*: histories of ``[slice]`` / ``[int]`` / ``copy`` / ``join`` on
  ``TableTemplate`` objects, shadowed by a list-of-rows model; every table that
  an operation produces is rendered by ``RstTable`` and read back.
"""
import math
import re

import numpy as np
from hypothesis import strategies as st

from valjean.cosette.task import TaskStatus
from valjean.eponine.dataset import Dataset
from valjean.gavroche.test import (TestEqual, TestApproxEqual, TestResultFailed,
                                   TestResultEqual, TestResultApproxEqual)
from valjean.gavroche.eval_test_task import actually_eval_test
from valjean.gavroche.stat_tests.student import TestStudent, TestResultStudent
from valjean.gavroche.stat_tests.bonferroni import (
    TestBonferroni, TestHolmBonferroni, TestResultBonferroni, TestResultHolmBonferroni)
from valjean.gavroche.diagnostics.metadata import TestMetadata, TestResultMetadata
from valjean.gavroche.diagnostics.stats import (
    TestStatsTasks, TestStatsTests, TestStatsTestsByLabels, TestResultStatsTasks,
    TestResultStatsTests, TestResultStatsTestsByLabels)
from valjean.javert import representation as rpr
from valjean.javert import templates as tmpl
from valjean.javert.rst import Rst, RstTable
from valjean.javert.templates import TableTemplate
from valjean.javert.test_report import TestReport
from valjean.javert.verbosity import Verbosity

from vlib.core import Failure, Outcome, HarnessError, valjean_frame
from vlib import rstread, dsutil

ID = 'C12'
LEVEL = 'exploration'
RULE = (
    'case = rendering (~83 %) or TableTemplate chain (~17 %). Rendering: result kind in {equal, '
    'approx-equal, Student, Bonferroni(Student), Holm-Bonferroni(Student)} on datasets of shape () '
    'to 3-D (1-4 cells per dimension, unit dimensions included) with edge / centre / no bins, 1-3 '
    'compared datasets, reference values of many magnitudes and a failing-bin pattern per dataset '
    'imposed by construction (none / all / one bin / mixed; shifts of 0, 1e-9 relative, 0.5, 3, 20 '
    'or 1000 combined sigma; a third of the (Holm-)Bonferroni cases use 3-sigma failures so that '
    'the nested Student result is false under a true correction), 6 % of them with inconsistent '
    'bins (failed evaluation); or metadata (2-3 samples, 1-5 keys, missing keys, equal or different '
    'values); or statistics of tasks / tests / tests by 1-3 labels over 1-6 tasks with 0-3 real '
    'test results each, dense or sparse labels (by-label requests naming an unused label give a '
    'failed evaluation); x verbosity SILENT..DEVELOPMENT x representer Table / FullTable / Full '
    '(and Plot / Empty for the one-directional clause). Oracle: docutils doctree of '
    'Rst.format_result compared with the result object read before rendering; mark = hl inline or '
    'the word KO. Chain: 1-3 initial tables (2-4 scalar or 1-D columns of float / int / str / bool, '
    'explicit or default highlights) and 1-6 operations slice (any step) / integer index / copy / '
    'join (method or function), every produced table rendered with RstTable and compared with a '
    'list-of-rows model, all live tables re-rendered at the end. non-trivial = a false result with '
    'a mixed pattern (some bins / keys / groups / items fail, some pass) rendered with at least one '
    'table, or a chain with a slice whose table was rendered; distinct = structural hash of the case')
RULE_ADDENDA = (' Also: metadata / label values ending with a blank or made of two words; failing bins that are undefined (NaN); Fortran / strided / negative-stride layouts; the result formatted inside a two-level report twice by the same Rst object; templates of an earlier rendering joined in place before rendering an equal result again; rows of label-group tables highlighted exactly for the groups with a failure.')
RULE = RULE + RULE_ADDENDA
ASSUMPTIONS = [
    'dataset, test, sample, task and label names / values are identifier-like words without reST '
    'markup, never empty and never the word KO (the property quantifies over kinds, shapes, '
    'patterns, verbosities and representers, not over markup in user strings)',
    'the result object (bool(result), oracles(), equal, approx_equal) is the ground truth of what '
    'failed; it is read BEFORE rendering and every rendering gets a freshly evaluated result '
    '(rendering a statistics result is known to alter it: property C13)',
    'bin coordinates have at most 4 significant digits so that the label of a bin does not depend '
    'on the precision chosen by the implementation; numbers are compared with the documented '
    "default format '{:11.6g}', surrounding blanks stripped",
    "the Sphinx role :ref: (used by the statistics lists; reports are built by Sphinx) is "
    'registered in docutils as a plain inline; any other docutils message of level >= WARNING is a '
    'failure',
    'at verbosity SILENT only validity / read-back of what is produced is checked (the property '
    'speaks about non-silent verbosities); for Plot / Empty representers only "a true result '
    'carries no mark" is asserted',
    'with the Full representers the part rendered for a (Holm-)Bonferroni result and the part '
    'rendered for its nested Student result are attributed to the respective result (parts are '
    'recognised by the words Bonferroni / Student in table headers and summary sentences)',
    'in detailed tables highlighted rows must be exactly the failing bins (cells: bin labels, '
    'values, errors); rows without highlight must show some passing bin; which cell of a failing '
    'row carries the highlight is not asserted',
    'chains: tables have 2-4 columns (a reST simple table needs two columns) and at least one '
    'row; selections retaining no row are not rendered (a reST table needs a body row); slicing '
    'is only applied to tables with array columns (documented TypeError otherwise); t.join(a, b) '
    'is the succession of binary joins',
    'metadata cases carry at least one key; statistics cases observe at least one task / result '
    '(the verdict of a summary that observed nothing is not documented, cf. C18)',
]
BUDGET = {'quick': {'cases': 9600, 'shards': 16, 'seconds': 150, 'shrink_s': 20},
          'thorough': {'cases': 320000, 'shards': 16, 'seconds': 840, 'shrink_s': 60}}
FLOORS = {'nontrivial': 0.12, 'family=rendering': 0.6, 'family=chain': 0.08,
          'result=false': 0.3, 'result=true': 0.12, 'pattern=mixed': 0.15, 'has-table': 0.25,
          'kind=equal': 0.04, 'kind=approx': 0.035, 'kind=student': 0.07, 'kind=bonferroni': 0.035,
          'kind=holm': 0.025, 'kind=metadata': 0.03, 'kind=stats_tasks': 0.04,
          'kind=stats_tests': 0.04, 'kind=stats_bylabels': 0.03, 'kind=failed': 0.025,
          'shape=scalar': 0.03, 'shape=1d': 0.08, 'shape=2d': 0.05, 'shape=3d': 0.05,
          'bins=none': 0.1, 'bins=some': 0.12, 'unit-dim': 0.06, 'nds>1': 0.09,
          'rep=table': 0.12, 'rep=fulltable': 0.09, 'rep=full': 0.07, 'rep=plot-or-empty': 0.025,
          'verb=SILENT': 0.03, 'verb=SUMMARY': 0.06, 'verb=DEFAULT': 0.07,
          'verb=INTERMEDIATE': 0.05, 'verb=FULL_DETAILS': 0.045, 'verb=DEVELOPMENT': 0.03,
          'detail-table-checked': 0.07, 'detail-partial-rows': 0.01, 'nested-part-rendered': 0.02,
          'stats-no-ok-item': 0.02, 'bylabels-no-group': 0.0005,
          'outer=True/nested=False': 0.008, 'outer=False/nested=False': 0.03,
          'outer=True/nested=True': 0.015,
          'chain-slice-rendered': 0.04, 'chain-join': 0.04, 'chain-index': 0.015, 'chain-copy': 0.02,
          'chain-scalar-table': 0.025, 'chain-default-hl': 0.03, 'chain-hl-nonuniform': 0.05}

VERBS = ['SILENT', 'SUMMARY', 'DEFAULT', 'INTERMEDIATE', 'FULL_DETAILS', 'DEVELOPMENT']
REPS = {'table': rpr.TableRepresenter, 'fulltable': rpr.FullTableRepresenter,
        'full': rpr.FullRepresenter, 'plot': rpr.PlotRepresenter, 'empty': rpr.EmptyRepresenter}
NAMES = ['ref', 'calc', 't4', 'ap3', 'mc', 'dsA', 'run2', 'base']
DS_KINDS = ['equal', 'approx', 'student', 'bonferroni', 'holm']
STATUSES = ['WAITING', 'PENDING', 'DONE', 'FAILED', 'SKIPPED']
LABELS = ['a', 'b', 'c']
LABEL_VALUES = ['x', 'y', 'z', 'z ', 'two words']
MD_KEYS = ['k0', 'k1', 'k2', 'k3', 'k4']
MD_VALUES = ['v', 'w', 'u7', 1, 2, 2.5, True, 'v ', 'two words']
NUM_FMT = '{:11.6g}'
DESCR = 'description of the test'
_KO = re.compile(r'\bKO\b')

# closeness codes of a compared bin (sign = direction of the shift):
#  0 same value; 1 relative shift 1e-9; 2 shift of 0.5 combined sigma; 3 of 20 sigma; 4 of 1000 sigma;
#  5 of 3 sigma (marginal: fails most Student tests but survives a Bonferroni correction over >= 2
#  bins, so that a nested Student result can be false under a true (Holm-)Bonferroni result);
#  6 the compared value is NaN (undefined bin: never equal, never compatible)
PASS_CODES = {'equal': [0], 'approx': [0, 1, -1], 'student': [0, 1, 2, -2]}
FAIL_CODES = {'equal': [1, 2, -3, 4, 6], 'approx': [2, -2, 3, -4, 6], 'student': [3, -3, 4, 5, -5, 5, 6]}


# --------------------------------------------------------------------------
# generation

_VALUE = st.one_of(
    st.floats(-1000.0, 1000.0, allow_nan=False),
    st.sampled_from([0.0, 1.0, -2.5, 1e-7, 123456789.0, -1e10, 3.141592653589793, 6.02e23,
                     0.000123456789, 99999.95, 1e5, 7.0]))
_SHAPE = st.one_of(
    st.just([]),
    st.lists(st.sampled_from([1, 2, 3, 4]), min_size=1, max_size=1),
    st.lists(st.sampled_from([2, 3, 4]), min_size=1, max_size=1),
    st.lists(st.sampled_from([1, 2, 2, 3]), min_size=2, max_size=2),
    st.lists(st.sampled_from([1, 2, 2, 3]), min_size=3, max_size=3))
# (Hypothesis favours the first elements of a sampled_from list: the rarest wishes come first)
_VERB = st.sampled_from([3, 4, 5, 2, 1, 3, 4, 2, 1, 0])
_REP = st.sampled_from(['full', 'fulltable', 'table'] * 5 + ['plot', 'empty'])
_RELERR = st.sampled_from([0.01, 0.1, 0.5])


def _pattern(draw, nds, size):
    mode = draw(st.sampled_from(['none', 'all', 'one', 'mixed', 'mixed', 'mixed']))
    if mode == 'none':
        return [[False] * size for _ in range(nds)]
    if mode == 'all':
        return [[True] * size for _ in range(nds)]
    pat = [[False] * size for _ in range(nds)]
    if mode == 'one':
        pat[draw(st.integers(0, nds - 1))][draw(st.integers(0, size - 1))] = True
        return pat
    pat = [[draw(st.booleans()) for _ in range(size)] for _ in range(nds)]
    if not any(any(p) for p in pat):
        pat[draw(st.integers(0, nds - 1))][draw(st.integers(0, size - 1))] = True
    return pat


@st.composite
def _dataset_case(draw):
    kind = draw(st.sampled_from(DS_KINDS + ['student']))
    base = 'student' if kind in ('bonferroni', 'holm') else kind
    shape = draw(_SHAPE)
    size = 1
    for dim in shape:
        size *= dim
    bins = None
    if shape and draw(st.integers(0, 3)) != 0:
        bins = [draw(st.sampled_from('ec')) for _ in shape]
    nds = draw(st.sampled_from([1, 1, 2, 3]))
    pattern = _pattern(draw, nds, size)
    values = [draw(_VALUE) for _ in range(size)]
    # marginal: failing bins lie 3 sigma away, a (Holm-)Bonferroni correction over >= 2 bins accepts them
    marginal = kind in ('bonferroni', 'holm') and draw(st.integers(0, 2)) == 0
    fail_codes = [5, -5] if marginal else FAIL_CODES[base]
    dsets = []
    for k in range(nds):
        codes = [draw(st.sampled_from(fail_codes if bad else PASS_CODES[base]))
                 for bad in pattern[k]]
        dsets.append({'name': draw(st.sampled_from(NAMES)), 'codes': codes,
                      'relerr': draw(_RELERR)})
    bad_bins = bool(bins) and draw(st.integers(0, 15)) == 0
    return {'kind': kind, 'shape': shape, 'bins': bins, 'values': values,
            'ref': {'name': draw(st.sampled_from(NAMES)), 'relerr': draw(_RELERR)},
            'dsets': dsets, 'alpha': draw(st.sampled_from([0.01, 0.05])),
            'ndf': None if marginal else draw(st.sampled_from([None, None, 5, 30])),
            'alpha2': 0.01 if marginal else draw(st.sampled_from([0.01, 0.05, 0.2])),
            'bad_bins': bad_bins, 'verb': draw(_VERB), 'rep': draw(_REP),
            'layout': draw(st.sampled_from(dsutil.LAYOUTS))}


@st.composite
def _metadata_case(draw):
    names = draw(st.permutations(NAMES))[:draw(st.sampled_from([2, 2, 3]))]
    keys = draw(st.lists(st.sampled_from(MD_KEYS), min_size=1, max_size=5, unique=True))
    mode = draw(st.sampled_from(['same', 'diff', 'diff', 'diff']))
    first = {key: draw(st.sampled_from(MD_VALUES)) for key in keys}
    samples = []
    for name in names:
        mdd = {}
        for key in keys:
            roll = draw(st.integers(0, 5)) if mode == 'diff' else 0
            if roll == 1:
                continue                      # missing key
            mdd[key] = draw(st.sampled_from(MD_VALUES)) if roll == 2 else first[key]
        samples.append({'name': name, 'md': mdd})
    if not any(samp['md'] for samp in samples):      # no metadata at all: nothing to tabulate
        samples[0]['md'][keys[0]] = first[keys[0]]
    return {'kind': 'metadata', 'samples': samples, 'verb': draw(_VERB), 'rep': draw(_REP)}


@st.composite
def _stats_case(draw):
    kind = draw(st.sampled_from(['stats_tasks', 'stats_tests', 'stats_bylabels']))
    all_good = draw(st.integers(0, 3)) == 0
    none_good = draw(st.integers(0, 5)) == 0
    sparse = draw(st.integers(0, 2)) == 0        # labels mostly absent: groups get rare
    ntasks = draw(st.integers(1, 6))
    tasks = []
    for idx in range(ntasks):
        if all_good:
            status = 'DONE'
        elif none_good:
            status = draw(st.sampled_from(['FAILED', 'SKIPPED', 'WAITING', 'PENDING']))
        else:
            status = draw(st.sampled_from(STATUSES + ['DONE', 'DONE']))
        results = None
        if all_good or draw(st.integers(0, 3)) != 0:
            nres = draw(st.sampled_from([1, 1, 2, 3] if all_good else [0, 1, 1, 2, 3]))
            results = []
            for _ in range(nres):
                okay = True if all_good else False if none_good else draw(st.booleans())
                labels = {lab: draw(st.sampled_from(LABEL_VALUES)) for lab in LABELS
                          if draw(st.integers(0, 1 if sparse else 4)) != 0}
                results.append({'ok': okay, 'name': draw(st.sampled_from(NAMES)),
                                'labels': labels})
        tasks.append({'name': f'task{idx}', 'status': status, 'results': results})
    if kind == 'stats_tests' and all(t['results'] == [] for t in tasks):
        tasks[0]['results'] = None          # a summary that observed nothing has no documented verdict
    pool = LABELS + ['d'] if draw(st.integers(0, 9)) == 0 else LABELS
    by_labels = draw(st.permutations(pool))[:draw(st.sampled_from([1, 2, 2, 3]))]
    return {'kind': kind, 'tasks': tasks, 'by_labels': list(by_labels),
            'verb': draw(_VERB), 'rep': draw(_REP)}


_CELL = {'f': st.sampled_from([0.0, 1.5, -2.25, 1e-7, 123456789.0, 1e300, 0.1, math.nan,
                               math.inf, 42.0]),
         'i': st.integers(-5, 1000),
         's': st.sampled_from(['egg', 'spam', 'bacon', 'x1', 'Tomato', 'a-b']),
         'b': st.booleans()}


@st.composite
def _chain_case(draw):
    ncols = draw(st.integers(2, 4))
    coltypes = [draw(st.sampled_from('ffisb')) for _ in range(ncols)]
    # "by-labels" family: all tables of the case are built the way the statistics-by-labels
    # tables are (columns = plain lists, highlights = nested lists of shape (rows, 1)); they
    # are joined and copied, never sliced (documented: slicing needs numpy columns)
    hl2d = draw(st.integers(0, 5)) == 0
    tables = []
    for _ in range(draw(st.integers(2, 3) if hl2d else st.integers(1, 3))):
        nrows = draw(st.sampled_from([1, 2, 2, 3, 3, 4] if hl2d else [None, 1, 2, 3, 4, 5, 6]))
        num = 1 if nrows is None else nrows
        cols = [[draw(_CELL[typ]) for _ in range(num)] for typ in coltypes]
        hlmode = 'some' if hl2d else \
            draw(st.sampled_from(['default', 'none', 'some', 'some', 'some', 'some']))
        if hlmode == 'default':
            hls = None
        elif hlmode == 'none':
            hls = [[False] * num for _ in coltypes]
        else:
            hls = [[draw(st.booleans()) for _ in range(num)] for _ in coltypes]
        spec = {'n': nrows, 'cols': cols, 'hl': hls}
        if hl2d:
            spec['hl2d'] = True
        tables.append(spec)
    ops = []
    for _ in range(draw(st.integers(1, 6))):
        what = draw(st.sampled_from(['copy', 'join', 'join', 'join'] if hl2d else
                                    ['slice', 'slice', 'slice', 'index', 'copy', 'join', 'join']))
        tab = draw(st.integers(0, 7))
        if what == 'slice':
            bound = st.one_of(st.none(), st.integers(-7, 7))
            ops.append({'op': 'slice', 't': tab, 'start': draw(bound), 'stop': draw(bound),
                        'step': draw(st.sampled_from([None, None, None, 1, 2, -1, -2]))})
        elif what == 'index':
            ops.append({'op': 'index', 't': tab, 'k': draw(st.integers(-6, 5))})
        elif what == 'copy':
            ops.append({'op': 'copy', 't': tab})
        else:
            ops.append({'op': 'join', 't': tab,
                        'others': draw(st.lists(st.integers(0, 7), min_size=1, max_size=2)),
                        'inplace': draw(st.booleans())})
    return {'kind': 'chain', 'coltypes': coltypes, 'tables': tables, 'ops': ops}


def strategy(tier):
    return st.one_of(_dataset_case(), _dataset_case(), _dataset_case(), _dataset_case(),
                     _dataset_case(), _dataset_case(), _metadata_case(), _stats_case(),
                     _stats_case(), _stats_case(), _chain_case(), _chain_case())


# --------------------------------------------------------------------------
# construction of real results from a case

def _edges(dim, num):
    return [100.0 * dim + idx for idx in range(num + 1)]


def _centres(dim, num):
    return [100.0 * dim + idx + 0.5 for idx in range(num)]


def _bins(shape, kinds, shift=0.0):
    from collections import OrderedDict
    bins = OrderedDict()
    for dim, (num, knd) in enumerate(zip(shape, kinds)):
        coords = _edges(dim, num) if knd == 'e' else _centres(dim, num)
        bins[f'x{dim}'] = np.array(coords, dtype=float) + shift
    return bins


def _shifted(val, sigma, code):
    mag = abs(code)
    if mag == 0:
        return val
    if mag == 6:
        return math.nan
    sign = 1.0 if code > 0 else -1.0
    if mag == 1:
        return val * (1.0 + sign * 1e-9)
    return val + sign * {2: 0.5, 3: 20.0, 4: 1000.0, 5: 3.0}[mag] * sigma


def _dataset_arrays(case):
    """Plain numbers of the reference and of the compared datasets."""
    values = [float(v) for v in case['values']]
    scale = [max(abs(v), 1.0) for v in values]
    ref_err = [case['ref']['relerr'] * s for s in scale]
    out = []
    for dset in case['dsets']:
        err = [dset['relerr'] * s for s in scale]
        sigma = [math.sqrt(a * a + b * b) for a, b in zip(ref_err, err)]
        val = [_shifted(v, s, c) for v, s, c in zip(values, sigma, dset['codes'])]
        out.append((val, err))
    return values, ref_err, out


def _make_ds(shape, kinds, val, err, name, shift=0.0, layout='C'):
    if not shape:
        return Dataset(np.float64(val[0]), np.float64(err[0]), name=name, what='w')
    bins = _bins(shape, kinds, shift) if kinds else None
    value = np.array(val, dtype=float).reshape(shape)
    error = np.array(err, dtype=float).reshape(shape)
    # same numbers, other memory layout (Fortran order, strided view, negative stride)
    value, error = dsutil.relayout(value, layout), dsutil.relayout(error, layout)
    return Dataset(value, error, bins=bins, name=name, what='w')


def _dataset_result(case):
    shape, kinds = tuple(case['shape']), case['bins']
    values, ref_err, others = _dataset_arrays(case)
    layout = case.get('layout', 'C')
    dsref = _make_ds(shape, kinds, values, ref_err, case['ref']['name'], layout=layout)
    dsets = [_make_ds(shape, kinds, val, err, dset['name'],
                      shift=1.0 if case['bad_bins'] and idx == 0 else 0.0, layout=layout)
             for idx, (dset, (val, err)) in enumerate(zip(case['dsets'], others))]
    kind = case['kind']
    if kind == 'equal':
        test = TestEqual(dsref, *dsets, name='the_test', description=DESCR)
    elif kind == 'approx':
        test = TestApproxEqual(dsref, *dsets, name='the_test', description=DESCR)
    else:
        test = TestStudent(dsref, *dsets, name='the_test', description=DESCR,
                           alpha=case['alpha'], ndf=case['ndf'])
        if kind == 'bonferroni':
            test = TestBonferroni(test=test, name='the_bonf', description=DESCR,
                                  alpha=case['alpha2'])
        elif kind == 'holm':
            test = TestHolmBonferroni(test=test, name='the_holm', description=DESCR,
                                      alpha=case['alpha2'])
    if case['bad_bins']:
        res = actually_eval_test(test)
        if not isinstance(res, TestResultFailed):
            raise HarnessError('inconsistent bins did not give a failed evaluation')
        return res
    return test.evaluate()


def _small_result(spec):
    ref = Dataset(np.array([1.0, 2.0]), np.array([0.125, 0.125]), name='r', what='w')
    other = Dataset(np.array([1.0, 2.0 if spec['ok'] else 7.0]), np.array([0.125, 0.125]),
                    name='o', what='w')
    res = TestEqual(ref, other, name=spec['name'], labels=dict(spec['labels'])).evaluate()
    if bool(res) != spec['ok']:
        raise HarnessError('helper result has the wrong verdict')
    return res


def _stats_result(case):
    task_results = []
    for task in case['tasks']:
        section = {'status': TaskStatus[task['status']]}
        if task['results'] is not None:
            section['result'] = [_small_result(spec) for spec in task['results']]
        task_results.append((task['name'], section))
    if case['kind'] == 'stats_tasks':
        return TestStatsTasks(name='stats', description=DESCR,
                              task_results=task_results).evaluate()
    if case['kind'] == 'stats_tests':
        return TestStatsTests(name='stats', description=DESCR,
                              task_results=task_results).evaluate()
    return actually_eval_test(TestStatsTestsByLabels(
        name='stats', description=DESCR, task_results=task_results,
        by_labels=tuple(case['by_labels'])))


def _metadata_result(case):
    dmd = {samp['name']: dict(samp['md']) for samp in case['samples']}
    return TestMetadata(dmd, name='the_md', description=DESCR).evaluate()


def _build_result(case):
    kind = case['kind']
    if kind in DS_KINDS:
        return _dataset_result(case)
    if kind == 'metadata':
        return _metadata_result(case)
    return _stats_result(case)


# --------------------------------------------------------------------------
# reference formatting

def _fmt(val):
    """Documented cell format: numbers with '{:11.6g}', the rest with str()."""
    if isinstance(val, (float, np.floating)):
        return NUM_FMT.format(val).strip()
    return str(val).strip()


def _template_rows(table):
    """Rows [(text, highlighted or None)] that a TableTemplate describes."""
    cols = [np.asarray(col).ravel() for col in table.columns]
    hls = [np.asarray(hlc).ravel() for hlc in table.highlights]
    rows = []
    for idx in range(cols[0].size):
        rows.append([(_fmt(col[idx]) if idx < col.size else None,
                      bool(hlc[idx]) if idx < hlc.size else None)
                     for col, hlc in zip(cols, hls)])
    return rows


def _compare_rows(got, exp):
    """First difference between read-back rows and expected rows, or None."""
    if len(got) != len(exp):
        return 'nrows', f'{len(got)} rows read back, {len(exp)} expected'
    for ridx, (grow, erow) in enumerate(zip(got, exp)):
        if len(grow) != len(erow):
            return 'ncols', f'row {ridx}: {len(grow)} cells, {len(erow)} expected'
        for cidx, ((gtxt, ghl), (etxt, ehl)) in enumerate(zip(grow, erow)):
            if gtxt != etxt:
                return 'cells', f'row {ridx} col {cidx}: {gtxt!r} expected {etxt!r}'
            if ghl != ehl:
                return 'hl', f'row {ridx} col {cidx} ({gtxt!r}): highlighted={ghl} expected {ehl}'
    return None


def _msg_class(text):
    text = re.sub(r'\s+', ' ', text)
    for pat in ('Unknown interpreted text role', 'Malformed table', 'Unexpected indentation',
                'Unknown directive', 'Inline', 'Unknown target name', 'ends without a blank line',
                'Duplicate', 'Error in'):
        if pat in text:
            return pat.replace(' ', '_')
    return 'other'


# --------------------------------------------------------------------------
# rendering cases

def _shape_class(shape):
    return {0: 'scalar', 1: '1d', 2: '2d', 3: '3d'}[len(shape)]


def _where(exc):
    return valjean_frame(exc)[1]


def _raise_signature(exc, sigkind):
    """Bucket of an exception raised while rendering: failures inside the plot
    catalogue are one family (they do not depend on the kind of result), the
    others are bucketed by the kind of result being rendered."""
    import traceback
    plot_fn = None
    for frame in traceback.extract_tb(exc.__traceback__):
        if frame.filename.replace('\\', '/').endswith('valjean/javert/plot_repr.py'):
            plot_fn = frame.name
    if plot_fn:
        return f'C12/render_raises/plot_repr.py:{plot_fn}'
    return f'C12/render_raises/kind={sigkind}'


def _marks(blocks):
    for blk in blocks:
        if blk.get('hl'):
            return True
        if blk['type'] == 'table' and any(hl for row in blk['rows'] for _t, hl in row):
            return True
        if blk['type'] == 'text' and _KO.search(blk['text']):
            return True
    return False


def _part_of(blk):
    """'outer' / 'nested': the part of a (Holm-)Bonferroni rendering a block belongs to,
    recognised by the words Bonferroni / Student in table headers and sentences."""
    if blk['type'] == 'table':
        heads = blk['headers'] if blk['n_header_rows'] == 1 else sum(blk['headers'], [])
        words = ' '.join(heads)
    elif blk['type'] == 'text':
        words = blk['text']
    else:
        return 'outer'
    if 'Bonferroni' in words:
        return 'outer'
    if 'Student' in words:
        return 'nested'
    return 'outer'


def _is_outer(blk):
    return _part_of(blk) == 'outer'


def _truth(result):
    """Per-bin failure flags (list over datasets of flat lists) of a dataset result."""
    if isinstance(result, TestResultStudent):
        return [[not bool(x) for x in np.asarray(ora).ravel()] for ora in result.oracles()]
    if isinstance(result, TestResultEqual):
        return [[not bool(x) for x in np.asarray(eqv).ravel()] for eqv in result.equal]
    if isinstance(result, TestResultApproxEqual):
        return [[not bool(x) for x in np.asarray(eqv).ravel()] for eqv in result.approx_equal]
    raise HarnessError(f'no per-bin truth for {type(result).__name__}')


def _bin_labels(case):
    """Per flat cell, the labels of the non-trivial binned dimensions."""
    shape, kinds = case['shape'], case['bins']
    if not shape:
        return [[]]
    labels = []
    for index in np.ndindex(*shape):
        lab = []
        for dim, (num, pos) in enumerate(zip(shape, index)):
            if kinds is None or num < 2:
                continue
            if kinds[dim] == 'e':
                edges = _edges(dim, num)
                lab.append(f'{edges[pos]:g} - {edges[pos + 1]:g}')
            else:
                lab.append(f'{_centres(dim, num)[pos]:g}')
        labels.append(lab)
    return labels


def _detail_model(case, result):
    """Expected (cells, failing) per bin of a detailed dataset table and the
    positions of those cells in a row.  cells = bin labels + value (+ error) of
    the reference + value (+ error) of every compared dataset."""
    student = isinstance(result, TestResultStudent)
    fails = _truth(result)
    values, ref_err, others = _dataset_arrays(case)
    labels = _bin_labels(case)
    nbin = len(labels[0])
    nds = len(others)
    if student:
        ncols = nbin + 2 + 4 * nds
        pos = list(range(nbin + 2))
        for k in range(nds):
            pos += [nbin + 2 + 4 * k, nbin + 3 + 4 * k]
    else:
        ncols = nbin + 1 + 2 * nds
        pos = list(range(nbin + 1)) + [nbin + 1 + 2 * k for k in range(nds)]
    rows = []
    for idx, lab in enumerate(labels):
        cells = list(lab) + [_fmt(values[idx])] + ([_fmt(ref_err[idx])] if student else [])
        for val, err in others:
            cells.append(_fmt(val[idx]))
            if student:
                cells.append(_fmt(err[idx]))
        rows.append((cells, any(f[idx] for f in fails)))
    return rows, pos, ncols


def _check_detail(case, result, table, out, kind):
    model, pos, ncols = _detail_model(case, result)
    feat = f'kind={kind}'
    bad_width = [r for r in table['rows'] if len(r) != ncols]
    if bad_width or len(table['headers']) != ncols:
        out.failures.append(Failure('detail_rows', f'C12/detail_rows/{feat}/ncols',
                                    f'{len(table["headers"])} columns, expected {ncols}'))
        return
    got_hl, got_plain = [], []
    for row in table['rows']:
        cells = [row[p][0] for p in pos]
        (got_hl if any(hl for _t, hl in row) else got_plain).append(cells)
    exp_fail = [cells for cells, bad in model if bad]
    exp_pass = [cells for cells, bad in model if not bad]
    out.labels.append('detail-table-checked')
    if len(table['rows']) < len(model):
        out.labels.append('detail-partial-rows')
    if len(got_hl) != len(exp_fail):
        out.failures.append(Failure(
            'detail_rows', f'C12/detail_rows/{feat}/highlighted-rows',
            f'{len(got_hl)} highlighted rows for {len(exp_fail)} failing bins '
            f'(table of {len(table["rows"])} rows, {len(model)} bins)'))
        return
    for ridx, (got, exp) in enumerate(zip(got_hl, exp_fail)):
        if got != exp:
            nbin = len(_bin_labels(case)[0])
            what = 'bins' if got[:nbin] != exp[:nbin] else 'values'
            out.failures.append(Failure(
                'detail_rows', f'C12/detail_rows/{feat}/highlighted-rows',
                f'highlighted row {ridx} ({what}): {got} expected {exp}'))
            return
    for got in got_plain:
        if got not in exp_pass:
            out.failures.append(Failure(
                'detail_rows', f'C12/detail_rows/{feat}/plain-row-not-a-passing-bin',
                f'row without highlight {got} is not a passing bin'))
            return


def _stats_feature(case, kind):
    if kind == 'stats_tasks':
        return 'ok-item' if any(t['status'] == 'DONE' for t in case['tasks']) else 'no-ok-item'
    if kind == 'stats_tests':
        good = any(spec['ok'] for t in case['tasks'] for spec in t['results'] or ())
        return 'ok-item' if good else 'no-ok-item'
    return ''


def _mixed(case, result, kind):
    """Mixed pattern: something fails and something passes inside the result."""
    if kind in ('equal', 'approx', 'student'):
        flat = [f for per in _truth(result) for f in per]
        return any(flat) and not all(flat)
    if kind in ('bonferroni', 'holm'):
        flat = [bool(x) for rnh in result.rejected_null_hyp for x in np.asarray(rnh).ravel()]
        return any(flat) and not all(flat)
    if kind == 'metadata':
        per_key = list(result.per_key().values())
        return any(per_key) and not all(per_key)
    if kind == 'stats_bylabels':
        ora = result.oracles()
        return any(ora) and not all(ora)
    if kind in ('stats_tasks', 'stats_tests'):
        return _stats_feature(case, kind) == 'ok-item' and not bool(result)
    return False


def _run_rendering(case, out):
    kind, verb, rep = case['kind'], VERBS[case['verb']], case['rep']
    out.labels += ['family=rendering', f'verb={verb}',
                   'rep=plot-or-empty' if rep in ('plot', 'empty') else f'rep={rep}']
    result = _build_result(case)
    failed_eval = isinstance(result, TestResultFailed)
    rkind = 'failed' if failed_eval else kind
    out.labels.append(f'kind={rkind}')
    if kind in DS_KINDS:
        shape = case['shape']
        out.labels += [f'shape={_shape_class(shape)}',
                       'bins=some' if case['bins'] else 'bins=none']
        if 1 in shape:
            out.labels.append('unit-dim')
        if case.get('layout', 'C') != 'C':
            out.labels.append('layout-' + case['layout'])
        if len(case['dsets']) > 1:
            out.labels.append('nds>1')
    truth = bool(result)                       # read before any rendering
    inner_truth = None
    if isinstance(result, (TestResultBonferroni, TestResultHolmBonferroni)):
        inner_truth = bool(result.first_test_res)
        out.labels.append(f'outer={truth}/nested={inner_truth}')
    mixed = (not failed_eval) and _mixed(case, result, kind)
    out.labels.append('result=true' if truth else 'result=false')
    if mixed:
        out.labels.append('pattern=mixed')
    sigkind = 'stats' if rkind in ('stats_tasks', 'stats_tests') else rkind
    feat = f'kind={sigkind}'
    sfeat = _stats_feature(case, kind) if not failed_eval else ''
    if sfeat == 'no-ok-item':
        out.labels.append('stats-no-ok-item')
    if kind == 'stats_bylabels' and not failed_eval and not result.classify:
        sfeat = 'no-group'               # every test lacks one of the requested labels
        out.labels.append('bylabels-no-group')

    # ---- render
    representation = rpr.Representation(REPS[rep](), Verbosity[verb])
    try:
        text = '\n'.join(Rst(representation).format_result(result))
    except Exception as exc:      # the property promises a rendering for every such result
        out.failures.append(Failure(
            'render_raises', _raise_signature(exc, sigkind + ('/no-group' if sfeat == 'no-group' else '')),
            f'{type(exc).__name__}: {exc}'[:300]
            + f' at {_where(exc)} [{kind}, shape {case.get("shape")}, {rep}, {verb}]'))
        return
    parsed = rstread.read(text)
    tables = parsed.tables
    if tables:
        out.labels.append('has-table')
    out.info = {'text': text[-600:]}

    # ---- the result inside a report, formatted twice by the SAME Rst object (an object may
    # format several reports one after the other): every page of the second report must be
    # the page of the first one, and the page holding the result must hold its rendering
    try:
        rst = Rst(representation)
        report = TestReport(title='main', content=[TestReport(title='section', content=[result])])
        pages = [dict((k, list(v)) for k, v in
                      rst.format_report(report=report, author='a', version='0').text_dict.items())
                 for _ in range(2)]
    except Exception as exc:
        out.failures.append(Failure(
            'render_raises', _raise_signature(exc, sigkind + '/in-report'),
            f'{type(exc).__name__}: {exc}'[:300] + f' at {_where(exc)} [format_report]'))
    else:
        out.labels.append('formatted-in-two-reports')
        page = '\n'.join(pages[0].get(('section',), []))
        if text and text not in page:
            out.failures.append(Failure(
                'report_page', f'C12/report_page/first-report/{feat}',
                'the page of the section does not hold the rendering of its result'))
        elif pages[1] != pages[0]:
            diff = [k for k in pages[0] if pages[1].get(k) != pages[0][k]]
            out.failures.append(Failure(
                'report_page', f'C12/report_page/second-report-differs/{feat}',
                f'second report formatted by the same Rst object: page(s) {diff} differ from '
                f'those of the first report'))

    # ---- validity
    if parsed.messages:
        level, msg = parsed.messages[0]
        out.failures.append(Failure(
            'rst_valid', f'C12/rst_valid/{feat}/{_msg_class(msg)}',
            f'docutils level {level}: {msg[:200]}'))

    # ---- (c) every table reads back as the template it was made from
    try:
        templs = representation(_build_result(case))
    except Exception as exc:
        raise HarnessError(f'second rendering raised although the first did not: {exc!r}')
    ttempl = [t for t in templs if isinstance(t, TableTemplate)]
    if len(ttempl) != len(tables):
        out.failures.append(Failure(
            'table_readback', f'C12/table_readback/{feat}/ntables',
            f'{len(tables)} tables read back for {len(ttempl)} table templates'))
    else:
        for tidx, (templ, table) in enumerate(zip(ttempl, tables)):
            heads = [str(h).strip() for h in templ.headers]
            diff = None
            if table['n_header_rows'] != 1 or table['headers'] != heads:
                diff = ('headers', f'{table["headers"]} expected {heads}')
            else:
                diff = _compare_rows(table['rows'], _template_rows(templ))
            if diff:
                extra = f'/{sfeat}' if sfeat and diff[0] == 'hl' else ''
                out.failures.append(Failure(
                    'table_readback', f'C12/table_readback/{feat}/{diff[0]}{extra}',
                    f'table {tidx}: {diff[1]}'))
                break

    # ---- templates handed out belong to the caller: joining them IN PLACE (the documented way
    # to merge texts / tables, cf. "also after a table has been ... joined") must not change what
    # a later rendering of an equal result looks like
    try:
        for templ in representation(_build_result(case)):
            if isinstance(templ, (TableTemplate, tmpl.TextTemplate)):
                try:
                    templ.join(templ.copy())
                except Exception:      # pylint: disable=broad-except
                    pass               # (joins that the template refuses are not the point here)
        text_again = '\n'.join(Rst(representation).format_result(_build_result(case)))
    except Exception as exc:
        out.failures.append(Failure(
            'render_raises', _raise_signature(exc, sigkind + '/after-join'),
            f'{type(exc).__name__}: {exc}'[:300] + f' at {_where(exc)} [rendering again after '
            f'an in-place join of the templates of an earlier rendering]'))
    else:
        out.labels.append('rendered-again-after-in-place-join')
        if text_again != text:
            out.failures.append(Failure(
                'history', f'C12/history/in-place-join-leaks/{feat}',
                'after joining in place the templates returned by an earlier representation, '
                'an equal result is rendered differently'))

    # ---- (a) mark <=> false, per rendered result
    nested = inner_truth is not None and rep in ('fulltable', 'full')
    if nested:
        body = [b for b in parsed.blocks
                if b['type'] != 'image' and not (b['type'] == 'text' and b['text'] == DESCR)]
        outer = [b for b in body if _is_outer(b)]
        inner = [b for b in body if not _is_outer(b)]
        parts = [('outer', outer, truth)]
        if inner:
            parts.append(('nested', inner, inner_truth))
            out.labels.append('nested-part-rendered')
    else:
        parts = [('outer', parsed.blocks, truth)]
    for pname, blocks, ptruth in parts:
        if verb == 'SILENT':
            break
        mark = _marks(blocks)
        part = f'/part={pname}' if nested else ''
        if ptruth and mark:
            out.failures.append(Failure(
                'mark_iff_false', f'C12/mark_spurious/{feat}{part}',
                f'true result rendered with a mark ({rep}, {verb})'))
        if rep not in ('plot', 'empty') and not ptruth and not mark:
            if kind == 'stats_tests' and all(t['results'] == [] for t in case['tasks']):
                out.excluded += 1           # nothing observed: verdict not documented
                continue
            extra = f'/{sfeat}' if sfeat else ''
            out.failures.append(Failure(
                'mark_iff_false', f'C12/mark_missing/{feat}{part}{extra}',
                f'false result rendered without any mark ({rep}, {verb}): {text[-300:]!r}'))

    # ---- (a') statistics by labels: in every table that lists label groups with their shares of
    # successes and failures, the highlighted rows are exactly the groups with a failure
    if kind == 'stats_bylabels' and not failed_eval and rep in ('table', 'fulltable', 'full'):
        for table in tables:
            if table['headers'][-2:] != ['% success', '% failure']:
                continue
            out.labels.append('bylabels-group-table')
            for row in table['rows']:
                shown = row[-1][0].replace('\xa0', ' ')
                try:
                    failing = int(shown.split('/')[0]) > 0
                except ValueError:
                    continue
                marked = any(hlt for _text, hlt in row)
                if failing != marked:
                    out.failures.append(Failure(
                        'detail_rows', f'C12/group_rows/{"unmarked-failing" if failing else "marked-passing"}'
                        f'/verb={verb}',
                        f'label group {[t for t, _h in row[:-2]]} shows {shown!r} failures and is '
                        f'{"" if marked else "not "}highlighted ({rep}, {verb})'))
                    break

    # ---- (b) detailed dataset tables
    if kind in DS_KINDS and not failed_eval and rep in ('table', 'fulltable', 'full'):
        if kind in ('bonferroni', 'holm'):
            inner_res = _build_result(case).first_test_res
            detail = [t for t in tables if not _is_outer(t)]
            dkind = 'student'
        else:
            inner_res = _build_result(case)
            detail = tables
            dkind = kind
        for table in detail:
            _check_detail(case, inner_res, table, out, dkind)

    # ---- (b') detailed metadata tables: one row per key, one column per sample; every cell
    # shows the value of ITS sample for ITS key and is highlighted iff it differs from the
    # value of the reference sample (the first one in alphabetical order, as documented)
    if kind == 'metadata' and not failed_eval and tables and rep in ('table', 'fulltable', 'full'):
        _check_metadata_table(case, tables[0], out)

    if mixed and not truth and tables:
        out.nontrivial = True
        out.labels.append('nontrivial')


def _check_metadata_table(case, table, out):
    dmd = {samp['name']: dict(samp['md']) for samp in case['samples']}
    refname = sorted(dmd)[0]
    heads = table['headers']
    if not heads or heads[0] != 'key' or sorted(heads[1:]) != sorted(dmd):
        return                                  # not the detailed table (summary text etc.)
    out.labels.append('metadata-detail-table')
    if list(dmd) != sorted(dmd):
        out.labels.append('metadata-samples-unsorted')
    for row in table['rows']:
        key = row[0][0]
        for name, (text, hlt) in zip(heads[1:], row[1:]):
            # (a table cell cannot show leading or trailing blanks)
            want = str(dmd[name][key]).strip() if key in dmd[name] else 'MISSING'
            ref = dmd[refname].get(key, 'MISSING')
            differs = (dmd[name].get(key, 'MISSING') != ref
                       if not (key not in dmd[name] and key not in dmd[refname]) else False)
            if text != want:
                out.failures.append(Failure(
                    'detail_cells', 'C12/detail_cells/kind=metadata/value',
                    f'key {key!r}, sample {name!r}: cell shows {text!r}, the sample holds {want!r} '
                    f'(samples {list(dmd)}, reference {refname!r})'))
                return
            if bool(hlt) != bool(differs):
                out.failures.append(Failure(
                    'detail_rows', 'C12/detail_rows/kind=metadata/highlight',
                    f'key {key!r}, sample {name!r} ({text!r}, reference value {ref!r}): '
                    f'highlighted={hlt}, differs from the reference={differs}'))
                return


# --------------------------------------------------------------------------
# chains of slice / index / copy / join on TableTemplate

_DTYPES = {'f': float, 'i': np.int64, 's': str, 'b': bool}
_SCALARS = {'f': np.float64, 'i': np.int64, 's': np.str_, 'b': np.bool_}


def _chain_initial(case, spec):
    """A live TableTemplate and its model.  The model is a dictionary: headers,
    cols / hl (lists of columns of plain cells / booleans), scalar (columns are
    numpy scalars), and three cause features used in bucket signatures only:
    default_hl (highlights left to the default somewhere in the lineage),
    getitem (a slice / index somewhere in the lineage), negstep (this very
    table is a negative-step view)."""
    types = case['coltypes']
    headers = [f'h{idx}{typ}' for idx, typ in enumerate(types)]
    scalar = spec['n'] is None
    if scalar:
        cols = [_SCALARS[typ](col[0]) for typ, col in zip(types, spec['cols'])]
        hls = None if spec['hl'] is None else [np.bool_(h[0]) for h in spec['hl']]
    else:
        cols = [np.array(col, dtype=_DTYPES[typ]) for typ, col in zip(types, spec['cols'])]
        hls = None if spec['hl'] is None else [np.array(h, dtype=bool) for h in spec['hl']]
        if spec.get('hl2d'):
            cols = [col.tolist() for col in cols]
            hls = [[[bool(h)] for h in hlc] for hlc in spec['hl']]
    real = TableTemplate(*cols, headers=list(headers), highlights=hls)
    mcols = [[_SCALARS[typ](v) for v in col] for typ, col in zip(types, spec['cols'])]
    mhls = [[False] * len(col) for col in mcols] if spec['hl'] is None \
        else [[bool(h) for h in hlc] for hlc in spec['hl']]
    model = {'headers': headers, 'cols': mcols, 'hl': mhls, 'scalar': scalar,
             'default_hl': spec['hl'] is None, 'getitem': False, 'negstep': False}
    return real, model


def _model_rows(model):
    nrows = len(model['cols'][0])
    return [[(_fmt(col[idx]), hlc[idx]) for col, hlc in zip(model['cols'], model['hl'])]
            for idx in range(nrows)]


def _chain_features(model, case):
    """Cause features of a table, computed from the history that made it."""
    if model['default_hl'] and case['coltypes'][0] == 's':
        return 'default-hl-text-first-col'
    if model['negstep']:
        return 'negative-step-view'
    return 'lineage=getitem' if model['getitem'] else 'lineage=plain'


def _verify_table(real, model, case, out):
    """Render one table and compare with the model; True when it agrees."""
    feat = _chain_features(model, case)
    try:
        text = str(RstTable(real))
    except Exception as exc:
        out.failures.append(Failure('chain_raises', f'C12/chain_render_raises/{feat}',
                                    f'{type(exc).__name__}: {exc}'[:300] + f' at {_where(exc)}'))
        return False
    parsed = rstread.read(text)
    if parsed.messages:
        level, msg = parsed.messages[0]
        out.failures.append(Failure('rst_valid', f'C12/chain_rst_valid/{feat}/{_msg_class(msg)}',
                                    f'docutils level {level}: {msg[:200]}'))
        return False
    tables = parsed.tables
    if len(tables) != 1:
        out.failures.append(Failure('chain_rows', f'C12/chain_rows/{feat}/ntables',
                                    f'{len(tables)} tables read back'))
        return False
    table = tables[0]
    if table['n_header_rows'] != 1 or table['headers'] != model['headers']:
        diff = ('headers', f'{table["headers"]} expected {model["headers"]}')
    else:
        diff = _compare_rows(table['rows'], _model_rows(model))
    if diff:
        aspect = '' if feat in ('negative-step-view', 'default-hl-text-first-col') \
            else '/' + diff[0]
        out.failures.append(Failure('chain_rows', f'C12/chain_rows/{feat}{aspect}',
                                    f'{diff[1]}; rendered:\n{text[-500:]}'))
        return False
    return True


def _run_chain(case, out):
    out.labels.append('family=chain')
    if any(spec.get('hl2d') for spec in case['tables']):
        out.labels.append('chain:tables-built-like-by-labels')
    pool = []
    for spec in case['tables']:
        real, model = _chain_initial(case, spec)
        if model['scalar']:
            out.labels.append('chain-scalar-table')
        if model['default_hl']:
            out.labels.append('chain-default-hl')
        flat = [h for hlc in model['hl'] for h in hlc]
        if any(flat) and not all(flat):
            out.labels.append('chain-hl-nonuniform')
        if not _verify_table(real, model, case, out):
            return
        pool.append((real, model))
    sliced = False
    for opn in case['ops']:
        real, model = pool[opn['t'] % len(pool)]
        nrows = len(model['cols'][0])
        kind = opn['op']
        new = None
        try:
            if kind == 'slice':
                if model['scalar']:
                    continue
                slc = slice(opn['start'], opn['stop'], opn['step'])
                keep = list(range(nrows))[slc]
                if not keep:
                    out.excluded += 1
                    continue
                new_model = dict(model, cols=[[col[i] for i in keep] for col in model['cols']],
                                 hl=[[hlc[i] for i in keep] for hlc in model['hl']],
                                 getitem=True, negstep=(opn['step'] or 1) < 0 and len(keep) > 1)
                new = (real[slc], new_model)
            elif kind == 'index':
                if model['scalar']:
                    continue
                pos = opn['k'] if -nrows <= opn['k'] < nrows else opn['k'] % nrows
                new_model = dict(model, cols=[[col[pos]] for col in model['cols']],
                                 hl=[[hlc[pos]] for hlc in model['hl']], scalar=True,
                                 getitem=True, negstep=False)
                new = (real[pos], new_model)
                out.labels.append('chain-index')
            elif kind == 'copy':
                new = (real.copy(), dict(model, cols=[list(c) for c in model['cols']],
                                         hl=[list(h) for h in model['hl']], negstep=False))
                out.labels.append('chain-copy')
            else:
                others = [pool[j % len(pool)] for j in opn['others']]
                out.labels.append('chain-join')
                inplace = opn['inplace']
                # join = successive binary joins onto the left table (in place) or onto a copy
                joined = model if inplace else dict(model)
                for _oreal, omodel in others:
                    ocols = [list(c) for c in omodel['cols']]     # snapshot: omodel may be joined
                    ohls = [list(h) for h in omodel['hl']]
                    joined.update(
                        cols=[list(a) + b for a, b in zip(joined['cols'], ocols)],
                        hl=[list(a) + b for a, b in zip(joined['hl'], ohls)],
                        scalar=False, negstep=False,
                        default_hl=joined['default_hl'] or omodel['default_hl'],
                        getitem=joined['getitem'] or omodel['getitem'])
                if inplace:
                    real.join(*[o[0] for o in others])
                    new = (real, model)
                else:
                    new = (tmpl.join(real, *[o[0] for o in others]), joined)
        except Exception as exc:
            feat = _chain_features(model, case)
            out.failures.append(Failure('chain_raises', f'C12/chain_raises/op={kind}/{feat}',
                                        f'{type(exc).__name__}: {exc}'[:300]
                                        + f' at {_where(exc)}'))
            return
        if not _verify_table(new[0], new[1], case, out):
            return
        if kind == 'slice':
            sliced = True
            out.labels.append('chain-slice-rendered')
        if new[0] is not real and len(pool) < 8:
            pool.append(new)
    # nothing that an operation left behind may have changed another table
    for real, model in pool:
        if not _verify_table(real, model, case, out):
            return
    if sliced:
        out.nontrivial = True
        out.labels.append('nontrivial')



def run_case(case):
    out = Outcome()
    if case['kind'] == 'chain':
        _run_chain(case, out)
    else:
        _run_rendering(case, out)
    return out


def _is_chain(case):
    return case.get('kind') == 'chain'


# Predicates on the case for the defects found when this check was written (all of them have a
# proposed repair under proposed_fixes/; the predicates allow recording one as a known finding).
KNOWN_PREDICATES = {
    'bonferroni_on_non_1d_datasets':
        lambda case, failure: case.get('kind') == 'bonferroni' and len(case['shape']) != 1,
    'statistics_of_tasks_or_tests':
        lambda case, failure: case.get('kind') in ('stats_tasks', 'stats_tests'),
    'bylabels_without_any_group':
        lambda case, failure: case.get('kind') == 'stats_bylabels',
    'full_representer_unit_dimension_with_bins':
        lambda case, failure: (case.get('kind') in DS_KINDS and case['rep'] in ('full', 'plot')
                               and bool(case['bins']) and 1 in case['shape']),
    'chain_with_slice_or_index':
        lambda case, failure: _is_chain(case) and any(o['op'] in ('slice', 'index')
                                                      for o in case['ops']),
    'chain_with_negative_step_slice':
        lambda case, failure: _is_chain(case) and any(
            o['op'] == 'slice' and (o['step'] or 1) < 0 for o in case['ops']),
    'default_highlights_with_text_first_column':
        lambda case, failure: (_is_chain(case) and case['coltypes'][0] == 's'
                               and any(spec['hl'] is None for spec in case['tables'])),
}

MANIFEST = {
    'text': ('Generated search (Hypothesis): real test results of every kind with a built-in table / '
             'text representation (equal, approx-equal, Student, Bonferroni, Holm-Bonferroni, metadata, '
             'statistics of tasks / tests / tests by labels, failed evaluation) built from generated '
             'shapes () to 3-D, bin kinds, 1-3 datasets and imposed failing patterns, rendered by '
             'Rst.format_result at each verbosity with each representer; the text is parsed back with '
             'docutils and compared with the result object (mark <=> false per rendered result; '
             'highlighted rows = failing bins with their labels, values, errors; every table = its '
             'template; no docutils warning). TableTemplate slice / index / copy / join histories are '
             'compared with a list-of-rows model after every step. Exploration, not proof.'),
    'note': ('The result object is the ground truth (C05-C07 decide whether a bin should fail). Names '
             'are identifier-like words (no reST markup, not empty). Sphinx-only :ref: is registered '
             'as a plain role. Plot / Empty representers: only "true => no mark". Images are not '
             'rendered (plot templates are built, not drawn).'),
    'technique': ('property-based testing (Hypothesis), round trip through an independent reST parser '
                  '(docutils), reference list-of-rows model for template histories'),
    'design_ref': 'DESIGN.md section 3, C12',
}
