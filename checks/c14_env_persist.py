"""C14 -- persisted environments survive crashes: a bad file means not-done,
not an abort.

Two kinds of cases (plain values):

``{'kind': 'hist', 'fname': str, 'tasks': [spec...], 'ops': [op...]}``
    a history interpreted against the real ``write_env`` / ``read_env`` /
    ``Env.from_file`` on a scratch output root and against a model of what is
    durably on disk for every task.  ``spec`` = ``{'name', 'status', 'outdir',
    'extra'}``; the task pool is fixed by ``tasks`` (all of them are in the
    in-memory environment at the start).  Operations (indices modulo the pool
    size, offsets modulo the file length):

    ``{'op': 'write'}``                        complete ``write_env`` of the in-memory environment
    ``{'op': 'write', 'fault': {'i', 'after', 'errno', 'mode'}}``
        ``write_env`` during which the write of task ``i``'s file is
        interrupted after ``after`` bytes reached the disk: ``oserror`` (the
        ``write`` raises OSError(errno)), ``kill`` (the process dies there:
        a BaseException unwinds ``write_env``), ``open_err`` (the ``open``
        itself fails, file untouched)
    ``{'op': 'set', 'i', 'status', 'outdir', 'extra'}``   the next run changed task ``i``
    ``{'op': 'drop', 'i'}``                    task ``i`` is no longer in the in-memory environment
    ``{'op': 'fault', 'i', 'kind', 'at'}``     the file of task ``i`` on disk becomes: ``missing`` /
        ``nodir`` (whole output directory gone) / ``empty`` / ``trunc`` (cut at ``at``) /
        ``nulpad`` (cut at ``at`` then NUL bytes up to the old length) / ``dir``
        (a directory in its place) / ``foreign`` (a small text / JSON / binary non-pickle file)
    ``{'op': 'read', 'sel', 'mask', 'rev', 'extra'[, 'fault': {'i', 'kind', 'after'}]}``
        ``read_env`` for all / a subset of the pool names (+ a name never
        seen), optionally with a transient I/O error on task ``i``'s file
        (``eio_read`` after ``after`` bytes, ``eio_open``, ``eacces_open``);
        followed by ``Env.from_file`` on the file of every pool task
    ``{'op': 'restart'}``                      ``read_env`` of all names, and the result becomes the
        in-memory environment (what ``valjean run`` does)

    A final full ``read`` is always appended.

``{'kind': 'sweep', 'fname', 'tasks', 'variant': 'trunc' | 'nulpad'}``
    complete ``write_env``, then for EVERY file written and EVERY length
    ``0 <= k < len(file)`` the file is cut at ``k`` (``nulpad``: and padded with
    NUL bytes to its length), ``read_env`` + ``Env.from_file`` are judged, the
    file is restored.
"""
import os
import sys
import shutil
import tempfile
from collections.abc import Mapping

from hypothesis import strategies as st
from hypothesis.extra import numpy as hnp

import valjean.cosette.env as envmod
from valjean.cosette.env import Env
from valjean.cosette.task import TaskStatus
from valjean.cambronne import common
from vlib.core import Failure, HarnessError, Outcome, valjean_frame
from vlib import envfault
from vlib.envfault import PLAN, Killed, same, diff_keys, materialise, TS_TAG, OBJ_TAG

envfault.install(envmod)      # the `open` seam of valjean/cosette/env.py

ID = 'C14'
LEVEL = 'fault_enumeration'
RULE = ('cases = (a) histories over a pool of 1-6 tasks (names incl. unicode / blanks / dots, every '
        'status, output_dir = root/<name> for a generated subset, payload = recursive picklable values: '
        'None, bool, int, float incl. NaN/inf, text, bytes, tuple, list, dict, numpy arrays, TaskStatus; '
        'files of 100-2000 bytes) '
        'of <= 12 (quick) / 25 (thorough) operations: write_env, write_env interrupted after k bytes '
        '(OSError ENOSPC/EIO/EDQUOT from the write, process death, failing open) through an `open` seam '
        'in env.py, changes of the in-memory environment, disk faults on a task file (missing, output '
        'directory gone, empty, cut at byte k, cut + NUL padding, directory in its place, non-pickle '
        'content), read_env for all / a subset / an unknown name with optional transient EIO/EACCES, '
        'restart (read_env result becomes the environment); every read is compared with a model of the '
        'last complete write per file and Env.from_file is called on every task file. (b) sweeps: one '
        'complete write_env then EVERY truncation length (plain or NUL-padded) of EVERY written file, '
        'each followed by read_env + Env.from_file (complete per generated environment; a fixed family '
        'of 60 environments = 5 statuses x 6 payload shapes x 2 variants is enumerated on every run). '
        'non-trivial = a read performed while the file of a task whose last complete write was DONE is '
        'faulty (or its read fails) and at least one other requested task is intact and DONE; distinct = '
        '(statuses of the pool, fault kind, byte offset)')
RULE_ADDENDA = (' Also: payload objects of classes outside builtins / numpy / valjean, graphs (cycles, shared lists), chains of 600-700 nested lists; rewrite sweep (crash of a second write at every byte); reads that ask for a never-written task with a 344-byte name.')
RULE = RULE + RULE_ADDENDA
ASSUMPTIONS = [
    'task names are what path.sanitize_filename accepts (no "/", no NUL, not "." or ".."), non-empty, '
    'unique; output_dir of a task is root/<name> as a str (the shape RunTask, Use(serialize=True), '
    'EvalTestTask and, by default, CheckoutTask / BuildTask produce); tasks whose output_dir lies '
    'elsewhere (report tasks: report-root/<name>; checkout/build tasks with their own root) are never '
    'found again by read_env(root=output-root) and are outside this check',
    'payloads are picklable by construction; entries are plain dicts with a TaskStatus under "status"',
    'arbitrary corrupt bytes are NOT fed to pickle.load (unpickling attacker-shaped data can execute '
    'code): faults are truncation, truncation + NUL padding, interrupted writes, five fixed non-pickle '
    'contents whose first byte is not a pickle opcode, OS-level errors',
    'the model of a task file is the last COMPLETE write; after an interrupted write both "not done" and '
    'the previous complete DONE entry are accepted (an atomic-replace implementation keeps the old '
    'file); after a write into a missing directory or onto a directory both "not done" and the new '
    'entry are accepted',
    'when write_env itself is aborted (process death, or the injected OSError escaping) the set of files '
    'completely rewritten is taken from the log of the open seam',
    'interrupted writes and failing reads are injected through the module-global name `open` of '
    'valjean/cosette/env.py (the real module: a privately loaded copy cannot be pickled by reference); '
    'when a file armed with a write fault is rewritten without passing through the seam (env.py no '
    'longer uses the builtin open) the check stops with a harness error (exit 2) instead of silently '
    'losing the coverage',
    'real power-loss semantics are approximated by truncation, NUL padding and interrupted writes; '
    'reordered block writes are not modelled',
    'valid pickles of something that is not an environment are not produced (the property speaks of '
    'unreadable files)',
    'Env.from_file of an intact file must return exactly {name: entry} when the entry is DONE; for a '
    'not-DONE entry "nothing" is accepted too (the property does not demand that such entries are '
    'persisted), a different entry is not',
    'a failure of the code under test to leave room for a task directory (a stray file written '
    'directly into the output root) is reported as a violation and ends the history',
]
BUDGET = {'quick': {'cases': 6400, 'shards': 16, 'seconds': 300,
                    'shrink_s': int(os.environ.get('C14_SHRINK_S', 40))},
          'thorough': {'cases': 160000, 'shards': 16, 'seconds': 900, 'shrink_s': 60}}
# Fractions of the generated cases showing the class at least once; about half of the values
# measured on the quick tier (seed 1).  Only classes decided by the case and the model are listed
# (never by what the code under test did), so that a misbehaving tree cannot turn a VIOLATION
# into a generator-health error.
FLOORS = {'hist': 0.7, 'nt': 0.09, 'nt:corrupt': 0.06, 'nt:oserr': 0.02, 'nt:missing': 0.01,
          'fault-on-good-done': 0.09, 'fault:trunc': 0.04, 'fault:nulpad': 0.03, 'fault:empty': 0.025,
          'fault:dir': 0.02, 'fault:missing': 0.02, 'fault:foreign': 0.02,
          'write-fault-armed:kill': 0.04, 'write-fault-armed:oserror': 0.04,
          'write-fault-armed:open_err': 0.02, 'read-fault-armed:eio_read': 0.03,
          'read-fault-armed:eacces_open': 0.02, 'op:restart': 0.1, 'op:set': 0.15, 'read:subset': 0.04,
          'sweep:trunc': 0.05, 'sweep:nulpad': 0.01, 'odd-task-name': 0.2}

STATUSES = ['WAITING', 'PENDING', 'DONE', 'FAILED', 'SKIPPED']
FNAMES = ['valjean.env', 'valjean.env', 'env.pickle', 'e']
UNKNOWN = 'never-seen-task'          # longer than any generated name
LONG_UNKNOWN = 'run.' + 'sigma=0.00012345,' * 20      # 344 bytes
# non-pickle contents: the first byte of each is not a pickle opcode (checked in setup())
FOREIGN = [b'\n', b'{"status": "DONE"}\n', b'# valjean environment\n', b'\xff\xfe\x00\x00', b'<env/>\n']
CORRUPT_KINDS = ('empty', 'trunc', 'nulpad', 'torn', 'foreign')
FILE_KINDS = ('good',) + CORRUPT_KINDS       # states in which a regular file is at the path


COUNTERS = {'sweep_files': 0, 'sweep_truncation_points': 0, 'rewrite_sweep_files': 0,
            'rewrite_sweep_crash_points': 0}


def setup(tier):
    import pickletools
    for key in COUNTERS:
        COUNTERS[key] = 0
    codes = {op.code.encode('latin-1') for op in pickletools.opcodes}
    for blob in FOREIGN:
        assert blob[:1] not in codes, blob
    assert envmod.__dict__.get('open') is envfault.seam_open


# --------------------------------------------------------------------------
# strategies

_TXT = st.characters(blacklist_categories=('Cs',), blacklist_characters='\x00')
_NAME_CHARS = st.characters(blacklist_categories=('Cs',), blacklist_characters='\x00/')
_ODD_NAMES = ['a b', ' lead', 'trail ', 'a.b', '.hidden', '...', 'valjean.env', 'é', '名', 'A', 'a',
              'x-y_z', '~', '-', 'CON', 'a\nb', '%s', 'a\\b', 'ß', 'İ']


def _names():
    simple = st.sampled_from(['t%d' % i for i in range(8)])
    odd = st.one_of(st.sampled_from(_ODD_NAMES), st.text(_NAME_CHARS, min_size=1, max_size=5))
    name = st.integers(0, 2).flatmap(lambda k: odd if k == 0 else simple).filter(
        lambda s: s not in ('.', '..', ''))
    size = st.sampled_from([1, 2, 2, 3, 3, 3, 4, 4, 5, 6])
    return size.flatmap(lambda n: st.lists(name, min_size=n, max_size=n, unique=True))


def _arrays():
    shapes = st.sampled_from([(0,), (1,), (3,), (2, 2)])
    return st.one_of(
        hnp.arrays('float64', shapes, elements=st.floats(allow_nan=True, allow_infinity=True, width=64)),
        hnp.arrays('int32', shapes, elements=st.integers(-2**31, 2**31 - 1)),
        hnp.arrays('bool', shapes, elements=st.booleans()))


_LEAF = st.one_of(
    st.none(), st.booleans(), st.integers(-2**70, 2**70), st.integers(-3, 3),
    st.floats(allow_nan=True, allow_infinity=True), st.text(_TXT, max_size=12),
    st.binary(max_size=24), st.sampled_from(STATUSES).map(lambda s: (TS_TAG, s)), _arrays(),
    # instances of classes outside builtins / numpy / valjean (standard library value types, a
    # class of the job's own module): a task may store any picklable object
    st.one_of(
        st.tuples(st.just(OBJ_TAG), st.just('fraction'),
                  st.tuples(st.integers(-99, 99), st.integers(1, 9))),
        st.tuples(st.just(OBJ_TAG), st.just('decimal'), st.sampled_from(['1.10', '-0', '3E+2', '1E-30'])),
        st.tuples(st.just(OBJ_TAG), st.just('timedelta'), st.integers(0, 10 ** 6)),
        st.tuples(st.just(OBJ_TAG), st.just('path'), st.sampled_from(['out/run.res', '/abs', '.'])),
        st.tuples(st.just(OBJ_TAG), st.just('score'),
                  st.tuples(st.floats(0.5, 1.5), st.floats(0.0, 0.01))),
        st.tuples(st.just(OBJ_TAG), st.just('ordereddict'), st.lists(st.integers(0, 5), max_size=3,
                                                                       unique=True).map(tuple)),
        st.tuples(st.just(OBJ_TAG), st.just('cyclic'), st.integers(0, 3)),
        st.tuples(st.just(OBJ_TAG), st.just('cyclic'), st.integers(0, 3)),
        st.tuples(st.just(OBJ_TAG), st.just('frozenset'), st.lists(st.integers(0, 5), max_size=3,
                                                                     unique=True).map(tuple))))
_DKEY = st.one_of(st.text(_TXT, max_size=4), st.integers(-5, 5))
_PAYLOAD = st.recursive(
    _LEAF,
    lambda ch: st.one_of(st.lists(ch, max_size=3), st.lists(ch, max_size=3).map(tuple),
                         st.dictionaries(_DKEY, ch, max_size=3)),
    max_leaves=10)
_EKEY = st.one_of(
    st.sampled_from(['result', 'result', 'clis', 'return_codes', 'elapsed_time', 'stdout', 'stderr',
                     'start_clock', 'end_clock']),
    st.text(_TXT, min_size=1, max_size=5).filter(
        lambda k: k not in ('status', 'output_dir') and not k.startswith('$')))
_EXTRA = st.dictionaries(_EKEY, _PAYLOAD, max_size=3)
_STATUS = st.one_of(st.sampled_from(STATUSES), st.just('DONE'), st.just('DONE'))
_OUTDIR = st.sampled_from([True, True, True, True, False])


@st.composite
def _tasks(draw):
    tasks = [{'name': name, 'status': draw(_STATUS), 'outdir': draw(_OUTDIR), 'extra': draw(_EXTRA)}
             for name in draw(_names())]
    special = draw(st.integers(0, 15))
    if special <= 1:                       # now and then a result that is a graph or very deep
        which = draw(st.integers(0, len(tasks) - 1))
        obj = ((OBJ_TAG, 'cyclic', draw(st.integers(0, 3))) if special == 0
               else (OBJ_TAG, 'deep', draw(st.sampled_from([600, 700]))))
        tasks[which] = dict(tasks[which], status='DONE', outdir=True,
                            extra=dict(tasks[which]['extra'], result=obj))
    if draw(st.integers(0, 11)) == 0:      # now and then a file of 1-2 kB
        which = draw(st.integers(0, len(tasks) - 1))
        tasks[which]['extra'] = dict(tasks[which]['extra'],
                                     captured=draw(st.binary(min_size=600, max_size=1600)))
    return tasks


_IDX = st.integers(0, 5)
_AFTER = st.one_of(st.integers(0, 40), st.integers(0, 400), st.integers(0, 3000))
_OP_WFAULT = st.fixed_dictionaries({'op': st.just('write'), 'fault': st.fixed_dictionaries({
    'i': _IDX, 'after': _AFTER, 'errno': st.sampled_from(['ENOSPC', 'EIO', 'EDQUOT']),
    'mode': st.sampled_from(['oserror', 'oserror', 'kill', 'kill', 'open_err'])})})
_OP_SET = st.fixed_dictionaries({'op': st.just('set'), 'i': _IDX, 'status': _STATUS,
                                 'outdir': _OUTDIR, 'extra': _EXTRA})
_OP_DROP = st.fixed_dictionaries({'op': st.just('drop'), 'i': _IDX})
_OP_FAULT = st.fixed_dictionaries({
    'op': st.just('fault'), 'i': _IDX, 'at': st.one_of(st.integers(0, 60), st.integers(0, 4000)),
    'kind': st.sampled_from(['missing', 'nodir', 'empty', 'trunc', 'trunc', 'trunc', 'nulpad',
                             'nulpad', 'dir', 'foreign'])})
_RFAULT = st.fixed_dictionaries({'i': _IDX, 'after': _AFTER,
                                 'kind': st.sampled_from(['eio_read', 'eio_read', 'eio_open',
                                                          'eacces_open'])})
_READ_FIELDS = {'op': st.just('read'), 'sel': st.sampled_from(['all', 'all', 'mask']),
                'mask': st.integers(1, 63), 'rev': st.booleans(),
                'extra': st.sampled_from([False, False, True, True, 'long'])}
_OPS = {
    'write': st.just({'op': 'write'}),
    'wfault': _OP_WFAULT,
    'set': _OP_SET,
    'drop': _OP_DROP,
    'fault': _OP_FAULT,
    'read': st.fixed_dictionaries(_READ_FIELDS),
    'rfault': st.fixed_dictionaries(dict(_READ_FIELDS, fault=_RFAULT)),
    'restart': st.just({'op': 'restart'}),
}
# one_of() drops duplicated alternatives, so the weights are given by a sampled selector
_OP_WEIGHTS = (['write'] * 3 + ['wfault'] * 3 + ['set'] * 3 + ['drop'] + ['fault'] * 5
               + ['read'] * 2 + ['rfault'] * 2 + ['restart'] * 2)
_OP = st.sampled_from(_OP_WEIGHTS).flatmap(_OPS.__getitem__)


@st.composite
def _hist(draw, max_ops):
    tasks = draw(_tasks())
    ops = draw(st.lists(_OP, min_size=1, max_size=max_ops))
    if draw(st.sampled_from([True, True, True, False])):
        ops = [{'op': 'write'}] + ops      # most real histories start with a complete write
    return {'kind': 'hist', 'fname': draw(st.sampled_from(FNAMES)), 'tasks': tasks, 'ops': ops}


@st.composite
def _sweep(draw):
    tasks = draw(_tasks())
    for task in tasks:
        # (a sweep reads the file once per byte: the 2 kB of a very deep result add nothing to it)
        res = task['extra'].get('result')
        if isinstance(res, tuple) and len(res) == 3 and isinstance(res[0], str) and res[0] == OBJ_TAG and res[1] == 'deep':
            task['extra'] = dict(task['extra'], result=(OBJ_TAG, 'cyclic', 1))
    return {'kind': 'sweep', 'fname': draw(st.sampled_from(FNAMES)), 'tasks': tasks,
            'variant': draw(st.sampled_from(['trunc', 'trunc', 'nulpad', 'rewrite']))}


def strategy(tier):
    max_ops = 12 if tier == 'quick' else 25
    # 1 sweep for 9 histories (a sweep stands for several hundred reads)
    return st.integers(0, 9).flatmap(lambda k: _sweep() if k == 0 else _hist(max_ops))


_ARCHETYPES = [
    {},
    {'result': None, 'elapsed_time': 0.25},
    {'result': [1, 2.5, 'x', b'yy', (1, 2)], 'return_codes': [0, 0]},
    {'result': {'k': (TS_TAG, 'FAILED'), 'n': float('nan'), 3: [True, None]}},
    {'clis': [['echo', 'a'], ['echo', 'é名']], 'stdout': '/out/t/stdout', 'stderr': '/out/t/stderr'},
    {'result': b'\x00' * 40 + b'.' * 40, 'big': 2**90, 'text': 'N.' * 30},
]


def enumerations(tier):
    import numpy as np

    def fixed():
        for status in STATUSES:
            for num, extra in enumerate(_ARCHETYPES):
                extra = dict(extra)
                if num == 2:
                    extra['array'] = np.arange(6, dtype='float64').reshape(2, 3) / 4.0
                for variant in ('trunc', 'nulpad'):
                    yield {'kind': 'sweep', 'fname': 'valjean.env', 'variant': variant, 'tasks': [
                        {'name': 'target', 'status': status, 'outdir': True, 'extra': extra},
                        {'name': 'witness', 'status': 'DONE', 'outdir': True,
                         'extra': {'result': [1, 'two', 3.0]}},
                        {'name': 'failed', 'status': 'FAILED', 'outdir': True, 'extra': {}},
                        {'name': 'nodir', 'status': 'DONE', 'outdir': False, 'extra': {'result': 7}}]}
    return [('fixed-envs-all-truncation-points', fixed, True)]


# --------------------------------------------------------------------------
# model

_MISSING = object()


def _cls(kind):
    """Fault class of a file state, used in bucket signatures."""
    if kind in CORRUPT_KINDS:
        return 'corrupt'
    if kind in ('dir', 'eio_read', 'eio_open', 'eacces_open'):
        return 'oserr'
    if kind in ('missing', 'nodir', 'never-written'):
        return 'missing'
    return kind


def _raw(path):
    """Bytes of a regular file, None for anything else."""
    try:
        with open(path, 'rb') as fil:
            return fil.read()
    except OSError:
        return None


class _Blocked(Exception):
    """The history cannot be continued (see World.set_task)."""


class World:
    """The scratch output root, the real environment and the model."""

    def __init__(self, case, root, out):
        self.case, self.root, self.out = case, root, out
        self.fname = case['fname']
        self.pool = [spec['name'] for spec in case['tasks']]
        self.mem = {}            # name -> spec currently in the in-memory environment
        self.env = Env()
        # per task file: kind (good / never-written / missing / nodir / empty / trunc / nulpad / torn /
        # foreign / dir), admit = admissible durable contents (spec or None), off = fault offset
        self.disk = {name: {'kind': 'never-written', 'admit': [None]} for name in self.pool}
        self.versions = {name: [] for name in self.pool}   # specs completely written, in order
        self.finfo = {}          # name -> (fault kind, offset, was_done) of the last fault
        self.has_dir = {}        # name -> the output directory of the task exists (model)
        self.labels = set()
        self.nt_keys = set()
        self.reads = 0
        self.seen = set()        # signatures already reported by this case
        self.step = 'init'
        self._entries = {}
        for spec in case['tasks']:
            self.set_task(spec['name'], spec)

    # -- helpers ------------------------------------------------------------
    def tdir(self, name):
        return os.path.join(self.root, name)

    def path(self, name):
        return os.path.join(self.root, name, self.fname)

    def entry(self, spec):
        """Fresh-from-the-case expected entry (cached: never handed to the code under test)."""
        key = id(spec)
        if key not in self._entries:
            self._entries[key] = (spec, self.build(spec))
        return self._entries[key][1]

    def build(self, spec):
        entry = {key: materialise(val, TaskStatus) for key, val in spec['extra'].items()}
        entry['status'] = TaskStatus[spec['status']]
        if spec['outdir']:
            entry['output_dir'] = self.tdir(spec['name'])
        return entry

    def fail(self, clause, signature, detail, sub=None):
        if signature in self.seen:
            return
        self.seen.add(signature)
        fail = Failure(clause, signature, f'[{self.step}] {detail}'[:600])
        if sub is not None:
            fail.case = sub
        self.out.failures.append(fail)

    def statuses(self):
        return ''.join(self.mem[n]['status'][0] if n in self.mem else '-' for n in self.pool)

    # -- in-memory environment ---------------------------------------------
    def set_task(self, name, spec):
        spec = {'name': name, 'status': spec['status'], 'outdir': spec['outdir'],
                'extra': spec['extra']}
        self.mem[name] = spec
        self.env[name] = self.build(spec)
        if spec['outdir']:
            self.has_dir[name] = True
            try:
                os.makedirs(self.tdir(name), exist_ok=True)
            except OSError as exc:
                # only possible when the code under test created a file directly in the output
                # root (write_env documents: one file per task *in the task's output directory*)
                self.fail('stray_file', 'C14/stray_file_blocks_output_dir',
                          f'cannot create the output directory of task {name!r}: {exc}')
                raise _Blocked() from exc

    def drop_task(self, name):
        if name in self.mem:
            del self.mem[name]
            del self.env[name]

    # -- writing ------------------------------------------------------------
    def _complete(self, name, spec):
        state = self.disk[name]
        if not self.has_dir.get(name) or state['kind'] == 'dir':
            kind = 'dir' if state['kind'] == 'dir' else 'missing'
            self.disk[name] = {'kind': kind, 'admit': [None, spec]}
            self.labels.add('write-onto-' + ('dir' if kind == 'dir' else 'missing-directory'))
        else:
            self.disk[name] = {'kind': 'good', 'admit': [spec]}
            self.versions[name].append(spec)
            self.finfo.pop(name, None)

    def write(self, fault=None):
        PLAN.reset()
        target = before = None
        if fault is not None:
            target = self.pool[fault['i'] % len(self.pool)]
            if target in self.mem and self.mem[target]['outdir']:
                PLAN.write[self.path(target)] = {'after': fault['after'], 'errno': fault['errno'],
                                                 'mode': fault['mode']}
                self.labels.add('write-fault-armed:' + fault['mode'])
                before = _raw(self.path(target))
            else:
                self.labels.add('write-fault-moot')
                target = None
        escaped = None
        try:
            common.write_env(self.env, filename=self.fname, fmt='pickle')
        except Killed as exc:
            escaped = exc
        except Exception as exc:     # only an injected OSError may escape (crash during write)
            escaped = exc
            injected = (target is not None and isinstance(exc, OSError)
                        and exc.errno == envfault.ERRNOS[fault['errno']])
            if not injected:
                tname, where = valjean_frame(exc)
                self.fail('write_raises', f'C14/write_raises/{tname}@{where}',
                          f'write_env raised {tname}: {exc}')
        log = {rec['path']: rec for rec in PLAN.log}
        if target is not None and self.path(target) not in log \
                and _raw(self.path(target)) != before:
            # the file was rewritten, but not through the `open` seam: faults cannot be injected
            raise HarnessError('C14: env.py no longer writes through the builtin open(); the fault '
                               'injection seam of vlib/envfault.py must be adapted')
        for name, spec in self.mem.items():
            if not spec['outdir']:
                continue
            rec = log.get(self.path(name))
            if name == target and rec is not None and rec['fired']:
                if fault['mode'] == 'open_err':
                    self.labels.add('write-fault:open_err')
                    continue                     # file untouched
                old = self.disk[name]
                admit = [None] + [a for a in old['admit'] if a is not None]
                was_done = any(a['status'] == 'DONE' for a in admit[1:]) or spec['status'] == 'DONE'
                self.disk[name] = {'kind': 'torn', 'admit': admit}
                self.finfo[name] = ('torn', rec['written'] or 0, was_done)
                self.labels.add('write-fault-fired')
                self.labels.add('write-fault:' + fault['mode'])
                if (rec['written'] or 0) == 0:
                    self.labels.add('write-fault-left-empty-file')
            elif escaped is not None:
                # aborted write_env: which files were rewritten completely is taken from the seam
                if rec is not None and rec['closed'] and not rec['fired']:
                    self._complete(name, spec)
            else:
                if name == target:
                    self.labels.add('write-fault-beyond-eof' if rec is not None
                                    else 'write-fault-seam-miss')
                self._complete(name, spec)
        if escaped is not None:
            self.labels.add('write-aborted:' + type(escaped).__name__)
        PLAN.reset()

    # -- disk faults -----------------------------------------------------------
    def fault(self, name, kind, at):
        """Disk fault on the file of ``name``.  Whether the fault applies is decided by the MODEL
        (so that the class labels, hence the floors, do not depend on the code under test); the
        physical action is best effort when the code under test did not leave what the model expects."""
        path, state = self.path(name), self.disk[name]
        is_file = state['kind'] in FILE_KINDS
        is_dir = state['kind'] == 'dir'
        has_dir = bool(self.has_dir.get(name))
        was_done = any(a is not None and a['status'] == 'DONE' for a in state['admit'])
        offset = 0
        new_kind = kind
        if ((kind == 'missing' and not is_file) or (kind == 'nodir' and not has_dir)
                or (kind in ('empty', 'foreign', 'dir') and (not has_dir or is_dir))
                or (kind in ('trunc', 'nulpad') and (not is_file or state['kind'] == 'empty'))):
            self.labels.add('fault-moot')
            return
        try:
            if kind == 'missing':
                os.remove(path)
            elif kind == 'nodir':
                self.has_dir[name] = False
                shutil.rmtree(self.tdir(name))
            elif kind in ('empty', 'foreign'):
                offset = 0 if kind == 'empty' else at % len(FOREIGN)
                with open(path, 'wb') as fil:
                    fil.write(b'' if kind == 'empty' else FOREIGN[offset])
            elif kind in ('trunc', 'nulpad'):
                with open(path, 'rb') as fil:
                    data = fil.read()
                offset = at % len(data) if data else 0
                with open(path, 'wb') as fil:
                    fil.write(data[:offset]
                              + (b'\0' * (len(data) - offset) if kind == 'nulpad' else b''))
                if kind == 'trunc' and offset == 0:
                    new_kind = 'empty'
            elif kind == 'dir':
                if os.path.isfile(path):
                    os.remove(path)
                os.mkdir(path)
            else:
                raise AssertionError(kind)
        except OSError:
            # the code under test did not leave the file/directory the model expects (reported by
            # the reads); every fault state admits "not done" only, so the model stays valid
            self.labels.add('obs:fault-on-unexpected-disk-state')
        self.disk[name] = {'kind': new_kind, 'admit': [None]}
        self.finfo[name] = (new_kind, offset, was_done)
        self.labels.add('fault:' + new_kind)
        if state['kind'] == 'good':
            self.labels.add('fault-on-good-' + ('done' if was_done else 'notdone'))

    # -- reading -----------------------------------------------------------------
    def _matches(self, name, admit, got):
        """Does the observed result for ``name`` agree with one admissible durable content?"""
        if admit is None or admit['status'] != 'DONE':
            return got is _MISSING
        return got is not _MISSING and same(self.entry(admit), got)

    def read(self, names, rfault=None, sub=None):
        """read_env(names) judged against the model; returns the result (or None)."""
        PLAN.reset()
        rname = None
        if rfault is not None:
            rname = self.pool[rfault['i'] % len(self.pool)]
            PLAN.read[self.path(rname)] = {'kind': rfault['kind'], 'after': rfault['after']}
            if rname in names:
                self.labels.add('read-fault-armed:' + rfault['kind'])
        self.reads += 1
        self._note_nontrivial(names, rname, rfault)
        res = exc = None
        try:
            res = common.read_env(root=self.root, names=list(names), filename=self.fname, fmt='pickle')
        except Exception as err:      # the property: reading never raises
            exc = err
        fired = {rec['path'] for rec in PLAN.log if rec['fired']}
        transient = rname if rname is not None and self.path(rname) in fired else None
        if transient is not None:
            self.labels.add('read-fault-fired:' + rfault['kind'])
        if exc is not None:
            self._raised(names, exc, rname, rfault, sub)
            PLAN.reset()
            return None
        PLAN.reset()
        if not isinstance(res, Mapping):
            self.fail('result_type', 'C14/result_type', f'read_env returned {type(res).__name__}', sub)
            return None
        self._judge(names, res, transient, rfault, sub)
        return res

    def _kind(self, name, transient, rfault):
        if name == transient:
            return rfault['kind']
        if name not in self.disk:
            return 'never-written'
        return self.disk[name]['kind']

    def _raised(self, names, exc, rname, rfault, sub):
        """read_env raised: attribute the exception to the file that causes it."""
        tname, where = valjean_frame(exc)
        culprit = None
        for name in names:
            if name not in self.disk:
                continue
            PLAN.log.clear()
            try:
                Env.from_file(self.path(name), fmt='pickle')
            except Exception as err:
                if type(err) is type(exc):
                    fired = any(rec['fired'] for rec in PLAN.log)
                    culprit = rfault['kind'] if (name == rname and fired) else self.disk[name]['kind']
                    break
        cls = _cls(culprit) if culprit is not None else 'none'
        self.fail('read_raises', f'C14/read_raises/fault={cls}',
                  f'read_env raised {tname}: {exc} (at {where}); file state {culprit}', sub)

    def _judge(self, names, res, transient, rfault, sub):
        kinds = {name: self._kind(name, transient, rfault) for name in names}
        for name in list(names) + [key for key in res if key not in names]:
            got = res[name] if name in res else _MISSING
            if name not in names:
                self.fail('phantom_done', 'C14/phantom_done/own=not-requested',
                          f'read_env({list(names)!r}) returned an entry for {name!r}', sub)
                continue
            admits = [None] if (name == transient or name not in self.disk) \
                else self.disk[name]['admit']
            if any(self._matches(name, adm, got) for adm in admits):
                if got is not _MISSING and kinds[name] == 'torn':
                    self.labels.add('torn-kept-old-entry')
                continue
            done_specs = [a for a in admits if a is not None and a['status'] == 'DONE']
            if got is _MISSING:
                others = {kinds[n] for n in names if n != name}
                neigh = 'all-intact' if others <= {'good'} else 'not-all-intact'
                self.fail('lost_done', f'C14/lost_done/neighbours={neigh}',
                          f'{name!r} was completely written as DONE with an output_dir but '
                          f'read_env({list(names)!r}) does not return it; file states {kinds}', sub)
            elif not done_specs:
                own = _cls(kinds[name])
                if kinds[name] == 'good':
                    own = 'intact-not-done'
                status = got.get('status') if isinstance(got, Mapping) else got
                self.fail('phantom_done', f'C14/phantom_done/own={own}',
                          f'read_env returned {name!r} with status {status!r} but its file state is '
                          f'{kinds[name]} (last durable: {[a and a["status"] for a in admits]})', sub)
            else:
                older = self.versions.get(name, [])[:-1]
                if any(same(self.build(old), got) for old in older):
                    what = 'stale-version'
                else:
                    bad = diff_keys(self.entry(done_specs[-1]), got)
                    what = ('status' if 'status' in bad else 'output_dir' if 'output_dir' in bad
                            else 'keys' if isinstance(got, Mapping)
                            and set(got) != set(self.entry(done_specs[-1])) else 'payload')
                self.fail('entry_differs', f'C14/entry_differs/{what}',
                          f'entry of {name!r} read back differs from the one written: got {got!r:.200} '
                          f'expected {self.entry(done_specs[-1])!r:.200}', sub)

    def _note_nontrivial(self, names, rname, rfault):
        """Non-triviality (decided from the model, before the code under test runs): a faulty file
        of a task whose last complete write was DONE, next to an intact DONE task."""
        will_fire = False
        if rname is not None and rname in names and self.disk[rname]['kind'] in FILE_KINDS:
            size = len(_raw(self.path(rname)) or b'')
            will_fire = rfault['kind'] != 'eio_read' or rfault['after'] < size
        intact_done = [n for n in names if n in self.disk and self.disk[n]['kind'] == 'good'
                       and self.disk[n]['admit'][0]['status'] == 'DONE'
                       and not (will_fire and n == rname)]
        for name in names:
            if name not in self.disk:
                continue
            state, info = self.disk[name], None
            if will_fire and name == rname:
                if any(a is not None and a['status'] == 'DONE' for a in state['admit']):
                    info = (rfault['kind'], rfault['after'])
            elif state['kind'] not in ('good', 'never-written') and name in self.finfo \
                    and self.finfo[name][2]:
                info = self.finfo[name][:2]
            if info and any(n != name for n in intact_done):
                self.nt_keys.add(f'{self.statuses()}|{info[0]}|{info[1]}')
                self.labels.add('nt:' + _cls(info[0]))

    def from_file_all(self, sub=None, only=None):
        """Env.from_file on task files: never raises, never a partial entry."""
        PLAN.reset()
        for name in (self.pool if only is None else only):
            state = self.disk[name]
            try:
                got = Env.from_file(self.path(name), fmt='pickle')
            except Exception as exc:
                tname, where = valjean_frame(exc)
                self.fail('read_raises', f'C14/read_raises/fault={_cls(state["kind"])}',
                          f'Env.from_file raised {tname}: {exc} (at {where}); file state '
                          f'{state["kind"]}', sub)
                continue
            ok = False
            for adm in state['admit']:
                if adm is None:
                    ok = ok or got is None or (isinstance(got, Mapping) and len(got) == 0)
                else:
                    ok = ok or (isinstance(got, Mapping) and list(got) == [name]
                                and same(self.entry(adm), got[name]))
                    if adm['status'] != 'DONE':
                        # the property does not demand that not-DONE entries are persisted at all
                        ok = ok or got is None or (isinstance(got, Mapping) and len(got) == 0)
            if ok:
                continue
            if state['kind'] == 'good':
                what = 'nothing-returned' if not got else 'wrong-entry'
                self.fail('from_file_roundtrip', f'C14/from_file_roundtrip/{what}',
                          f'Env.from_file of the intact file of {name!r} (written with status '
                          f'{state["admit"][0]["status"]}) returned {got!r:.300}', sub)
            else:
                self.fail('from_file_partial', f'C14/from_file_partial/fault={_cls(state["kind"])}',
                          f'Env.from_file of the {state["kind"]} file of {name!r} returned '
                          f'{got!r:.300}', sub)


# --------------------------------------------------------------------------
# interpreters

def _names_of(world, oper):
    names = list(world.pool)
    if oper.get('sel') == 'mask':
        picked = [n for k, n in enumerate(names) if oper['mask'] >> k & 1]
        names = picked or names
        if len(names) < len(world.pool):
            world.labels.add('read:subset')
    if oper.get('rev'):
        names.reverse()
    if oper.get('extra') == 'long':
        # a task of the job that never ran and whose (generated) name is longer than a file name
        # may be: there is nothing to read for it, which is not an error
        names.append(LONG_UNKNOWN)
        world.labels.add('read:unknown-name-longer-than-NAME_MAX')
    elif oper.get('extra'):
        names.append(UNKNOWN)
        world.labels.add('read:unknown-name')
    return names


def _run_hist(case, world):
    ops = list(case['ops']) + [{'op': 'read', 'sel': 'all'}]
    for num, oper in enumerate(ops):
        kind = oper['op']
        world.step = f'step {num}: {kind}'
        if kind == 'write':
            world.write(oper.get('fault'))
            world.labels.add('op:write-interrupted' if oper.get('fault') else 'op:write')
        elif kind == 'set':
            name = world.pool[oper['i'] % len(world.pool)]
            world.set_task(name, oper)
            world.labels.add('op:set')
        elif kind == 'drop':
            world.drop_task(world.pool[oper['i'] % len(world.pool)])
            world.labels.add('op:drop')
        elif kind == 'fault':
            world.fault(world.pool[oper['i'] % len(world.pool)], oper['kind'], oper['at'])
        elif kind == 'read':
            world.read(_names_of(world, oper), oper.get('fault'))
            world.from_file_all()
            world.labels.add('op:read')
        elif kind == 'restart':
            res = world.read(list(world.pool))
            world.labels.add('op:restart')
            new_mem = {}
            for name in world.pool:
                for adm in world.disk[name]['admit']:
                    if adm is not None and adm['status'] == 'DONE' and (
                            res is None or (name in res and same(world.entry(adm), res[name]))):
                        new_mem[name] = adm
            world.mem = new_mem
            if res is not None and isinstance(res, Env) and set(res) == set(new_mem):
                world.env = res                      # what `valjean run` goes on with
            else:
                world.env = Env({name: world.build(spec) for name, spec in new_mem.items()})
        else:
            raise AssertionError(kind)


def _run_sweep(case, world):
    variant = case['variant']
    world.step = 'complete write'
    world.write()
    world.read(list(world.pool))
    world.from_file_all()
    names = list(world.pool)
    for tnum, name in enumerate(world.pool):
        state = world.disk[name]
        if state['kind'] != 'good':
            continue
        path = world.path(name)
        if not os.path.isfile(path):          # already reported as lost_done by the read above
            world.labels.add('sweep-file-not-where-expected')
            continue
        with open(path, 'rb') as fil:
            data = fil.read()
        world.labels.add('file<200B' if len(data) < 200 else 'file<1000B' if len(data) < 1000
                         else 'file>=1000B')
        was_done = state['admit'][0]['status'] == 'DONE'
        world.labels.add('sweep-target:' + state['admit'][0]['status'])
        COUNTERS['sweep_files'] += 1
        COUNTERS['sweep_truncation_points'] += len(data)
        for cut in range(len(data)):
            with open(path, 'wb') as fil:
                fil.write(data[:cut] + (b'\0' * (len(data) - cut) if variant == 'nulpad' else b''))
            kind = 'empty' if (variant == 'trunc' and cut == 0) else variant
            world.disk[name] = {'kind': kind, 'admit': [None]}
            world.finfo[name] = (kind, cut, was_done)
            world.step = f'{variant} file of task {tnum} ({len(data)} bytes) at {cut}'
            sub = {'kind': 'hist', 'fname': case['fname'], 'tasks': case['tasks'],
                   'ops': [{'op': 'write'}, {'op': 'fault', 'i': tnum, 'kind': variant, 'at': cut}]}
            world.read(names, sub=sub)
            world.from_file_all(sub=sub, only=[name])
        with open(path, 'wb') as fil:
            fil.write(data)
        world.disk[name] = state
        world.finfo.pop(name, None)
    world.step = 'after restoring every file'
    world.read(names)


def _run_rewrite_sweep(case, world):
    """Complete write of run 1; then, for every task that is DONE with an output directory
    and EVERY byte count k, run 2 (same entry, two values replaced by others of the SAME
    pickled length) is interrupted after k bytes of that task's file, the result is read and
    judged, and the file of run 1 is written again.  An implementation that overwrites the old
    file in place leaves 'new prefix + old suffix' here, which may unpickle."""
    for spec in case['tasks']:
        name = spec['name']
        if name in world.mem:
            world.set_task(name, dict(world.mem[name], extra=dict(
                world.mem[name]['extra'], stamp='result-of-run-1', elapsed=11.5)))
    world.step = 'complete write of run 1'
    world.write()
    world.read(list(world.pool))
    names = list(world.pool)
    for tnum, name in enumerate(world.pool):
        state = world.disk[name]
        if state['kind'] != 'good' or state['admit'][0]['status'] != 'DONE':
            continue
        path = world.path(name)
        if not os.path.isfile(path):
            continue
        size = os.path.getsize(path)
        first = dict(world.mem[name])
        second = dict(first, extra=dict(first['extra'], stamp='result-of-run-2', elapsed=22.5))
        world.labels.add('rewrite-sweep-target')
        COUNTERS['rewrite_sweep_files'] += 1
        COUNTERS['rewrite_sweep_crash_points'] += size
        for cut in range(size):
            world.set_task(name, second)
            world.step = f'run 2 interrupted after {cut} of {size} bytes of the file of task {tnum}'
            world.write({'i': tnum, 'after': cut, 'errno': 'ENOSPC', 'mode': 'kill'})
            world.read(names)
            world.from_file_all(only=[name])
            world.set_task(name, first)
            world.step = f'run 1 written again (after crash point {cut})'
            world.write()
    world.step = 'after the rewrite sweep'
    world.read(names)


def run_case(case):
    out = Outcome()
    PLAN.reset()
    base = '/dev/shm' if os.path.isdir('/dev/shm') and os.access('/dev/shm', os.W_OK) else '/var/tmp'
    top = tempfile.mkdtemp(prefix='vv-c14-', dir=base)
    try:
        root = os.path.join(top, 'output')
        os.mkdir(root)
        world = World(case, root, out)
        try:
            if case['kind'] == 'sweep' and case['variant'] == 'rewrite':
                world.labels.add('sweep:rewrite')
                _run_rewrite_sweep(case, world)
            elif case['kind'] == 'sweep':
                world.labels.add('sweep:' + case['variant'])
                _run_sweep(case, world)
            else:
                world.labels.add('hist')
                _run_hist(case, world)
        except _Blocked:
            world.labels.add('history-cut-short')
    finally:
        PLAN.reset()
        shutil.rmtree(top, ignore_errors=True)
    for spec in case['tasks']:
        world.labels.add('status:' + spec['status'])
    world.labels.add('tasks=%d' % len(case['tasks']) if len(case['tasks']) < 3 else 'tasks>=3')
    if any(not n.isascii() or not n.isalnum() for n in world.pool):
        world.labels.add('odd-task-name')
    out.labels = sorted(world.labels)
    out.evals = max(1, world.reads)
    keys = sorted(world.nt_keys)
    out.nontrivial = bool(keys)
    if out.nontrivial:
        out.labels.append('nt')
        out.key, out.extra_keys = keys[0], keys[1:]     # every key is counted exactly once
    out.info = {'reads': world.reads, 'nontrivial_keys': len(world.nt_keys),
                'final_file_states': {n: world.disk[n]['kind'] for n in world.pool}}
    return out


def shard_extra(tier, seed, shard, nshards, tally, deadline):
    """Extra coverage keys: how many files were swept over ALL their truncation points."""
    return {'sweep_files': COUNTERS['sweep_files'],
            'sweep_truncation_points': COUNTERS['sweep_truncation_points'],
            'rewrite_sweep_files': COUNTERS['rewrite_sweep_files'],
            'rewrite_sweep_crash_points': COUNTERS['rewrite_sweep_crash_points'],
            'sweep_is_complete_per_file': True}


MANIFEST = {
    'text': ('Fault enumeration + generated histories on the real write_env / read_env / Env.from_file over '
             'a scratch output root: environments of 1-6 tasks (all statuses, recursive picklable payloads '
             'incl. numpy arrays and TaskStatus, odd task names); after one complete write EVERY truncation '
             'length of EVERY written file, plain and NUL-padded, is read back (complete per environment; a '
             'fixed family of 60 environments is enumerated on every run); histories mix complete writes, '
             'writes interrupted after k bytes (OSError ENOSPC/EIO/EDQUOT, process death, failing open) '
             'through an `open` seam in env.py, changes between runs, disk faults (missing file / directory, '
             'empty, cut, cut + NUL padding, directory in place of the file, non-pickle content), reads of '
             'all / some / unknown names with transient EIO/EACCES, and restarts. Oracle = reference model '
             'of the last complete write per task file: read_env returns exactly (type-strict, bit-exact, '
             'array-aware) the DONE entries that are durable, nothing else, and neither read_env nor '
             'Env.from_file raises or returns an entry for a faulty file. Exploration of the history '
             'space, not proof.'),
    'note': ('Trusts pickle itself and the file system (tmpfs); power loss is approximated by truncation, '
             'NUL padding and interrupted writes (no reordered block writes); arbitrary corrupt bytes are '
             'deliberately not fed to pickle.load; output_dir is always root/<name>; after an interrupted '
             'write the previous complete DONE entry is accepted as well as "not done".'),
    'technique': ('property-based testing (Hypothesis histories) + exhaustive fault enumeration (all '
                  'truncation points of every written file), reference-model oracle, fault injection '
                  'through a substituted `open`'),
    'design_ref': 'DESIGN.md section 3, C14',
}
