"""C13 -- looking at a test result never changes its verdict or its inputs.

A case is ``{'kind', 'spec', 'ops'}``: one test of a generated kind with
generated inputs, evaluated once, then a generated history of read-only
operations (verdict reads, statistics accessors, table / plot / full
representation at a generated verbosity, reST formatting, fingerprint,
repr/str, pickle / deepcopy round trips, re-evaluation, matplotlib drawing).
After **every** operation the verdict and a deep structural snapshot of the
result (which reaches the test, its datasets, nested results and templates)
are compared with the initial ones.
"""
import copy
import pickle

import numpy as np
from hypothesis import strategies as st

from valjean.cosette.task import TaskStatus
from valjean.fingerprint import fingerprint
from valjean.gavroche.diagnostics.stats import (TestOutcome, TestStatsTestsByLabelsException,
                                                classification_counts)
from valjean.javert import representation as rpr
from valjean.javert.rst import Rst
from valjean.javert.templates import PlotTemplate
from valjean.javert.test_report import TestReport
from valjean.javert.verbosity import Verbosity

from vlib import jsonio, obsgen, snapshot
from vlib.core import Failure, Outcome, exc_failure

ID = 'C13'
LEVEL = 'exploration'
RULE = ('case = (result kind out of 12: equal / approx-equal / Student / chi-square / Bonferroni / '
        'Holm-Bonferroni / failed evaluation on generated datasets [scalar to 3-D, 1-4 cells per dimension, '
        'edge / centre / no bins, 1-3 compared datasets, generated per-bin pattern identical / near / far, '
        '1/8 of them with zeros, NaN, inf], metadata [1-3 samples, missing keys], external [0-3 user '
        'templates], statistics of tasks / tests / tests by labels [0-5 task sections with real nested '
        'results]; 1/3 of the cases steered to an all-successful result; 4 test descriptions) + history '
        'of 1-12 read-only operations, weights: representation with one of 7 representers at one of '
        '6 verbosities x4, Rst.format_result / format_report x3, bool x2, oracles x1, statistics '
        'accessor (test_pvalue, chi2_per_ndf, nb_rejected, rejected_proportion, sort_ordering, '
        'per_key, only_failed_comparisons, classification_counts, classify[status], '
        'nb_missing_labels ...) x2, fingerprint, repr/str of result / test / datasets, pickle '
        '(protocols 2-5), deepcopy x2, copy, re-evaluation; 2/3 of the histories end with an explicit '
        'verdict / statistics read; thorough: 5 % also contain one matplotlib drawing. Oracle: '
        'evaluating does not edit the test; a second build from the same numbers has an equal '
        'snapshot; after every step the verdict and the deep snapshot of the result (mapping keys '
        'in order, array bytes, float bit patterns, attribute sets; reaches test, datasets, nested '
        'results, templates) equal the initial ones; accessor values equal those read on a freshly '
        'built twin; re-evaluations and copies have an equal snapshot and verdict. Every single '
        'operation (thorough: every ordered pair of a reduced set) is also enumerated on a fixed '
        'catalogue of 33 results covering every kind with both verdicts. non-trivial = a history in '
        'which a representation / formatting / drawing step that did not raise is followed by an '
        'explicit verdict or statistics read that did not raise; distinct = (kind, verdict, '
        'operation sequence with parameters)')
RULE_ADDENDA = (" Also: exact datasets (all errors zero), big-endian arrays, zero-width first bin, datasets sharing a name; numpy's error state compared before / after every operation.")
RULE = RULE + RULE_ADDENDA
ASSUMPTIONS = [
    'an exception raised by a read-only operation is not a violation of this property (rendering '
    'defects belong to C12): it is counted in the class raised:<operation> and the state is still '
    'compared after it',
    'what a representation returns is not compared between repetitions: the property speaks about '
    'the verdict, the recorded statistics and the input datasets only',
    'a pickle / deepcopy of a result is also required to carry the same verdict and an equal '
    'snapshot (the persisted result is the result the report is later built from)',
    'reading result.classify[status] is a read-only operation (it is how the documentation of '
    'test_stats reads the statistics)',
    'statistics tests whose evaluation raises the documented TestStatsTestsByLabelsException have no '
    'result and are counted as no-result',
]
BUDGET = {'quick': {'cases': 20000, 'shards': 16, 'seconds': 600, 'shrink_s': 40},
          'thorough': {'cases': 300000, 'shards': 16, 'seconds': 900, 'shrink_s': 60}}
FLOORS = {'nontrivial': 0.35, 'repr-then-verdict-read': 0.35, 'verdict:true': 0.25, 'verdict:false': 0.25,
          'stats-all-success': 0.08, 'steps>=6': 0.25,
          'op:repr': 0.4, 'op:rst': 0.3, 'op:pickle': 0.08, 'op:evaluate': 0.08, 'op:counts': 0.2,
          'op:fingerprint': 0.08, 'op:deepcopy': 0.2, 'op:str': 0.1, 'op:oracles': 0.15,
          'datasets:scalar': 0.04, 'datasets:3d': 0.05, 'datasets:bins': 0.12,
          **{f'kind:{kind}': 0.035 for kind in obsgen.KINDS},
          **{f'rep:{rep}': 0.05 for rep in ('table', 'fulltable', 'plot', 'fullplot', 'full')},
          **{f'verbosity:{verb}': 0.06 for verb in range(6)}}

REPRESENTERS = {
    'table': rpr.TableRepresenter, 'fulltable': rpr.FullTableRepresenter,
    'plot': rpr.PlotRepresenter, 'fullplot': rpr.FullPlotRepresenter,
    'full': rpr.FullRepresenter, 'empty': rpr.EmptyRepresenter,
    'external': rpr.ExternalRepresenter,
}
RST_REPRESENTERS = ['table', 'fulltable', 'full', 'plot', 'external']
VIEW_OPS = ('repr', 'rst', 'mpl')                # representation / formatting / drawing
READ_OPS = ('bool', 'oracles', 'counts')         # explicit verdict / statistics reads


# --------------------------------------------------------------------------
# generator

_OP_WEIGHTS = (['repr'] * 4 + ['rst'] * 3 + ['bool'] * 2 + ['oracles'] + ['counts'] * 2
               + ['fingerprint', 'str', 'pickle', 'deepcopy', 'deepcopy', 'copy', 'evaluate'])


@st.composite
def _op_strategy(draw):
    name = draw(st.sampled_from(_OP_WEIGHTS))
    if name == 'repr':
        return {'op': name, 'rep': draw(st.sampled_from(sorted(REPRESENTERS))),
                'verb': draw(st.integers(0, 5))}
    if name == 'rst':
        return {'op': name, 'rep': draw(st.sampled_from(RST_REPRESENTERS)),
                'verb': draw(st.integers(0, 5)), 'report': draw(st.booleans())}
    if name == 'counts':
        return {'op': name, 'which': draw(st.integers(0, 7))}
    if name == 'str':
        return {'op': name, 'which': draw(st.integers(0, 3))}
    if name == 'pickle':
        return {'op': name, 'proto': draw(st.integers(2, 5))}
    return {'op': name}


@st.composite
def _case(draw, tier):
    kind = draw(st.sampled_from(obsgen.KINDS + obsgen.STATS_KINDS[:2]))
    steer = draw(st.sampled_from([True, None, None]))
    spec = dict(draw(obsgen.spec_strategy(kind, steer)),
                description=draw(st.sampled_from(obsgen.DESCRIPTIONS)))
    nops = draw(st.sampled_from([1, 2, 3, 4, 5, 6, 6, 8, 10, 11]))
    ops = draw(st.lists(_op_strategy(), min_size=nops, max_size=nops))
    tail = draw(st.sampled_from([None, None, 'bool', 'bool', 'oracles', 'counts']))
    if tail:        # two thirds of the histories end with an explicit verdict / statistics read
        ops.append({'op': tail, 'which': draw(st.integers(0, 7))} if tail == 'counts'
                   else {'op': tail})
    if tier == 'thorough':
        # drawing costs ~0.1 s: at most one such step per history, in ~5 % of the histories
        if draw(st.integers(0, 19)) == 0:
            ops.insert(draw(st.integers(0, len(ops) - 1)),
                       {'op': 'mpl', 'verb': draw(st.sampled_from([2, 4]))})
    return {'kind': kind, 'spec': spec, 'ops': ops}


def strategy(tier):
    return _case(tier)


# --------------------------------------------------------------------------
# fixed catalogue of results for the enumerations

def _ds_spec(shape, kinds, modes_list, **kw):
    size = 1
    for dim in shape:
        size *= dim
    vals = [1.0 + 2.0 * idx for idx in range(size)]
    errs = [0.5] * size
    others = [{'v': [v + {0: 0.0, 1: 0.25, 2: 20.0}[m] for v, m in zip(vals, modes)],
               'e': list(errs)} for modes in modes_list]
    spec = {'shape': shape, 'kinds': kinds, 'ref': {'v': vals, 'e': errs}, 'others': others,
            'alpha': 0.05, 'ndf': None, 'ignore_empty': False, 'tol': [1e-5, 1e-8],
            'labels': {'a': 'x'}}
    spec.update(kw)
    return spec


def _nres(kind, okay, name, labels):
    return {'kind': kind, 'ok': okay, 'name': name, 'labels': labels}


def catalogue():
    """(kind, spec) pairs: every kind with a successful and a failing result."""
    cat = []
    ok1d = _ds_spec([3], ['e'], [[0, 0, 0]])
    ko1d = _ds_spec([3], ['c'], [[0, 1, 2], [2, 0, 0]])
    ok0d = _ds_spec([], None, [[0]])
    ko2d = _ds_spec([2, 2], ['e', 'c'], [[0, 2, 1, 0]], ndf=5)
    for kind in ('equal', 'approx', 'student', 'chi2', 'bonferroni', 'holm'):
        cat += [(kind, ok1d), (kind, ko1d), (kind, ko2d)]
    cat += [('equal', ok0d), ('student', ok0d), ('failed', ko1d)]
    cat += [('metadata', {'samples': [['A', [['k0', 'x'], ['k1', 1]]], ['B', [['k0', 'x'], ['k1', 1]]]],
                          'labels': {}}),
            ('metadata', {'samples': [['A', [['k0', 'x'], ['k1', 1]]], ['B', [['k0', 'y']]]],
                          'labels': {}})]
    templates = [{'t': 'text', 'text': 'plain text\n\n'},
                 {'t': 'table', 'cols': [[1.0, 2.0], [3.0, 4.0]], 'hl': [False, True]},
                 {'t': 'plot', 'edges': True, 'curves': [{'v': [1.0, 2.0, 3.0], 'e': [0.5, 0.5, 0.5]}]}]
    cat += [('external', {'templates': templates, 'success': True, 'labels': {}}),
            ('external', {'templates': templates[:1], 'success': False, 'labels': {}})]
    good = [{'name': 't0', 'status': 'DONE', 'results': [_nres('equal', True, 'n0', {'a': 'x', 'b': 'y'}),
                                                        _nres('student', True, 'n1', {'a': 'y'})]},
            {'name': 't1', 'status': 'DONE', 'results': [_nres('metadata', True, 'n2', {'a': 'x'})]}]
    mixed = [{'name': 't0', 'status': 'DONE', 'results': [_nres('equal', True, 'n0', {'a': 'x', 'b': 'y'}),
                                                         _nres('student', False, 'n1', {'a': 'y'})]},
             {'name': 't1', 'status': 'FAILED', 'results': None},
             {'name': 't2', 'status': 'DONE', 'results': [_nres('failed', False, 'n3', {'b': 'x'})]}]
    for kind in obsgen.STATS_KINDS:
        cat += [(kind, {'tasks': good, 'by_labels': ['a'], 'labels': {}}),
                (kind, {'tasks': mixed, 'by_labels': ['a'], 'labels': {}})]
    cat += [('stats_bylabels', {'tasks': mixed, 'by_labels': ['b', 'a'], 'labels': {}}),
            ('stats_tasks', {'tasks': [], 'by_labels': ['a'], 'labels': {}})]
    return cat


def op_variants(with_mpl=False):
    """Every read-only operation with every parameter value."""
    ops = [{'op': 'bool'}, {'op': 'oracles'}, {'op': 'fingerprint'}, {'op': 'deepcopy'},
           {'op': 'copy'}, {'op': 'evaluate'}]
    ops += [{'op': 'counts', 'which': which} for which in range(8)]
    ops += [{'op': 'str', 'which': which} for which in range(4)]
    ops += [{'op': 'pickle', 'proto': proto} for proto in range(2, 6)]
    ops += [{'op': 'repr', 'rep': rep, 'verb': verb} for rep in sorted(REPRESENTERS)
            for verb in range(6)]
    ops += [{'op': 'rst', 'rep': rep, 'verb': verb, 'report': report} for rep in RST_REPRESENTERS
            for verb in range(6) for report in (False, True)]
    if with_mpl:
        ops += [{'op': 'mpl', 'verb': 2}, {'op': 'mpl', 'verb': 4}]
    return ops


def enumerations(tier):
    def singles():
        for kind, spec in catalogue():
            for opn in op_variants(with_mpl=(tier == 'thorough')):
                yield {'kind': kind, 'spec': spec, 'ops': [opn, {'op': 'bool'}], 'origin': 'enum'}

    def pairs():
        # ordered pairs over a reduced operation set (one verbosity per behaviour class)
        reduced = [opn for opn in op_variants()
                   if opn.get('verb', 2) in (0, 2, 4) and opn.get('proto', 4) == 4
                   and not opn.get('report') and opn.get('which', 0) < 6]
        for kind, spec in catalogue():
            for one in reduced:
                for two in reduced:
                    yield {'kind': kind, 'spec': spec, 'ops': [one, two, {'op': 'oracles'}],
                           'origin': 'enum'}
    enums = [('every-single-operation-on-the-catalogue', singles, True)]
    if tier == 'thorough':
        enums.append(('ordered-pairs-of-operations-on-the-catalogue', pairs, True))
    return enums


# --------------------------------------------------------------------------
# the read-only operations

def _accessors(kind):
    """Named read accessors of the verdict / statistics of a result kind."""
    def classify_get(status):
        return lambda res: res.classify[status]
    if kind == 'student':
        return [('oracles', lambda res: res.oracles()), ('test_pvalue', lambda res: res.test_pvalue()),
                ('test_alpha', lambda res: [res.test_alpha(t) for t in res.tstud])]
    if kind == 'chi2':
        return [('oracles', lambda res: res.oracles()), ('chi2_per_ndf', lambda res: res.chi2_per_ndf)]
    if kind in ('bonferroni', 'holm'):
        acc = [('oracles', lambda res: res.oracles()), ('nb_rejected', lambda res: res.nb_rejected),
               ('rejected_proportion', lambda res: res.rejected_proportion),
               ('first.oracles', lambda res: res.first_test_res.oracles())]
        if kind == 'holm':
            acc.append(('sort_ordering', lambda res: res.sort_ordering))
        return acc
    if kind == 'metadata':
        return [('per_key', lambda res: res.per_key()),
                ('only_failed_comparisons', lambda res: res.only_failed_comparisons())]
    if kind == 'stats_tasks':
        return ([('classification_counts', lambda res: classification_counts(res.classify,
                                                                             TaskStatus.DONE)),
                 ('classify.items', lambda res: list(res.classify.items()))]
                + [(f'classify[{status.name}]', classify_get(status)) for status in TaskStatus])
    if kind == 'stats_tests':
        return ([('classification_counts', lambda res: classification_counts(res.classify,
                                                                             TestOutcome.SUCCESS)),
                 ('classify.items', lambda res: list(res.classify.items()))]
                + [(f'classify[{status.name}]', classify_get(status)) for status in TestOutcome])
    if kind == 'stats_bylabels':
        return [('oracles', lambda res: res.oracles()),
                ('nb_missing_labels', lambda res: res.nb_missing_labels()),
                ('classify', lambda res: list(res.classify))]
    return []


def _representation(opn):
    return rpr.Representation(REPRESENTERS[opn['rep']](), verbosity=Verbosity(opn['verb']))


def _strings(result, which):
    if which == 0:
        return repr(result), str(result)
    if which == 1:
        return repr(result.test), str(result.test)
    test = result.test
    test = getattr(test, 'test', test)       # (Holm-)Bonferroni: the datasets are in the first test
    dsets = [getattr(test, 'dsref', None)] + list(getattr(test, 'datasets', ()))
    dsets = [ds for ds in dsets if ds is not None]
    if which == 2:
        return [repr(ds) for ds in dsets]
    return [str(ds) for ds in dsets]


def _draw(result, opn):
    from valjean.javert.mpl import MplPlot
    import matplotlib.pyplot as plt
    templates = rpr.Representation(rpr.FullRepresenter(), verbosity=Verbosity(opn['verb']))(result)
    drawn = 0
    try:
        for templ in templates:
            if isinstance(templ, PlotTemplate):
                MplPlot(templ).draw()
                drawn += 1
    finally:
        plt.close('all')
    return drawn


class _Session:
    """One result under observation."""

    def __init__(self, kind, spec, out):
        self.kind, self.spec, self.out = kind, spec, out
        self.accessors = _accessors(kind)
        self.seen = set()
        self.test = obsgen.build_test(kind, spec)
        before = snapshot.take(self.test)
        self.result = obsgen.evaluate(kind, self.test)
        where = snapshot.diff(before, snapshot.take(self.test))
        if where:      # an evaluation that edits its inputs cannot be repeated on the same inputs
            self.fail('evaluate_changes_inputs',
                      f'C13/evaluate_changes_inputs/{snapshot.generic_path(where[0])}',
                      f'evaluating changed the test at {snapshot.show_path(where[0])}: {where[1]}')
        fresh = snapshot.take(self.result)
        self.verdict0 = bool(self.result)
        self.snap0 = snapshot.take(self.result)
        where = snapshot.diff(fresh, self.snap0)
        if where:
            self.fail('state_changed', f'C13/state_changed/{snapshot.generic_path(where[0])}',
                      f'first verdict read: {type(self.result).__name__}.'
                      f'{snapshot.show_path(where[0])}: {where[1]}')
        self.refs = {}
        self.corrupted = False     # a change of state was reported: the pristine references no longer apply

    def fail(self, clause, signature, detail):
        if signature not in self.seen:
            self.seen.add(signature)
            self.out.failures.append(Failure(clause, signature, detail[:600]))

    # reference value of an accessor: read once on a twin that nothing else has touched
    def reference(self, name, fun):
        if name not in self.refs:
            _test, twin = obsgen.build(self.kind, self.spec)
            self.refs[name] = _read(fun, twin)
        return self.refs[name]

    def read(self, name, fun, step):
        got = _read(fun, self.result)
        exp = got if self.corrupted else self.reference(name, fun)
        if got != exp:
            where = snapshot.diff(exp, got)
            self.fail('read_changed', f'C13/read_changed/{self.kind}/{_generic(name)}',
                      f'{step}: {name} of the observed result differs from the same read on a '
                      f'freshly evaluated twin at {snapshot.show_path(where[0])}: {where[1]}')
        return got[0] == 'raised'

    def apply(self, opn, step):
        """Execute one operation; returns (operation class, raised?)."""
        name = opn['op']
        result = self.result
        if name == 'bool':
            return name, self.read('bool', bool, step)
        if name == 'oracles':
            for aname, fun in self.accessors:
                if aname == 'oracles':
                    return name, self.read(aname, fun, step)
            return name, self.read('bool', bool, step)
        if name == 'counts':
            if not self.accessors:
                return name, self.read('bool', bool, step)
            aname, fun = self.accessors[opn['which'] % len(self.accessors)]
            return name, self.read(aname, fun, step)
        if name == 'evaluate':
            try:
                again = obsgen.evaluate(self.kind, result.test)
            except Exception as exc:    # it evaluated once: evaluating again must work as well
                self.out.failures.append(exc_failure('reevaluation_raises', exc, self.kind))
                return name, True
            where = None if self.corrupted else snapshot.diff(self.snap0, snapshot.take(again))
            if where:
                self.fail('reevaluation_differs',
                          f'C13/reevaluation_differs/{snapshot.generic_path(where[0])}',
                          f'{step}: evaluating the test again gives a different result at '
                          f'{snapshot.show_path(where[0])}: {where[1]}')
            if not self.corrupted and bool(again) != self.verdict0:
                self.fail('reevaluation_differs', f'C13/reevaluation_verdict/{self.kind}',
                          f'{step}: verdict {self.verdict0} but {bool(again)} when evaluated again')
            return name, False
        try:
            if name == 'repr':
                _representation(opn)(result)
            elif name == 'rst':
                rst = Rst(_representation(opn))
                if opn['report']:
                    rst.format_report(report=TestReport(title='report', content=[result]),
                                      author='nobody', version='0')
                else:
                    rst.format_result(result)
            elif name == 'fingerprint':
                fingerprint(result.test)
            elif name == 'str':
                _strings(result, opn['which'])
            elif name == 'mpl':
                _draw(result, opn)
            elif name in ('pickle', 'deepcopy', 'copy'):
                if name == 'pickle':
                    other = pickle.loads(pickle.dumps(result, protocol=opn['proto']))
                elif name == 'deepcopy':
                    other = copy.deepcopy(result)
                else:
                    other = copy.copy(result)
                self.compare_copy(other, name, step)
                if name == 'copy':
                    name = 'deepcopy'
            else:
                raise ValueError(f'unknown operation {opn!r}')
        except Exception as exc:      # not a violation of C13 (see ASSUMPTIONS); the state is checked
            if isinstance(exc, ValueError) and 'unknown operation' in str(exc):
                raise
            self.out.labels.append(f'raised:{name}')
            self.out.labels.append(f'raised:{name}:{type(exc).__name__}')
            return name, True
        return name, False

    def compare_copy(self, other, how, step):
        now = snapshot.take(self.result)
        where = snapshot.diff(now, snapshot.take(other))
        if where:
            self.fail('copy_differs', f'C13/copy_differs/{how}/{snapshot.generic_path(where[0])}',
                      f'{step}: the {how} of the result differs from it at '
                      f'{snapshot.show_path(where[0])}: {where[1]}')
        if bool(other) != bool(self.result):
            self.fail('copy_differs', f'C13/copy_verdict/{how}/{self.kind}',
                      f'{step}: verdict {bool(self.result)}, verdict of its {how} {bool(other)}')

    def invariant(self, step):
        """Verdict and snapshot equal the initial ones."""
        try:
            verdict = bool(self.result)
        except Exception as exc:
            self.out.failures.append(exc_failure('verdict_changed', exc, self.kind))
            verdict = None
        where = snapshot.diff(self.snap0, snapshot.take(self.result))
        flipped = verdict is not None and verdict != self.verdict0
        if where:
            path = snapshot.generic_path(where[0])
            self.fail('state_changed', f'C13/state_changed/{path}',
                      f'{step}: {type(self.result).__name__}.{snapshot.show_path(where[0])}: '
                      f'{where[1]}' + (f'; the verdict went from {self.verdict0} to {verdict}'
                                       if flipped else ''))
        elif flipped:
            self.fail('verdict_changed', f'C13/verdict_changed/{self.kind}',
                      f'{step}: verdict {self.verdict0} became {verdict} although the state of '
                      'the result is unchanged')
        if where or flipped:
            # report once, then go on from the new state: later steps are judged against it, and
            # the comparisons with pristine twins are switched off (they would only repeat this)
            self.corrupted = True
            self.snap0 = snapshot.take(self.result)
            if verdict is not None:
                self.verdict0 = verdict
        return bool(where) or flipped


def _read(fun, result):
    """Outcome of a read: ('value', snapshot) or ('raised', exception type)."""
    try:
        return ('value', snapshot.take(fun(result)))
    except Exception as exc:       # the outcome is compared with the one on the twin
        return ('raised', type(exc).__name__)


def _generic(name):
    return name.split('[')[0]


def _op_text(opn):
    extra = ','.join(f'{k}={v}' for k, v in sorted(opn.items()) if k != 'op')
    return opn['op'] + (f'({extra})' if extra else '')


def run_case(case):
    out = Outcome()
    kind, spec, ops = case['kind'], case['spec'], case['ops']
    out.labels.append(f'kind:{kind}')
    try:
        ses = _Session(kind, spec, out)
    except TestStatsTestsByLabelsException:
        out.labels.append('no-result')          # documented: a requested label that no test carries
        if case.get('origin') == 'enum':
            out.labels = ['enum/' + lab for lab in out.labels]
        return out
    out.labels.append('verdict:true' if ses.verdict0 else 'verdict:false')
    if kind in obsgen.STATS_KINDS and ses.verdict0:
        out.labels.append('stats-all-success')
    if kind in obsgen.DATASET_KINDS:
        ndim = len(spec['shape'])
        out.labels.append('datasets:scalar' if ndim == 0 else f'datasets:{ndim}d')
        out.labels.append(f'datasets:{"bins" if spec["kinds"] else "no-bins"}')
        out.labels.append(f'datasets:compared={len(spec["others"])}')

    # evaluation is deterministic: an independent build from the same numbers is identical
    _test, twin = obsgen.build(kind, spec)
    where = snapshot.diff(ses.snap0, snapshot.take(twin))
    if where:
        ses.fail('evaluation_not_repeatable',
                 f'C13/evaluation_not_repeatable/{snapshot.generic_path(where[0])}',
                 f'two evaluations of identical inputs differ at {snapshot.show_path(where[0])}: '
                 f'{where[1]}')

    viewed = False
    view_then_read = False
    done = []
    errstate0 = np.geterr()
    for idx, opn in enumerate(ops):
        step = f'step {idx} {_op_text(opn)} after [{", ".join(done)}]'
        name, raised = ses.apply(opn, step)
        if np.geterr() != errstate0:
            # process-wide numpy error handling changed by a read-only operation: evaluations
            # that divide by a zero error (0/0 -> convention) would now raise -- "evaluating a
            # test is deterministic and repeatable" no longer holds for what comes next
            ses.fail('process_state', 'C13/process_state/numpy-errstate',
                     f'{step}: numpy error handling changed from {errstate0} to {np.geterr()}')
            np.seterr(**errstate0)
        done.append(_op_text(opn))
        out.labels.append(f'op:{name}')
        if name in ('repr', 'rst'):
            out.labels.append(f'rep:{opn["rep"]}')
            out.labels.append(f'verbosity:{opn["verb"]}')
        if not raised:
            if name in VIEW_OPS:
                viewed = True
            elif name in READ_OPS and viewed:
                view_then_read = True
        ses.invariant(step)
    out.labels = sorted(set(out.labels))
    if len(ops) >= 6:
        out.labels.append('steps>=6')
    if view_then_read:
        out.labels.append('repr-then-verdict-read')
        out.labels.append('nontrivial')
        out.nontrivial = True
        out.key = jsonio.digest({'kind': kind, 'verdict': ses.verdict0, 'ops': ops})
    if case.get('origin') == 'enum':
        # the class floors describe the generated histories only
        out.labels = ['enum/' + lab for lab in out.labels]
    return out


KNOWN_PREDICATES = {
    # summaries of tasks / tests whose classification is a defaultdict (see proposed_fixes/)
    'task_or_test_summary': lambda case, failure: case['kind'] in ('stats_tasks', 'stats_tests'),
}

MANIFEST = {
    'text': ('Generated histories (Hypothesis) of read-only operations -- verdict and statistics reads, '
             'representation by 7 representers at 6 verbosities, reST formatting of a result and of a '
             'report, fingerprint, repr/str, pickle/deepcopy/copy, re-evaluation, matplotlib drawing '
             '(thorough) -- on results of 12 kinds built from generated inputs; after every step the '
             'verdict and a deep structural snapshot of the result, its test, datasets, nested results '
             'and templates (mapping key sets, array bytes, float bit patterns) must equal the initial '
             'ones, accessor values must equal those of a freshly evaluated twin, and re-evaluations '
             'and copies must have an equal snapshot. Every single operation (thorough: every ordered '
             'pair) is also enumerated on a fixed catalogue of results of every kind. Exploration, not '
             'proof: histories longer than 12 steps, user-defined representers and result classes '
             'outside the 12 kinds are not covered.'),
    'note': ('The snapshot sees object attributes, mapping keys in order, sequences, arrays and numpy '
             'scalars by bytes; module-level state of valjean and of matplotlib is not part of it. '
             'Exceptions raised by a read-only operation are counted, not judged (C12 judges '
             'rendering). Outputs of representations are not compared between repetitions.'),
    'technique': ('property-based testing of operation histories (Hypothesis) + exhaustive enumeration of '
                  'single operations / ordered pairs on a catalogue; invariant over the history via deep '
                  'snapshots, differential against a freshly built twin'),
    'design_ref': 'DESIGN.md section 3, C13',
}
