"""C20 -- a written report contains every section and every result exactly
once.

A case is a plain dictionary::

    {'root': SECTION, 'full': bool, 'fresh': bool, 'prev': SECTION | None}
    SECTION = {'t': title, 'x': bool (has introductory text), 'c': [SECTION | RESULT, ...]}
    RESULT  = {'r': 'eq' | 'st' | 'md', 'ok': bool}

``prev`` is an earlier, always writable report formatted with the same
:class:`Rst` object before ``root`` and written after it (both must be intact:
two-step history).  ``run_case`` builds the :class:`TestReport` tree (every
section text and every result description is a unique token, every result has
its own fingerprint), formats it with :class:`Rst`, writes it with :meth:`FormattedRst.write` into a
private directory and compares the files with a reference model computed from
the case alone (``_model``): which pages must exist, what each of them must
hold, which titles cannot be file names and which chains of titles cannot be
laid out next to each other (collision with the root page, page file needed as
a directory).
"""
import os
import re
import shutil
import tempfile
from collections import OrderedDict

import numpy as np
from hypothesis import strategies as st

from valjean.eponine.dataset import Dataset
from valjean.fingerprint import fingerprint
from valjean.gavroche.test import TestEqual
from valjean.gavroche.stat_tests.student import TestStudent
from valjean.gavroche.diagnostics.metadata import TestMetadata
from valjean.javert.representation import (Representation, TableRepresenter,
                                           FullRepresenter, ExternalRepresenter)
from valjean.javert.templates import TextTemplate
from valjean.javert.test_external import TestExternal
from valjean.javert.rst import Rst
from valjean.javert.test_report import TestReport
from vlib.core import Failure, Outcome, exc_failure, valjean_frame

ID = 'C20'
LEVEL = 'exploration'
RULE = ('cases = report trees of 1-5 levels (6 levels in ~3 %: rejection expected) with 0-4 '
        'items per section (sub-sections and equal/Student/metadata results with distinct '
        'fingerprints, and user-made TestExternal results that all share one name and description '
        'and differ by their content), titles drawn from a small pool so that they repeat among siblings and '
        'along a path: ordinary words (blanks, dots, commas, unicode), reserved names (index, '
        'figures, conf, conf.py, index.rst, .static, .templates, <word>.rst), titles that cannot '
        'be file names (".", "..", with "/", with NUL, empty) and random single-line text; '
        'target directory existing-and-empty or absent together with its parent; TableRepresenter '
        '(FullRepresenter for the first three results, so that figures are written, in ~5 %), '
        'verbosity DEFAULT; in ~17 % an earlier small report is formatted by the same Rst object '
        'first and written afterwards. Oracle = reference model of the page layout '
        'computed from the case + unique tokens for every section text / result. non-trivial = '
        '(>= 3 levels and >= 2 results on different pages) or a reserved or invalid title in the '
        'tree; distinct = structural hash of the case')
ASSUMPTIONS = [
    'titles are single-line, without leading/trailing blanks, at most 24 characters (longer than '
    'NAME_MAX is file-system dependent and is not generated)',
    'every equal/Student/metadata result has its own fingerprint; external results share theirs '
    '(same name and description) and are recognised by their body; no TestReport/TestResult '
    'object occurs twice',
    'verbosity DEFAULT (SILENT/SUMMARY omit passing results by documented design); n_workers=None',
    'sections with the same chain of titles share one page (that is how the code keys sections); '
    'the page must then hold the texts and results of all of them, each exactly once',
    'a chain of titles that cannot be laid out (first-level title equal to the root page name '
    '"index"; a file such as "conf.py", ".static/valjean.css", "index.rst" or the page "T.rst" '
    'of a sibling that is also needed as a directory) may be rejected with ValueError before '
    'anything is written; if the report is written instead, all clauses apply',
    'an Rst object may format several reports one after the other (format_report clears it); a '
    'FormattedRst obtained earlier stays valid and can be written later',
    'the title of the root section is never used as a file name, so it may be anything',
    'a table-of-contents entry is resolved like Sphinx does (relative to the directory of the '
    'page, a leading "/" meaning the report root); it must point to the page of a sub-section of '
    'the section it appears in, and every sub-section must be listed',
    '6-level trees: only "ValueError and nothing written" is asserted',
    'the fingerprint function itself is trusted (anchors are looked up by valjean.fingerprint)',
]
BUDGET = {'quick': {'cases': 8000, 'shards': 16, 'seconds': 150, 'shrink_s': 40},
          'thorough': {'cases': 160000, 'shards': 16, 'seconds': 1500, 'shrink_s': 90}}
# classes of *inputs* (computed by the model, never from what the code did)
FLOORS = {'nontrivial': 0.40, 'nt-deep-multipage': 0.30, 'reserved-title': 0.25,
          'reserved-title-nested': 0.20, 'invalid-title': 0.04, 'dup-siblings': 0.10,
          'dup-along-path': 0.20, 'levels>=4': 0.30, 'expect-written': 0.60, 'collision': 0.04,
          'collision=root': 0.015, 'collision=dirfile': 0.02, 'full-representer': 0.02,
          'empty-section': 0.30, 'reused-rst': 0.08, 'too-deep': 0.01, 'unicode-title': 0.20,
          'target-absent': 0.25}

HEADER_DEPTHS = 5          # "the supported five levels"
ORDINARY = ['A', 'B', 'Results', 'Test results', 'U235, 2 MeV', 'v1.2', 'a.b', 'Résumé',
            'Дом ✓', 'x  y', '...', 'Sub!', 'a b.', '.hidden', 'index2', 'A.']
RESERVED = ['index', 'index', 'figures', 'conf', '.static', '.templates', 'conf.py',
            'index.rst', 'A.rst', 'Contents', 'figures.rst', 'plot_', 'valjean.css']
INVALID = ['.', '..', 'a/b', '/', 'a\0b', '', '/abs', '\0']
RESERVED_SET = frozenset(RESERVED)


# --------------------------------------------------------------------------
# generator

_RANDOM_TITLE = st.text(
    alphabet=st.one_of(st.sampled_from('abAB. -_/\\*?"|#=`\'+!,;'),
                       st.characters(categories=['Lu', 'Ll', 'Lo', 'Nd', 'Po', 'Sm'])),
    min_size=1, max_size=24).map(str.strip)

_TITLE = st.one_of(
    st.sampled_from(ORDINARY[:4]), st.sampled_from(ORDINARY[:4]),
    st.sampled_from(ORDINARY), st.sampled_from(ORDINARY), st.sampled_from(ORDINARY),
    st.sampled_from(ORDINARY), st.sampled_from(ORDINARY),
    st.sampled_from(RESERVED), st.sampled_from(RESERVED),
    _RANDOM_TITLE)
_TITLE_MAYBE_INVALID = st.one_of(st.sampled_from([0] * 99 + [1]).flatmap(
    lambda bad: st.sampled_from(INVALID) if bad else _TITLE))

_RESULT = st.builds(lambda kind, ok: {'r': kind, 'ok': ok},
                    st.sampled_from(['eq', 'st', 'md', 'eq', 'st', 'md', 'ex', 'ex']), st.booleans())


@st.composite
def _section(draw, level, levels):
    title = draw(_TITLE_MAYBE_INVALID if level > 1 else _TITLE)
    has_text = draw(st.booleans())
    if level < levels:
        items = draw(st.lists(st.one_of(_RESULT, _section(level + 1, levels),
                                        _section(level + 1, levels)), max_size=4))
        if not any('t' in it for it in items) and draw(st.integers(0, 9)) < 8:
            # keep the tree as deep as announced most of the time
            items.insert(draw(st.integers(0, len(items))), draw(_section(level + 1, levels)))
    else:
        items = draw(st.lists(_RESULT, max_size=3))
    if title == '.static' and level + 1 < levels and draw(st.booleans()):
        # aim at the style sheet that setup() writes into .static
        subs = [it for it in items if 't' in it]
        if subs:
            subs[0]['t'] = 'valjean.css'
            if not any('t' in it for it in subs[0]['c']):
                subs[0]['c'].append({'t': 'A', 'x': False, 'c': []})
    return {'t': title, 'x': has_text, 'c': items}


_SAFE_TITLE = st.sampled_from(['A', 'B', 'Results', 'figures', 'Дом ✓', 'index2'])


@st.composite
def _safe_section(draw, level):
    """Small section tree that can always be written (for the earlier report)."""
    kids = st.one_of(_RESULT, _safe_section(level + 1)) if level < 3 else _RESULT
    return {'t': draw(_SAFE_TITLE), 'x': draw(st.booleans()),
            'c': draw(st.lists(kids, max_size=3))}


@st.composite
def _case(draw):
    levels = draw(st.sampled_from([1, 2, 2, 3, 3, 3, 3, 4, 4, 4, 4, 5, 5, 5, 5, 5] * 2 + [6]))
    root = draw(_section(1, levels))
    full = draw(st.sampled_from([False] * 11 + [True]))
    fresh = draw(st.booleans())
    prev = draw(st.one_of(st.none(), st.none(), st.none(), _safe_section(1)))
    if prev is not None and not full:
        # two reports from one Rst object: figures matter more often (the earlier report's
        # figures must still be written although the Rst object was reused in between)
        full = draw(st.sampled_from([False, False, True]))
    case = {'root': root, 'full': full, 'fresh': fresh, 'prev': prev}
    if draw(st.integers(0, 4)) == 0:
        case['again'] = True
    if full and draw(st.integers(0, 2)) == 0:
        # figures written by a pool of subprocesses (RstTestReportTask with --workers)
        case['workers'] = draw(st.sampled_from([1, 2, 4]))
    return case


def strategy(tier):
    return _case()


# --------------------------------------------------------------------------
# reference model (computed from the case alone)

def _invalid_kind(title):
    """Why ``title`` cannot be the name of a file (None if it can)."""
    if title == '':
        return 'empty'
    if '\0' in title:
        return 'nul'
    if '/' in title:
        return 'slash'
    if title in ('.', '..'):
        return 'dots'
    return None


class _Sec:
    def __init__(self, chain, title, level, token, results, nsub, empty):
        self.chain, self.title, self.level = chain, title, level
        self.token, self.results, self.nsub, self.empty = token, results, nsub, empty


PREV_BASE = 1000    # numbering of the sections / results of the earlier report


def _walk(root, base=0):
    """Flatten the tree: list of _Sec in pre-order; results numbered in
    pre-order over the whole tree (starting at ``base``)."""
    secs = []
    counter = {'sec': base, 'res': base}

    def rec(node, chain, level):
        idx = counter['sec']
        counter['sec'] += 1
        token = f'zqtext{idx}x' if node['x'] else ''
        sec = _Sec(chain, node['t'], level, token, [], 0, not node['c'])
        secs.append(sec)
        for item in node['c']:
            if 't' in item:
                sec.nsub += 1
                rec(item, chain + (item['t'],), level + 1)
            else:
                sec.results.append((counter['res'], item['r'], item['ok']))
                counter['res'] += 1
    rec(root, (), 1)
    return secs


def _page_of(chain):
    return 'index.rst' if not chain else '/'.join(chain) + '.rst'


def _model(root, base=0):
    secs = _walk(root, base)
    mod = {'secs': secs, 'levels': max(s.level for s in secs)}
    mod['too_deep'] = mod['levels'] > HEADER_DEPTHS
    kinds = sorted({_invalid_kind(s.title) for s in secs[1:]} - {None})
    mod['invalid'] = kinds
    chains = OrderedDict()
    for sec in secs:
        chains.setdefault(sec.chain, []).append(sec)
    mod['chains'] = chains
    # chains of usable titles that cannot be laid out next to each other
    collisions = set()
    usable = [c for c in chains if not any(_invalid_kind(t) for t in c)]
    pages = {}
    for chain in usable:
        pages.setdefault(_page_of(chain), []).append(chain)
    for page, owners in pages.items():
        if len(owners) > 1:
            collisions.add('root' if () in owners else 'page')
    dirs = {'.static', '.templates', 'figures'}
    for chain in usable:
        for k in range(1, len(chain)):
            dirs.add('/'.join(chain[:k]))
    clashes = dirs & (set(pages) | {'conf.py', '.static/valjean.css'})
    if clashes:
        collisions.add('dirfile')
    mod['clashes'] = sorted({c if c in ('conf.py', '.static/valjean.css', 'index.rst')
                             else 'page-of-a-sibling' for c in clashes})
    mod['collisions'] = sorted(collisions)
    mod['pages'] = None if kinds else {_page_of(c): c for c in chains}   # page -> chain
    return mod


# --------------------------------------------------------------------------
# building the real objects

def _dataset(values, name):
    values = np.array(values, dtype=float)
    bins = OrderedDict([('e', np.arange(values.size + 1, dtype=float))])
    return Dataset(values, values * 0.0625 + 0.125, bins=bins, name=name, what='flux')


def _result(idx, kind, okay):
    name, desc = f'res{idx}', f'zqdesc{idx}x'
    base = [1.0 + idx, 2.0 + idx, 4.0 + idx]
    other = list(base) if okay else [base[0], base[1] + 3.0, base[2]]
    if kind == 'eq':
        test = TestEqual(_dataset(base, 'ref'), _dataset(other, 'oth'), name=name,
                         description=desc)
    elif kind == 'st':
        test = TestStudent(_dataset(base, 'ref'), _dataset(other, 'oth'), name=name,
                           description=desc)
    elif kind == 'ex':
        # user-made results: the SAME name and description for all of them (the same check done
        # in several sections), told apart only by what they show
        test = TestExternal(TextTemplate(f'zqbody{idx}x\n\n'), name='external check',
                            description='zqdescSHAREDx', success=okay)
    else:
        test = TestMetadata({'ref': {'code': 'T4', 'n': idx}, 'oth': {'code': 'T4', 'n': idx if okay else -1}},
                            name=name, description=desc)
    return test.evaluate()


def _build(root, base=0):
    """TestReport tree of the case and {result index: fingerprint}."""
    counter = {'sec': base, 'res': base}
    fprints = {}

    def rec(node):
        idx = counter['sec']
        counter['sec'] += 1
        content = []
        for item in node['c']:
            if 't' in item:
                content.append(rec(item))
            else:
                ridx = counter['res']
                counter['res'] += 1
                res = _result(ridx, item['r'], item['ok'])
                fprints[ridx] = fingerprint(res.test)
                content.append(res)
        return TestReport(title=node['t'], text=f'zqtext{idx}x' if node['x'] else '',
                          content=content)
    return rec(root), fprints


# --------------------------------------------------------------------------
# reading what was written

def _listing(top):
    """(relative files, relative directories) below ``top``."""
    files, dirs = [], []
    for base, dnames, fnames in os.walk(top):
        rel = os.path.relpath(base, top)
        for name in dnames:
            dirs.append(os.path.normpath(os.path.join(rel, name)))
        for name in fnames:
            files.append(os.path.normpath(os.path.join(rel, name)))
    return sorted(files), sorted(dirs)


_UNDERLINE = re.compile(r'^([^\w\s])\1*$')


def _has_header(lines, title):
    """A line equal to the title followed by an underline at least as long."""
    for pos, line in enumerate(lines[:-1]):
        if line == title:
            nxt = lines[pos + 1]
            if len(nxt) >= len(title) and _UNDERLINE.match(nxt):
                return True
    return False


def _toc_entries(lines):
    """Entries of all ``.. toctree::`` directives of a page."""
    entries = []
    pos = 0
    while pos < len(lines):
        if lines[pos].strip() == '.. toctree::' and not lines[pos].startswith(' '):
            pos += 1
            # option block: the indented lines directly below the directive
            while pos < len(lines) and lines[pos].startswith(' ') and lines[pos].strip():
                pos += 1
            # content: blank or indented lines
            while pos < len(lines) and (not lines[pos].strip() or lines[pos].startswith(' ')):
                if lines[pos].strip():
                    entries.append(lines[pos].strip())
                pos += 1
        else:
            pos += 1
    return entries


def _resolve(entry, page):
    """File (relative to the report root) a toctree entry of ``page`` names."""
    if entry.startswith('/'):
        target = entry.lstrip('/')
    else:
        target = os.path.join(os.path.dirname(page), entry)
    return os.path.normpath(target) + '.rst'


def _feature(chain, chains):
    """Cause feature of a page: several sections share it, or one."""
    return 'dup-chain' if len(chains.get(chain, ())) > 1 else 'single'


# --------------------------------------------------------------------------

def _labels(case, mod, out):
    secs = mod['secs']
    levels = mod['levels']
    out.labels.append(f'levels={levels}')
    if levels >= 4:
        out.labels.append('levels>=4')
    if sum(kind == 'ex' for s in secs for _i, kind, _ok in s.results) >= 2:
        out.labels.append('results-sharing-a-fingerprint')
    titles = [s.title for s in secs[1:]]
    reserved = any(t in RESERVED_SET for t in titles)
    if reserved:
        out.labels.append('reserved-title')
    if any(t in RESERVED_SET for s in secs[1:] if s.level >= 3 for t in (s.title,)):
        out.labels.append('reserved-title-nested')
    if mod['invalid']:
        out.labels.append('invalid-title')
        out.labels.extend('invalid=' + k for k in mod['invalid'])
    if any(len(v) > 1 for c, v in mod['chains'].items()):
        out.labels.append('dup-siblings')
    if any(len(set(s.chain)) < len(s.chain) for s in secs):
        out.labels.append('dup-along-path')
    if any(s.empty for s in secs):
        out.labels.append('empty-section')
    if any(not s.title.isascii() for s in secs):
        out.labels.append('unicode-title')
    if mod['too_deep']:
        out.labels.append('too-deep')
    if mod['collisions']:
        out.labels.append('collision')
    out.labels.extend('collision=' + kind for kind in mod['collisions'])
    out.labels.extend('clash:' + kind for kind in mod['clashes'])
    out.labels.append('full-representer' if case['full'] else 'table-representer')
    out.labels.append('target-absent' if case['fresh'] else 'target-empty-dir')
    pages_with_results = {s.chain for s in secs if s.results}
    nres = sum(len(s.results) for s in secs)
    out.labels.append('results=0' if nres == 0 else 'results>=1')
    deep_multi = levels >= 3 and len(pages_with_results) >= 2
    if deep_multi:
        out.labels.append('nt-deep-multipage')
    out.nontrivial = bool(deep_multi or reserved or mod['invalid'])
    if out.nontrivial:
        out.labels.append('nontrivial')
    if not (mod['too_deep'] or mod['invalid'] or mod['collisions']):
        out.labels.append('expect-written')


def _expect_rejection(mod):
    """(must reject, may reject, cause)"""
    if mod['too_deep']:
        return True, True, 'too-deep'
    if mod['invalid']:
        return True, True, 'invalid-title'
    if mod['collisions']:
        return False, True, 'collision=' + mod['collisions'][0]
    return False, False, 'plain'


class _AllowChildren:
    """FormattedRst.write(n_workers=N) starts a multiprocessing pool; the shards of this
    framework are daemonic pool workers, which may not have children.  The flag is lifted for
    the duration of the call (harness process only)."""
    def __enter__(self):
        import multiprocessing as mp
        self.conf = mp.current_process()._config
        self.old = self.conf.get('daemon')
        self.conf['daemon'] = False

    def __exit__(self, *exc):
        if self.old is None:
            self.conf.pop('daemon', None)
        else:
            self.conf['daemon'] = self.old


def run_case(case):
    out = Outcome()
    mod = _model(case['root'])
    _labels(case, mod, out)
    must_reject, may_reject, cause = _expect_rejection(mod)
    report, fprints = _build(case['root'])
    prev = case.get('prev')
    if prev is not None:
        out.labels.append('reused-rst')
        prev_mod = _model(prev, PREV_BASE)
        prev_report, prev_fprints = _build(prev, PREV_BASE)
    tables, externals = TableRepresenter(), ExternalRepresenter()

    def representer(result, verbosity):      # tables, and the templates of user-made results
        return list(tables(result, verbosity) or []) + list(externals(result, verbosity) or [])
    if case['full']:
        # figures for the first results only (a figure costs ~0.3 s)
        full, table = FullRepresenter(), representer

        def representer(result, verbosity):
            return (full if result.test.name in ('res0', 'res1', 'res2', f'res{PREV_BASE}',
                                                 f'res{PREV_BASE + 1}') else table)(result, verbosity)
    tmp = tempfile.mkdtemp(prefix='c20-', dir='/dev/shm' if os.path.isdir('/dev/shm') else '/var/tmp')
    try:
        # existing empty directory, or a path of which the last two levels do not exist yet
        target = os.path.join(tmp, 'out', 'report') if case['fresh'] else os.path.join(tmp, 'out')
        if not case['fresh']:
            os.mkdir(target)
        rst = Rst(Representation(representer), n_workers=case.get('workers'))
        if case.get('workers'):
            out.labels.append('parallel-figure-writer')
        prev_fmt = None
        if prev is not None:
            # an earlier report formatted by the same Rst object; it is written last
            prev_fmt = rst.format_report(report=prev_report, author='verif', version='0.0')
        rejected = None
        crashed = None
        try:
            fmt = rst.format_report(report=report, author='verif', version='0.1')
            with _AllowChildren():
                fmt.write(target)
        except ValueError as exc:
            rejected = exc
        except Exception as exc:   # noqa: BLE001 -- the property allows no other exception
            crashed = exc
        finally:
            _close_figures()
        files, dirs = ([], [])
        if os.path.isdir(target):
            files, dirs = _listing(target)
        outside = _outside(tmp, target)
        left = f'files {files[:6]} dirs {dirs[:6]}' + (f' OUTSIDE the target: {outside}' if outside else '')
        _verdict(out, mod, fprints, target, files, dirs, outside, left, rejected, crashed,
                 (must_reject, may_reject, cause), tmp)
        if case.get('again') and rejected is None and crashed is None and not out.failures:
            # the report is produced once more into the same (cleaned) place, as when a notebook
            # cell or a job is run again in one process: every write is a complete write
            out.labels.append('written-twice-same-path')
            shutil.rmtree(target)
            if not case['fresh']:
                os.mkdir(target)
            try:
                with _AllowChildren():
                    fmt.write(target)
            except Exception as exc:   # noqa: BLE001
                out.failures.append(exc_failure('C20/second_write_raises', exc))
            else:
                files2, _dirs2 = _listing(target)
                for sig, det in _compare(mod, fprints, target, files2):
                    out.failures.append(Failure(sig.split('/')[1], sig + '/second-write', det[:400]))
            finally:
                _close_figures()
        if prev_fmt is not None:
            # the earlier report must be unaffected by the later one
            target2 = os.path.join(tmp, 'out-earlier')
            try:
                with _AllowChildren():
                    prev_fmt.write(target2)
            except Exception as exc:   # noqa: BLE001 -- nothing may be raised for this tree
                out.failures.append(exc_failure('C20/earlier_report_raises', exc))
            else:
                files2, _dirs2 = _listing(target2)
                for sig, det in _compare(prev_mod, prev_fprints, target2, files2):
                    out.failures.append(Failure(sig.split('/')[1], sig + '/earlier-report', det[:400]))
    finally:
        shutil.rmtree(tmp, ignore_errors=True)
    return out


def _verdict(out, mod, fprints, target, files, dirs, outside, left, rejected, crashed, expect, tmp):
    """Evaluate the clauses for the main report."""
    must_reject, may_reject, cause = expect
    if crashed is not None:
        out.labels.append('crashed')
        ccause = ('collision=' + mod['collisions'][0]
                  if mod['collisions'] and cause != 'too-deep' else cause)
        tname = 'OSError' if isinstance(crashed, OSError) else type(crashed).__name__
        out.failures.append(Failure(
            'write_raises', f'C20/write_raises/{tname}/{ccause}',
            f'{type(crashed).__name__}: {str(crashed)[:200].replace(tmp, "<tmp>")} '
            f'@{valjean_frame(crashed)[1]} -- left behind: {left}'))
        return
    if rejected is not None:
        out.labels.append('rejected')
        if not may_reject:
            out.failures.append(exc_failure('C20/valid_tree_rejected', rejected, cause))
        elif files or dirs or outside:
            out.failures.append(Failure(
                'rejected_before_writing', f'C20/rejected_after_writing/{cause}',
                f'ValueError ({str(rejected)[:80]}) but the target holds {left}'))
        return
    out.labels.append('written')
    if must_reject:
        extra = '+'.join(mod['invalid']) if mod['invalid'] else 'levels'
        out.failures.append(Failure(
            'unusable_title_rejected', f'C20/not_rejected/{cause}/{extra}',
            f'no ValueError although {cause} ({extra}); {left}'))
        return
    if outside:
        out.failures.append(Failure(
            'wrote_outside_target', f'C20/wrote_outside_target/{cause}',
            f'entries next to the target directory: {outside}'))
    problems = _compare(mod, fprints, target, files)
    if mod['collisions']:
        if problems:
            out.failures.append(Failure(
                'no_page_overwritten', f'C20/page_collision/{cause}',
                '; '.join(f'{sig}: {det}' for sig, det in problems)[:600]))
    else:
        for sig, det in problems:
            out.failures.append(Failure(sig.split('/')[1], sig, det[:400]))


def _outside(tmp, target):
    """Everything below ``tmp`` that is neither in the target nor above it."""
    found = []
    for base, dnames, fnames in os.walk(tmp):
        if base == target:
            dnames[:] = []
            continue
        for name in dnames + fnames:
            path = os.path.join(base, name)
            if not (target == path or target.startswith(path + os.sep)):
                found.append(os.path.relpath(path, tmp))
    return sorted(found)


def _close_figures():
    try:
        import matplotlib.pyplot as plt
        plt.close('all')
    except Exception:   # noqa: BLE001 -- matplotlib not imported / nothing to close
        pass


def _compare(mod, fprints, target, files):
    """All clauses for a report that was written; returns [(signature, detail)]."""
    problems = []
    chains = mod['chains']
    expected = mod['pages']          # page -> chain
    found_pages = [f for f in files if f.endswith('.rst')]

    # 1. one page per chain of titles, the root page among them, nothing else
    for page, chain in expected.items():
        if page not in found_pages:
            problems.append((f'C20/page_missing/{_feature(chain, chains) if chain else "root"}',
                             f'no page {page!r} for the section {chain!r}'))
    for page in found_pages:
        if page not in expected:
            problems.append(('C20/page_unexpected', f'page {page!r} belongs to no section'))
    for fil in files:
        if not (fil.endswith('.rst') or fil in ('conf.py', os.path.join('.static', 'valjean.css'))
                or (fil.startswith('figures' + os.sep) and fil.endswith('.png'))):
            problems.append(('C20/file_unexpected', f'unexpected file {fil!r}'))

    texts = {}
    for page in found_pages:
        with open(os.path.join(target, page)) as fil:
            texts[page] = fil.read()
    lines = {page: text.split('\n') for page, text in texts.items()}

    def occurrences(needle):
        return {page: text.count(needle) for page, text in texts.items() if needle in text}

    for chain, secs in chains.items():
        page = _page_of(chain)
        feat = _feature(chain, chains) if chain else 'root'
        if page not in texts:
            continue
        # 2. header and text of the section(s) of the page
        title = secs[0].title
        if title and not _has_header(lines[page], title):
            problems.append((f'C20/header_missing/{feat}',
                             f'page {page!r} has no header {title!r}'))
        for sec in secs:
            if sec.token:
                occ = occurrences(sec.token)
                if occ != {page: 1}:
                    problems.append((f'C20/section_text/{_where(occ, page, chain)}/{feat}',
                                     f'text of section {chain!r} found {occ}, expected once on '
                                     f'{page!r}'))
            # 3. every result exactly once, on the page of its section
            for ridx, kind, _ok in sec.results:
                needles = (('anchor', f'.. _anchor_{fprints[ridx]}:'),
                           ('description', f'zqdesc{ridx}x'))
                if kind == 'ex':         # shared name and description: only the body is its own
                    needles = (('body', f'zqbody{ridx}x'),)
                for what, needle in needles:
                    occ = occurrences(needle)
                    if occ != {page: 1}:
                        problems.append((
                            f'C20/result_once/{_where(occ, page, chain)}/{feat}',
                            f'{what} of result {ridx} ({kind}) of section {chain!r} found {occ}, '
                            f'expected once on {page!r}'))
                        break
        # 4. table of contents
        children = {_page_of(c) for c in chains if len(c) == len(chain) + 1 and c[:len(chain)] == chain}
        listed = set()
        for entry in _toc_entries(lines[page]):
            tgt = _resolve(entry, page)
            listed.add(tgt)
            depth = 'root' if not chain else ('level2' if len(chain) == 1 else 'level3+')
            if tgt not in found_pages:
                problems.append((f'C20/toc_dangling/{depth}',
                                 f'{page!r} lists {entry!r} = {tgt!r} which was not written'))
            elif tgt not in children:
                problems.append((f'C20/toc_wrong_page/{depth}',
                                 f'{page!r} lists {entry!r} = {tgt!r}, not a sub-section of {chain!r}'))
        for child in sorted(children - listed):
            problems.append(('C20/toc_incomplete',
                             f'{page!r} does not list its sub-section page {child!r}'))
        # 5. figures
        for line in lines[page]:
            match = re.match(r'^\s*\.\. image:: (\S+)\s*$', line)
            if match:
                ref = match.group(1)
                fig = ref.lstrip('/') if ref.startswith('/') else os.path.join(
                    os.path.dirname(page), ref)
                path = os.path.join(target, os.path.normpath(fig))
                if not os.path.isfile(path) or os.path.getsize(path) == 0:
                    problems.append(('C20/figure_missing', f'{page!r} references {ref!r}'))
    return problems


def _where(occ, page, chain):
    """Cause feature of a misplaced / miscounted token."""
    total = sum(occ.values())
    if total == 0:
        return 'absent'
    if occ.get(page, 0) > 1 or (total > 1 and set(occ) == {page}):
        return 'repeated'
    parent = _page_of(chain[:-1]) if chain else None
    others = set(occ) - {page}
    if others == {parent}:
        return 'on-parent' if page not in occ else 'also-on-parent'
    return 'on-other-page' if page not in occ else 'also-elsewhere'


MANIFEST = {
    'text': ('Generated search (Hypothesis) over report trees of 1-5 levels (and 6, rejection '
             'expected) whose titles repeat and include reserved page/directory names and names '
             'that cannot be files; each tree is formatted and written to a private directory and '
             'the files are compared with a reference model of the layout computed from the case: '
             'exact set of pages, header/text of every section, every result (unique anchor and '
             'description token) exactly once and on its own page, toctree entries resolved the '
             'way Sphinx does and equal to the sub-section pages, referenced figures present, no '
             'file outside the target, ValueError before any file is created for unusable titles; '
             'in one case out of six an earlier report formatted by the same Rst object is written '
             'afterwards and must be intact too. Exploration, not proof.'),
    'note': ('Trusts valjean.fingerprint for anchor names, the representers for the body of a '
             'result, and the local file system semantics (Linux, case-sensitive). Sphinx itself '
             'is not run (its entry syntax "title <target>", "self", globs is not modelled and "<", '
             '">" are not generated). Titles longer than 24 characters, multi-line titles, '
             'SILENT/SUMMARY verbosity, parallel figure writing, a section title equal to the file '
             'name of a figure, and RstTestReportTask (which only adds sanitize_filename(task name) '
             'in front of write) are not generated.'),
    'technique': 'property-based testing (Hypothesis), reference-model oracle over the written file tree',
    'design_ref': 'DESIGN.md section 3, C20',
}
