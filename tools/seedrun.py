#!/venv/bin/python
"""Run checks against a seeded change (a patch) applied to a scratch copy of /repo.

usage: tools/seedrun.py PATCH_OR_SEEDED_DIR [--checks C01,C02] [--tier quick] [--demo] [--seeds 1,2]

* copies /repo/valjean (working tree) to /var/tmp/vv-seed-XXXX/valjean, applies the patch with
  ``patch -p1`` and runs ``VALJEAN_SRC=<copy> ./vcheck <ID>`` for each check (default: the
  property named in meta.json), printing DETECTED / MISSED / ERROR(rc);
* with --demo also runs the demonstration (demo.py or demo.sh next to the patch) on the
  unpatched and on the patched copy and prints both exit codes (expected 0 then non-zero);
* the copy is removed afterwards.  /repo itself is never modified.
"""
import argparse
import json
import os
import shutil
import subprocess
import sys
import tempfile
import time

HERE = os.path.dirname(os.path.dirname(os.path.abspath(__file__)))


def main():
    par = argparse.ArgumentParser()
    par.add_argument('target')
    par.add_argument('--checks', default='')
    par.add_argument('--tier', default='quick')
    par.add_argument('--demo', action='store_true')
    par.add_argument('--seeds', default='1')
    par.add_argument('--keep', action='store_true')
    args = par.parse_args()
    target = os.path.abspath(args.target)
    sdir = target if os.path.isdir(target) else os.path.dirname(target)
    patch = os.path.join(sdir, 'patch.diff') if os.path.isdir(target) else target
    meta = {}
    if os.path.exists(os.path.join(sdir, 'meta.json')):
        meta = json.load(open(os.path.join(sdir, 'meta.json')))
    checks = [c for c in args.checks.split(',') if c] or [meta.get('property')]
    tmp = tempfile.mkdtemp(prefix='vv-seed-', dir='/var/tmp')
    rc_all = 0
    try:
        shutil.copytree('/repo/valjean', os.path.join(tmp, 'valjean'))
        for extra in ('tests', 'setup.py', 'setup.cfg', 'pyproject.toml', 'README.md', 'README.rst'):
            src = os.path.join('/repo', extra)
            if os.path.isdir(src):
                shutil.copytree(src, os.path.join(tmp, extra))
            elif os.path.exists(src):
                shutil.copy(src, tmp)
        demo = None
        for name in ('demo.py', 'demo.sh'):
            if os.path.exists(os.path.join(sdir, name)):
                demo = os.path.join(sdir, name)
        env = dict(os.environ, PYTHONPATH=tmp, MPLBACKEND='Agg', PYTHONHASHSEED='0')

        def run_demo(tag):
            if not (args.demo and demo):
                return
            # same layout as where the demonstration was written: <tree>/_seed/<X>/demo.py
            ddir = os.path.join(tmp, '_seed', 'X')
            os.makedirs(ddir, exist_ok=True)
            dpath = shutil.copy(demo, ddir)
            cmd = ['/venv/bin/python', dpath] if dpath.endswith('.py') else ['/bin/bash', dpath]
            res = subprocess.run(cmd, cwd=tmp, env=env, capture_output=True, text=True, timeout=1800)
            tail = (res.stdout.strip().splitlines() or res.stderr.strip().splitlines() or [''])[-1]
            print(f'demo [{tag}]: exit {res.returncode}  {tail[:160]}')
            sys.stdout.flush()

        run_demo('unpatched')
        res = subprocess.run(['patch', '-p1', '--no-backup-if-mismatch', '-i', patch], cwd=tmp,
                             capture_output=True, text=True)
        if res.returncode != 0:
            print('PATCH DOES NOT APPLY:', res.stdout[-400:], res.stderr[-400:])
            return 2
        run_demo('patched')
        for chk in checks:
            for seed in args.seeds.split(','):
                cenv = dict(os.environ, VALJEAN_SRC=tmp, VERIF_SEED=seed)
                t0 = time.time()
                res = subprocess.run([os.path.join(HERE, 'vcheck'), chk, '--tier', args.tier],
                                     env=cenv, capture_output=True, text=True)
                verdict = {0: 'MISSED', 1: 'DETECTED'}.get(res.returncode, f'ERROR({res.returncode})')
                if res.returncode not in (0, 1):
                    rc_all = 2
                buckets = [l for l in res.stdout.splitlines() if l.startswith('# bucket')]
                info = '; '.join(b[9:140] for b in buckets[:3]) if buckets else \
                    (res.stderr.strip().splitlines() or res.stdout.strip().splitlines() or [''])[-1][:200]
                print(f'{os.path.basename(sdir):28s} {chk} seed={seed} {verdict} {time.time() - t0:5.1f}s  {info}')
                sys.stdout.flush()
    finally:
        if not args.keep:
            shutil.rmtree(tmp, ignore_errors=True)
        else:
            print('kept', tmp)
    return rc_all


if __name__ == '__main__':
    sys.exit(main())
