#!/venv/bin/python
"""Run every kept seeded change (seeded/<name>/) against the check of its property and record
the verdicts in seeded/RESULTS.json (input of the table in DESIGN.md section 7.4).

usage: tools/seedsweep.py [name-filter] [--fast] [--all]
"""
import json
import os
import subprocess
import sys

HERE = os.path.dirname(os.path.dirname(os.path.abspath(__file__)))
flt = next((a for a in sys.argv[1:] if not a.startswith('--')), '')
respath = os.path.join(HERE, 'seeded', 'RESULTS.json')
results = json.load(open(respath)) if os.path.exists(respath) else {}
for name in sorted(os.listdir(os.path.join(HERE, 'seeded'))):
    sdir = os.path.join(HERE, 'seeded', name)
    if not os.path.isdir(sdir) or flt not in name:
        continue
    meta = json.load(open(os.path.join(sdir, 'meta.json')))
    if name in results and results[name].get('verdict_quick') == 'DETECTED' and '--all' not in sys.argv:
        continue            # (resumable: delete RESULTS.json or pass --all to start over)
    budget = 'full'
    env = dict(os.environ)
    if '--fast' in sys.argv:
        # first pass with a third of the generated cases and no shrinking; a miss is re-run in full
        env.update(VERIF_CASES_SCALE='0.3', VERIF_MAX_SHRINK='0')
        budget = '0.3 x cases'
    res = subprocess.run([os.path.join(HERE, 'tools', 'seedrun.py'), sdir], capture_output=True, text=True,
                         env=env)
    line = (res.stdout.strip().splitlines() or [''])[-1]
    verdict = 'DETECTED' if ' DETECTED ' in line else 'MISSED' if ' MISSED ' in line else 'ERROR'
    if verdict != 'DETECTED' and '--fast' in sys.argv:
        budget = 'full'
        env.pop('VERIF_CASES_SCALE')
        res = subprocess.run([os.path.join(HERE, 'tools', 'seedrun.py'), sdir], capture_output=True,
                             text=True, env=env)
        line = (res.stdout.strip().splitlines() or [''])[-1]
        verdict = 'DETECTED' if ' DETECTED ' in line else 'MISSED' if ' MISSED ' in line else 'ERROR'
    buckets = line.split('  ', 1)[1].strip() if '  ' in line else ''
    results[name] = {'property': meta.get('property'), 'summary': meta.get('summary'),
                     'needs': meta.get('needs'), 'verdict_quick': verdict, 'budget': budget,
                     'first_buckets': [b.split(' count=')[0] for b in buckets.split('; ')][:3]}
    print(name, verdict, results[name]['first_buckets'])
    sys.stdout.flush()
    json.dump(results, open(respath, 'w'), indent=1, sort_keys=True)
