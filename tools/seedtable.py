#!/venv/bin/python
"""Print the markdown table of the kept seeded changes (DESIGN.md section 7.4) from
seeded/<name>/{meta.json,verify.json}, seeded/RESULTS.json and seeded/NOTES.json."""
import json
import os

HERE = os.path.dirname(os.path.dirname(os.path.abspath(__file__)))
SD = os.path.join(HERE, 'seeded')
results = json.load(open(os.path.join(SD, 'RESULTS.json')))
notes = json.load(open(os.path.join(SD, 'NOTES.json')))
print('| Seeded change | Breaks | What it is / what it needs to manifest | Confirmed (demo 0→1, 554 stable tests pass) | Quick tier | First bucket(s) | Note |')
print('|---|---|---|---|---|---|---|')
for name in sorted(os.listdir(SD)):
    sdir = os.path.join(SD, name)
    if not os.path.isdir(sdir):
        continue
    meta = json.load(open(os.path.join(sdir, 'meta.json')))
    ver = json.load(open(os.path.join(sdir, 'verify.json'))) if os.path.exists(os.path.join(sdir, 'verify.json')) else {}
    res = results.get(name, {})
    what = (meta.get('summary', '') + ' — needs: ' + str(meta.get('needs', ''))).replace('|', '/').replace('\n', ' ')
    if len(what) > 330:
        what = what[:327] + '...'
    bks = '; '.join('`' + b.split('  ')[-1].strip() + '`' for b in res.get('first_buckets', [])[:2] if b.startswith('C') or '/' in b)
    print(f"| `{name}` | {meta.get('property')} | {what} | {'yes' if ver.get('confirmed') else 'NO' if ver else 'pending'} | "
          f"{res.get('verdict_quick', 'pending')} | {bks} | {notes.get(name, '')} |")
