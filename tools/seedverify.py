#!/venv/bin/python
"""Confirm a seeded change: it applies, the demonstration passes without it and fails
with it, and the repository's baseline test-suite still passes (all stable tests).

usage: tools/seedverify.py SEED_DIR [--no-suite]

Works in a scratch git worktree of /repo under /var/tmp (removed afterwards); writes
SEED_DIR/verify.json and prints a one-line summary.
"""
import json
import os
import shutil
import subprocess
import sys
import tempfile
import xml.etree.ElementTree as ET


def sh(cmd, **kw):
    return subprocess.run(cmd, capture_output=True, text=True, **kw)


def suite(tree):
    xml = os.path.join(tree, '_junit.xml')
    env = dict(os.environ, PYTHONPATH=tree, GIT_CONFIG_COUNT='1', GIT_CONFIG_KEY_0='init.defaultBranch',
               GIT_CONFIG_VALUE_0='master', MPLBACKEND='Agg')
    sh(['/venv/bin/python', '-m', 'pytest', '-q', '-p', 'no:cacheprovider', '--timeout=900',
        '--continue-on-collection-errors', '--ignore=_seed', '--junitxml=' + xml], cwd=tree, env=env, timeout=3600)
    base = json.load(open('/root/.vp/BASELINE.json'))
    stable = set(base['stable_pass'])
    res = {}
    for tc in ET.parse(xml).iter('testcase'):
        name = tc.get('classname') + '::' + tc.get('name')
        res[name] = not any(ch.tag in ('failure', 'error', 'skipped') for ch in tc)
    bad = sorted(s for s in stable if not res.get(s, False))
    return {'stable': len(stable), 'stable_not_passing': bad[:20], 'n_not_passing': len(bad)}


def main():
    sdir = os.path.abspath(sys.argv[1])
    do_suite = '--no-suite' not in sys.argv
    patch = os.path.join(sdir, 'patch.diff')
    demo = next((os.path.join(sdir, n) for n in ('demo.py', 'demo.sh') if os.path.exists(os.path.join(sdir, n))), None)
    tree = tempfile.mkdtemp(prefix='vv-verify-', dir='/var/tmp')
    os.rmdir(tree)
    out = {'seed': os.path.basename(sdir)}
    try:
        res = sh(['git', '-C', '/repo', 'worktree', 'add', '--detach', tree, 'HEAD'])
        if res.returncode:
            raise SystemExit('worktree: ' + res.stderr)
        out['repo_head'] = sh(['git', '-C', '/repo', 'rev-parse', '--short', 'HEAD']).stdout.strip()
        env = dict(os.environ, PYTHONPATH=tree, MPLBACKEND='Agg', PYTHONHASHSEED='0')

        def run_demo():
            if demo is None:
                return None
            ddir = os.path.join(tree, '_seed', 'X')
            os.makedirs(ddir, exist_ok=True)
            dpath = shutil.copy(demo, ddir)
            cmd = ['/venv/bin/python', dpath] if dpath.endswith('.py') else ['/bin/bash', dpath]
            res = sh(cmd, cwd=tree, env=env, timeout=1800)
            return res.returncode
        out['demo_exit_unpatched'] = run_demo()
        res = sh(['git', '-C', tree, 'apply', patch])
        out['patch_applies'] = res.returncode == 0
        if res.returncode:
            out['patch_error'] = res.stderr[-500:]
        else:
            out['demo_exit_patched'] = run_demo()
            out['files_changed'] = sh(['git', '-C', tree, 'diff', '--stat']).stdout.strip().splitlines()[-1:]
            if do_suite:
                out['suite_with_change'] = suite(tree)
        ok = (out.get('patch_applies') and out.get('demo_exit_unpatched') == 0
              and out.get('demo_exit_patched') not in (0, None)
              and (not do_suite or out['suite_with_change']['n_not_passing'] == 0))
        out['confirmed'] = bool(ok)
    finally:
        sh(['git', '-C', '/repo', 'worktree', 'remove', '--force', tree])
        shutil.rmtree(tree, ignore_errors=True)
    json.dump(out, open(os.path.join(sdir, 'verify.json'), 'w'), indent=1)
    print(json.dumps(out))


if __name__ == '__main__':
    main()
