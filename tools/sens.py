#!/venv/bin/python
"""Sensitivity runner: apply deliberate breakages to a scratch copy of valjean/
and run checks against it.

usage: tools/sens.py MUTATIONS.json [name-filter]
MUTATIONS.json: [{"name":..., "checks":["C01"], "edits":[{"file":"valjean/x.py","old":"...","new":"..."}]}]
Prints one line per (mutation, check): DETECTED / MISSED / ERROR.
"""
import json, os, shutil, subprocess, sys, tempfile, time

HERE = os.path.dirname(os.path.dirname(os.path.abspath(__file__)))
muts = json.load(open(sys.argv[1]))
flt = sys.argv[2] if len(sys.argv) > 2 else ''
for mut in muts:
    if flt and flt not in mut['name']:
        continue
    tmp = tempfile.mkdtemp(prefix='vv-mut-', dir='/var/tmp')
    try:
        shutil.copytree('/repo/valjean', os.path.join(tmp, 'valjean'))
        ok = True
        for ed in mut['edits']:
            path = os.path.join(tmp, ed['file'])
            text = open(path).read()
            if text.count(ed['old']) != 1:
                print(f"{mut['name']}: edit does not apply uniquely ({text.count(ed['old'])} matches) in {ed['file']}")
                ok = False
                break
            open(path, 'w').write(text.replace(ed['old'], ed['new']))
        if not ok:
            continue
        for chk in mut['checks']:
            env = dict(os.environ, VALJEAN_SRC=tmp, VERIF_NO_CORPUS='1',
                       VERIF_SHARDS=os.environ.get('VERIF_SHARDS', '16'))
            t0 = time.time()
            evp = os.path.join(HERE, 'evidence', chk + '.json')
            saved = open(evp, 'rb').read() if os.path.exists(evp) else None
            res = subprocess.run([os.path.join(HERE, 'vcheck'), chk, '--tier', 'quick'], env=env,
                                 capture_output=True, text=True)
            # evidence written by a mutated run must not stay around
            if saved is not None:
                open(evp, 'wb').write(saved)
            elif os.path.exists(evp):
                os.remove(evp)
            verdict = {0: 'MISSED', 1: 'DETECTED'}.get(res.returncode, f'ERROR({res.returncode})')
            buckets = [l for l in res.stdout.splitlines() if l.startswith('# bucket')]
            print(f"{mut['name']:45s} {chk} {verdict} {time.time()-t0:5.1f}s "
                  + (buckets[0][9:110] if buckets else (res.stderr.strip().splitlines() or [''])[-1][:110]))
            sys.stdout.flush()
    finally:
        shutil.rmtree(tmp, ignore_errors=True)
