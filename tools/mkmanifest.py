#!/venv/bin/python
"""Regenerate /verif/MANIFEST.json from the MANIFEST dictionaries of the check modules."""
import glob, importlib, json, os, sys
HERE = os.path.dirname(os.path.dirname(os.path.abspath(__file__)))
sys.path[:0] = [HERE, os.environ.get('VALJEAN_SRC', '/repo')]
import warnings; warnings.simplefilter('ignore')

props = [json.loads(l) for l in open(os.path.join(HERE, 'properties.jsonl'))]
checks = []
claimed = set()
CLAIMED = open(os.path.join(HERE, 'tools', 'claimed.txt')).read().split()
for path in sorted(glob.glob(os.path.join(HERE, 'checks', 'c[0-9][0-9]_*.py'))):
    if os.path.basename(path)[:3].upper() not in CLAIMED:
        continue
    mod = importlib.import_module('checks.' + os.path.basename(path)[:-3])
    man = mod.MANIFEST
    claimed.add(mod.ID)
    checks.append({
        'property_id': mod.ID,
        'quick_cmd': f'./vcheck {mod.ID} --tier quick',
        'thorough_cmd': f'./vcheck {mod.ID} --tier thorough',
        'evidence_file': f'/verif/evidence/{mod.ID}.json',
        'replay_cmd_template': f'./vcheck {mod.ID} --replay {{path}}',
        'engine': 'vcheck',
        'level_claimed': {'category': mod.LEVEL, 'text': man['text'], 'design_ref': man['design_ref']},
        'level_note': man['note'],
        'technique': man['technique'],
    })
pending = json.load(open(os.path.join(HERE, 'tools', 'not_claimed.json')))
na = [{'property_id': p['id'], 'reason': pending.get(p['id'], 'check not built yet in this round (see DESIGN.md section 3 for the planned generator and oracle)')}
      for p in props if p['id'] not in claimed]
manifest = {
    'version': 1,
    'setup_cmd': '(/venv/bin/python -c "import hypothesis, numpy, scipy, h5py, docutils" || /venv/bin/pip install --no-index --find-links /opt/veriftools/wheels hypothesis) && (test -d /verif/.deps/atheris || /venv/bin/pip install -q --no-index --find-links /opt/veriftools/wheels --target /verif/.deps atheris || echo "atheris not installed: the optional fuzz stage of C11 thorough will be skipped")',
    'hooks': {
        'guard': 'VALJEAN_VERIF',
        'enable': 'no source hook exists: checks load /repo (PYTHONPATH first) and substitute threading/queue/time/open when loading backends/queue.py and env.py privately (vlib/vsched.py); VALJEAN_VERIF=1 is exported by ./vcheck but read by nothing in /repo',
        'baseline_off_cmd': 'cd /repo && GIT_CONFIG_COUNT=1 GIT_CONFIG_KEY_0=init.defaultBranch GIT_CONFIG_VALUE_0=master /venv/bin/python -m pytest -ra -q -p no:cacheprovider --timeout=900 --continue-on-collection-errors',
        'source_commits': [],
        'add_only': True,
    },
    'engines': [{'name': 'vcheck', 'path': '/verif/vcheck', 'serves_properties': sorted(claimed),
                 'kind_free_text': 'Hypothesis-driven sharded collect-then-shrink driver (vlib/core.py): generated cases -> run_case with explicit oracle clauses -> root-cause buckets -> shrunk JSON replay files; exhaustive sub-enumerations; controlled thread scheduler (vlib/vsched.py) for C01-C04'}],
    'checks': checks,
    'not_applicable': na,
    'notes': 'Exit codes of every command: 0 held / only KNOWN-FINDING lines, 1 VIOLATION line(s), 2 harness error. VERIF_SEED selects the Hypothesis seed (shard k uses seed*1000+k). Fixed defects are listed in known_findings.json ("fixed") and their inputs replayed from corpus/<id>/ on every run.',
}
json.dump(manifest, open(os.path.join(HERE, 'MANIFEST.json'), 'w'), indent=1)
import jsonschema
jsonschema.validate(manifest, json.load(open('/root/.vp/MANIFEST.schema.json')))
print('MANIFEST.json:', len(checks), 'checks,', len(na), 'not claimed')
