"""Corroboration on REAL threads for the scheduler checks (C02, C03).

The controlled harness (vlib/vsched.py) replaces threading / queue / time by look-alikes; its
verdicts are only as good as their blocking semantics.  This module runs the same generated cases
on the unmodified modules with real threads, in a child process (a hang or a leaked non-daemon
thread cannot be undone inside the parent), and reports what happened so that the checks can
compare it with their schedule-free models:

    parent:  observations = realrun.corroborate(cases, stall=90.0)
    child :  python -m vlib.realrun            (reads encoded cases on stdin, one JSON per line)

One observation per case: ``{'how': 'returned' | 'raised' | 'hung' | 'not-run', 'value': repr,
'statuses': {idx: name-or-repr}, 'executions': {idx: n}, 'alive': [names of threads started by the
call that are still alive 2 s after it came back]}``.  Real schedules are whatever the OS does:
an observation is evidence, a disagreement must be confirmed under the controlled scheduler
before it is reported (see the checks).
"""
import json
import os
import subprocess
import sys
import threading
import time

from . import jsonio


def _child():
    import logging
    import warnings
    warnings.simplefilter('ignore')
    logging.disable(logging.CRITICAL)
    import valjean.cosette.env as envmod
    import valjean.cosette.backends.queue as qmod
    from valjean.cosette.task import TaskStatus
    from . import schedcase as sc
    out = sys.stdout
    for k, line in enumerate(sys.stdin):
        case = jsonio.dec(json.loads(line))
        out.write(f'START {k}\n')
        out.flush()
        before = set(threading.enumerate())
        run, tasks, hgraph, sgraph, env = sc.prepare(case, envmod)
        box = {}
        import valjean.cosette.scheduler as smod
        sc.install_nested(case, tasks, envmod, smod)
        body = sc.make_body(case, envmod, qmod, hgraph, sgraph, env, box, smod=smod)
        try:
            body()
            how, value = 'returned', ''
        except Exception as exc:      # pylint: disable=broad-except
            how, value = 'raised', repr(exc)[:200]
        # threads started by the call: give them a moment to finish unwinding
        t_end = time.monotonic() + 2.0
        alive = [t for t in threading.enumerate() if t not in before and t.is_alive()]
        while alive and time.monotonic() < t_end:
            time.sleep(0.01)
            alive = [t for t in alive if t.is_alive()]
        statuses = {}
        for idx, task in enumerate(tasks):
            section = env.dictionary.get(task.name)
            status = section.get('status') if isinstance(section, dict) else None
            statuses[str(idx)] = status.name if isinstance(status, TaskStatus) else repr(status)
        obs = {'how': how, 'value': value, 'statuses': statuses,
               'executions': {str(i): t.executions for i, t in enumerate(tasks)},
               'alive': sorted(t.name for t in alive)}
        out.write('DONE ' + json.dumps(obs) + '\n')
        out.flush()
        if alive:
            # leaked workers block in queue.get() for ever: this process cannot go on cleanly
            out.write('LEAK-EXIT\n')
            out.flush()
            os._exit(0)
    out.write('END\n')
    out.flush()
    os._exit(0)


def corroborate(cases, stall=90.0, max_hangs=2):
    """Run ``cases`` on real threads; returns one observation per case (see module docstring).
    ``stall``: seconds without any progress line after which the child is killed and the case in
    progress is reported as 'hung'; after ``max_hangs`` hangs the remaining cases are not run.  A child that stops after a leak or a hang is restarted for
    the remaining cases."""
    observations = [None] * len(cases)
    todo = list(range(len(cases)))
    verif = os.path.dirname(os.path.dirname(os.path.abspath(__file__)))
    hangs = 0
    while todo:
        if hangs >= max_hangs:
            # every hang costs ``stall`` seconds: two are enough to know that something is wrong
            for i in todo:
                observations[i] = {'how': 'not-run', 'value': f'skipped after {hangs} hangs',
                                   'statuses': {}, 'executions': {}, 'alive': []}
            break
        env = dict(os.environ)
        proc = subprocess.Popen([sys.executable, '-m', 'vlib.realrun'], cwd=verif, env=env,
                                stdin=subprocess.PIPE, stdout=subprocess.PIPE,
                                stderr=subprocess.DEVNULL, text=True)
        payload = ''.join(json.dumps(jsonio.enc(cases[i])) + '\n' for i in todo)
        lines = []
        state = {'last': time.monotonic(), 'eof': False}

        def reader():
            for line in proc.stdout:
                lines.append(line.rstrip('\n'))
                state['last'] = time.monotonic()
            state['eof'] = True
        thread = threading.Thread(target=reader, daemon=True)
        thread.start()
        try:
            proc.stdin.write(payload)
            proc.stdin.close()
        except BrokenPipeError:
            pass
        killed = False
        while not state['eof']:
            time.sleep(0.05)
            if time.monotonic() - state['last'] > stall:
                proc.kill()
                killed = True
                break
        thread.join(5)
        proc.wait()
        current = None
        done = 0
        for line in lines:
            if line.startswith('START '):
                current = todo[int(line.split()[1])]
            elif line.startswith('DONE ') and current is not None:
                observations[current] = json.loads(line[5:])
                done += 1
                current = None
        if killed and current is not None:
            observations[current] = {'how': 'hung', 'value': f'no progress for {stall:.0f} s',
                                     'statuses': {}, 'executions': {}, 'alive': []}
            done += 1
            hangs += 1
        remaining = [i for i in todo if observations[i] is None]
        if not done and remaining:
            # the child did not even start (import failure ...): do not loop for ever
            for i in remaining:
                observations[i] = {'how': 'not-run', 'value': 'child made no progress',
                                   'statuses': {}, 'executions': {}, 'alive': []}
            remaining = []
        todo = remaining
    return observations


def collect_cases(strategy, seed, count):
    """``count`` cases drawn from ``strategy`` with Hypothesis' generator (seeded)."""
    import hypothesis
    from hypothesis import given, settings, HealthCheck, Phase, Verbosity
    cases = []

    @hypothesis.seed(seed)
    @settings(max_examples=count, phases=[Phase.generate], database=None, deadline=None,
              suppress_health_check=list(HealthCheck), verbosity=Verbosity.quiet)
    @given(strategy)
    def collect(case):
        cases.append(case)
    collect()
    return cases[:count]


if __name__ == '__main__':
    _child()
