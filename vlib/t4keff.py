"""Independent reading of the KEFFS blocks of Tripoli-4 listings (C10).

A KEFFS block, once per edition::

    RESPONSE FUNCTION : KEFFS
    ...
     KSTEP  9.397918e-01<TAB>1.518300e+00            estimator, value, relative sigma in %
     KCOLL  9.411443e-01<TAB>1.586926e+00
      estimators   correlations   combined values   combined sigma%
      KSTEP <-> KCOLL   1.000000e+00   9.108330e-01   Not converged      (or a number)
      full combined estimator  9.3e-01  1.2e+00      | full combined estimator not converged

Plain regular expressions, no valjean code: ``keffs_blocks(text)`` returns, in file order,
one dictionary per block: {'single': [(name, value, sigma%)], 'combined': [(A, B, corr,
value-or-None, sigma%-or-None)], 'full': (value, sigma%) | None | absent}.
"""
import re

_NUM = r'[-+]?(?:\d+\.?\d*(?:[eE][-+]?\d+)?|nan|inf)'
_SINGLE = re.compile(rf'^\s*(KSTEP|KCOLL|KTRACK)\s+({_NUM})\s+({_NUM}|Not converged)\s*$')
_COMB = re.compile(rf'^\s*(KSTEP|KCOLL|KTRACK)\s*<->\s*(KSTEP|KCOLL|KTRACK)\s+({_NUM}|Not converged)'
                   rf'\s+({_NUM}|Not converged)\s+({_NUM}|Not converged)\s*$')
_FULL = re.compile(rf'^\s*full combined estimator\s+({_NUM})\s+({_NUM})\s*$')


def _num(tok):
    return None if tok.strip().lower().startswith('not') else float(tok)


def keffs_blocks(text):
    blocks = []
    lines = text.splitlines()
    idx = 0
    while idx < len(lines):
        if re.match(r'^\s*RESPONSE FUNCTION : KEFFS\s*$', lines[idx]):
            blk = {'single': [], 'combined': [], 'line': idx + 1}
            idx += 1
            while idx < len(lines):
                line = lines[idx]
                if 'ESTIMATOR' in line or 'RESPONSE FUNCTION' in line or line.startswith('****') \
                        and blk['single']:
                    break
                mat = _SINGLE.match(line)
                if mat:
                    blk['single'].append((mat.group(1), float(mat.group(2)), _num(mat.group(3))))
                mat = _COMB.match(line)
                if mat:
                    blk['combined'].append((mat.group(1), mat.group(2), _num(mat.group(3)),
                                            _num(mat.group(4)), _num(mat.group(5))))
                mat = _FULL.match(line)
                if mat:
                    blk['full'] = (float(mat.group(1)), float(mat.group(2)))
                if 'full combined estimator not converged' in line:
                    blk['full'] = None
                idx += 1
            blocks.append(blk)
        else:
            idx += 1
    return blocks
