"""Reading reStructuredText back with docutils (used by C12).

``read(text)`` parses a snippet with ``docutils.core.publish_doctree`` and
returns a :class:`Parsed` object:

``messages``   system messages of level >= WARNING as ``(level, text)``
``blocks``     the body elements in document order, each a dict
               ``{'type': 'table', 'headers': [...], 'rows': [[(text, hl)]]}``
               ``{'type': 'text', 'text': str, 'hl': [highlighted fragments]}``
               ``{'type': 'image', 'uri': str}``
               ``{'type': 'list', 'items': [str]}``
               ``{'type': 'other', 'tag': str, 'text': str}``

A cell / fragment is *highlighted* when it contains an ``inline`` node of
class ``hl``; that class only exists when the text itself declares the role
(``.. role:: hl``), otherwise docutils reports an unknown role (an ERROR
message).  The Sphinx-only role ``ref`` (used by the statistics tables, the
report is built by Sphinx) is registered locally as a plain inline.
"""
import docutils.core
import docutils.nodes as nodes
from docutils.parsers.rst import roles


def _ref_role(name, rawtext, text, lineno, inliner, options=None, content=None):
    return [nodes.inline(rawtext, text, classes=['sphinx-ref'])], []


roles.register_local_role('ref', _ref_role)

_SETTINGS = {'report_level': 5, 'halt_level': 5, 'warning_stream': False,
             'file_insertion_enabled': False, 'raw_enabled': False,
             '_disable_config': True, 'smart_quotes': False}

HL_CLASS = 'hl'


class Parsed:
    def __init__(self, messages, blocks):
        self.messages = messages
        self.blocks = blocks

    @property
    def tables(self):
        return [b for b in self.blocks if b['type'] == 'table']

    @property
    def texts(self):
        return [b for b in self.blocks if b['type'] == 'text']


def _is_hl(node):
    return isinstance(node, nodes.inline) and HL_CLASS in node.get('classes', ())


def _hl_fragments(node):
    return [n.astext() for n in node.findall(_is_hl)]


def _entry(entry):
    return (entry.astext().strip(), bool(_hl_fragments(entry)))


def _table(node):
    headers, rows = [], []
    for thead in node.findall(nodes.thead):
        for row in thead.findall(nodes.row):
            headers.append([e.astext().strip() for e in row.children
                            if isinstance(e, nodes.entry)])
    for tbody in node.findall(nodes.tbody):
        for row in tbody.findall(nodes.row):
            rows.append([_entry(e) for e in row.children if isinstance(e, nodes.entry)])
    return {'type': 'table', 'headers': headers[0] if len(headers) == 1 else headers,
            'n_header_rows': len(headers), 'rows': rows}


def _walk(node, blocks):
    for child in node.children:
        if isinstance(child, nodes.system_message):
            continue
        if isinstance(child, nodes.table):
            blocks.append(_table(child))
        elif isinstance(child, nodes.paragraph):
            blocks.append({'type': 'text', 'text': child.astext(), 'hl': _hl_fragments(child)})
        elif isinstance(child, nodes.image):
            blocks.append({'type': 'image', 'uri': child.get('uri', '')})
        elif isinstance(child, (nodes.enumerated_list, nodes.bullet_list)):
            blocks.append({'type': 'list', 'items': [i.astext() for i in child.children],
                           'hl': _hl_fragments(child)})
        elif isinstance(child, (nodes.target, nodes.comment, nodes.substitution_definition)):
            continue
        elif isinstance(child, (nodes.block_quote, nodes.section, nodes.definition_list,
                                nodes.definition_list_item, nodes.definition)):
            _walk(child, blocks)
        elif isinstance(child, nodes.Element):
            blocks.append({'type': 'other', 'tag': child.tagname, 'text': child.astext(),
                           'hl': _hl_fragments(child)})


def read(text):
    doc = docutils.core.publish_doctree(text, settings_overrides=_SETTINGS)
    messages = [(int(m['level']), m.astext()[:300])
                for m in doc.findall(nodes.system_message) if int(m['level']) >= 2]
    blocks = []
    _walk(doc, blocks)
    return Parsed(messages, blocks)
