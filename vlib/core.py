"""Common machinery: failures, buckets, sharded collect-then-shrink driver,
known findings, replay files and evidence.

A check module (``checks/cNN_*.py``) provides

``ID``, ``LEVEL``, ``RULE``, ``ASSUMPTIONS``, ``BUDGET``
``strategy(tier)``          Hypothesis strategy producing *cases* (plain values)
``run_case(case)``          -> :class:`Outcome`; evaluates every oracle clause
``enumerations(tier)``      optional: list of (name, callable -> iterable of cases, exhaustive)
``FLOORS``                  optional: {label: minimal fraction of generated cases}
``KNOWN_PREDICATES``        optional: {name: callable(case, failure) -> bool}
``extra_tiers(ctx)``        optional: additional exploration returning dict of counters
"""
import dataclasses
import json
import os
import sys
import time
import traceback
import hashlib

from . import jsonio

VERIF = os.path.dirname(os.path.dirname(os.path.abspath(__file__)))
SRC = os.environ.get('VALJEAN_SRC', '/repo')


class HarnessError(Exception):
    """Something is wrong with the check itself (exit code 2)."""


@dataclasses.dataclass
class Failure:
    clause: str       # oracle clause that was violated
    signature: str    # root-cause bucket: clause + cause features of the input
    detail: str = ''
    case: object = None   # optional: a smaller self-contained case reproducing this failure


@dataclasses.dataclass
class Outcome:
    failures: list = dataclasses.field(default_factory=list)
    nontrivial: bool = False
    labels: list = dataclasses.field(default_factory=list)
    key: str = None          # distinctness key (default: digest of the case)
    info: dict = None        # extra material shown with samples
    excluded: int = 0        # things skipped because of a known finding / tolerance band
    evals: int = 1           # executions of the code under test this case stands for
    extra_keys: list = dataclasses.field(default_factory=list)   # more distinct non-trivial keys


def valjean_frame(exc):
    """(type name, innermost frame inside the code under test) of an exception."""
    tb = traceback.extract_tb(exc.__traceback__)
    where = 'outside-valjean'
    for fr in tb:
        fn = fr.filename.replace('\\', '/')
        if '/valjean/' in fn and '/verif/' not in fn:
            where = fn.split('/valjean/', 1)[1] + ':' + fr.name
    return type(exc).__name__, where


def exc_failure(clause, exc, extra=''):
    """Failure for an exception that the property does not allow."""
    tname, where = valjean_frame(exc)
    sig = f'{clause}/{tname}@{where}' + (f'/{extra}' if extra else '')
    return Failure(clause, sig, f'{tname}: {exc}'[:500])


# --------------------------------------------------------------------------
# known findings

def load_known(prop_id):
    path = os.path.join(VERIF, 'known_findings.json')
    if not os.path.exists(path):
        return []
    with open(path) as fil:
        data = json.load(fil)
    return [e for e in data.get('findings', []) if e['property'] == prop_id]


def match_known(check, known, case, failure):
    for entry in known:
        if entry.get('status', 'open') != 'open':
            continue   # 'fixed' entries suppress nothing
        if entry['signature'] != failure.signature:
            continue
        pred = entry.get('predicate')
        if pred:
            fun = getattr(check, 'KNOWN_PREDICATES', {}).get(pred)
            if fun is None:
                raise HarnessError(f'unknown predicate {pred!r} in known_findings.json')
            if not fun(case, failure):
                continue
        return entry
    return None


# --------------------------------------------------------------------------
# per-shard state

CTX = {}   # 'check': module, 'known': entries (set by main and by every shard)


class Tally:
    """Counters of one exploration (mergeable)."""

    def __init__(self):
        self.evaluations = 0
        self.nontrivial_keys = set()
        self.labels = {}
        self.buckets = {}      # signature -> dict(count, case, detail, clause, size, origin)
        self.samples = []
        self.excluded = 0
        self.budget_exhausted = False
        self.origins = {}      # origin -> evaluations
        self.known_seen = {}   # known-finding id -> count
        self.case_counts = {}  # origin -> number of cases (a case may stand for several executions)
        self.shard = None

    def add(self, case, outcome, origin, keep_samples=4):
        self.evaluations += outcome.evals
        self.origins[origin] = self.origins.get(origin, 0) + outcome.evals
        self.nontrivial_keys.update(outcome.extra_keys)
        self.case_counts[origin] = self.case_counts.get(origin, 0) + 1
        self.excluded += outcome.excluded
        for lab in outcome.labels:
            self.labels[lab] = self.labels.get(lab, 0) + 1
        if outcome.nontrivial:
            key = outcome.key or jsonio.digest(case)
            if key not in self.nontrivial_keys:
                self.nontrivial_keys.add(key)
                if len(self.samples) < keep_samples:
                    samp = {'origin': origin, 'case': jsonio.brief(case)}
                    if outcome.info:
                        samp['info'] = jsonio.brief(outcome.info, 800)
                    if outcome.labels:
                        samp['labels'] = list(outcome.labels)
                    self.samples.append(samp)
        outer_case = case
        for fail in outcome.failures:
            case = fail.case if fail.case is not None else outer_case
            entry = match_known(CTX.get('check'), CTX.get('known', ()), case, fail)
            if entry is not None:
                self.known_seen[entry['id']] = self.known_seen.get(entry['id'], 0) + 1
                continue
            size = len(jsonio.dumps(case))
            buck = self.buckets.get(fail.signature)
            if buck is None:
                self.buckets[fail.signature] = dict(
                    count=1, case=jsonio.enc(case), detail=fail.detail, clause=fail.clause,
                    size=size, origin=origin, shard=self.shard)
            else:
                buck['count'] += 1
                if size < buck['size']:
                    buck.update(case=jsonio.enc(case), detail=fail.detail, size=size,
                                origin=origin, shard=self.shard)

    def merge(self, other):
        self.evaluations += other.evaluations
        self.nontrivial_keys |= other.nontrivial_keys
        self.excluded += other.excluded
        self.budget_exhausted |= other.budget_exhausted
        for k, v in other.labels.items():
            self.labels[k] = self.labels.get(k, 0) + v
        for k, v in other.origins.items():
            self.origins[k] = self.origins.get(k, 0) + v
        for k, v in other.case_counts.items():
            self.case_counts[k] = self.case_counts.get(k, 0) + v
        for k, v in other.known_seen.items():
            self.known_seen[k] = self.known_seen.get(k, 0) + v
        for sig, buck in other.buckets.items():
            mine = self.buckets.get(sig)
            if mine is None:
                self.buckets[sig] = dict(buck)
            else:
                cnt = mine['count'] + buck['count']
                if buck['size'] < mine['size']:
                    mine.update(buck)
                mine['count'] = cnt
        for samp in other.samples:
            if len(self.samples) < 8:
                self.samples.append(samp)


class CaseTimeout(BaseException):
    """Raised by the per-case watchdog inside run_case."""


def _on_alarm(_signum, _frame):
    raise CaseTimeout()


def guarded_run(check, case):
    """run_case under a watchdog (see _guarded_run) and under an ordinary recursion limit:
    Hypothesis raises the interpreter's limit while it runs a test, replay and enumerations do
    not; the code under test always sees about the default limit (1000) above the depth at which
    it is entered, as in an ordinary program (a check may set RECURSION_HEADROOM)."""
    depth, frame = 0, sys._getframe()      # pylint: disable=protected-access
    while frame is not None:
        depth, frame = depth + 1, frame.f_back
    old_limit = sys.getrecursionlimit()
    sys.setrecursionlimit(depth + int(getattr(check, 'RECURSION_HEADROOM', 950)))
    try:
        return _guarded_run(check, case)
    finally:
        sys.setrecursionlimit(old_limit)


def _guarded_run(check, case):
    """run_case under a watchdog.  A case normally takes milliseconds; one that
    exceeds ``check.CASE_TIMEOUT`` seconds (default 300) is run a second time
    with twice the limit, and only if it exceeds that too it is reported, as a
    failure of clause ``no_termination`` (a budget hit alone is never a
    violation; two consecutive overruns by a factor >= 1000 are a hang)."""
    import signal
    import threading
    limit = float(getattr(check, 'CASE_TIMEOUT', 300))
    if limit <= 0 or threading.current_thread() is not threading.main_thread():
        return check.run_case(case)
    old = signal.signal(signal.SIGALRM, _on_alarm)
    try:
        for attempt in (1, 2):
            signal.setitimer(signal.ITIMER_REAL, limit * attempt)
            try:
                return check.run_case(case)
            except CaseTimeout:
                if hasattr(check, 'after_timeout'):
                    check.after_timeout(case)
            finally:
                signal.setitimer(signal.ITIMER_REAL, 0)
        out = Outcome()
        out.failures.append(Failure(
            'no_termination', f'{check.ID}/no_termination',
            f'the case did not finish within {limit:.0f} s nor, run again, within {2 * limit:.0f} s'))
        out.labels.append('case-timeout')
        return out
    finally:
        signal.signal(signal.SIGALRM, old)


def _hyp_settings(n_examples, shrink=False):
    from hypothesis import settings, HealthCheck, Phase, Verbosity
    phases = [Phase.generate, Phase.shrink] if shrink else [Phase.generate]
    return settings(max_examples=max(1, n_examples), phases=phases, database=None,
                    deadline=None, derandomize=False, report_multiple_bugs=False,
                    suppress_health_check=[HealthCheck.too_slow],
                    print_blob=False, verbosity=Verbosity.quiet)


class _Deadline(Exception):
    """Raised inside the sweep to make Hypothesis stop generating at the deadline."""


def run_generated(check, tier, seed, n_examples, deadline, tally, origin='generated'):
    """Sweep ``n_examples`` generated cases through run_case, collecting.  At the
    deadline the sweep is abandoned (budget_exhausted: inconclusive, never a
    violation)."""
    import hypothesis
    from hypothesis import given

    strat = check.strategy(tier)
    stop = [False]

    @hypothesis.seed(seed)
    @_hyp_settings(n_examples)
    @given(strat)
    def sweep(case):
        if stop[0] or time.monotonic() > deadline:
            tally.budget_exhausted = True
            stop[0] = True
            raise _Deadline()
        outcome = guarded_run(check, case)
        tally.add(case, outcome, origin)

    try:
        sweep()
    except _Deadline:
        pass


class _Found(Exception):
    pass


def shrink_bucket(check, tier, seed, n_examples, signature, seconds=60):
    """Re-find the first case of ``signature`` with the shard's seed and let
    Hypothesis shrink it.  Returns the minimal case or None."""
    import hypothesis
    from hypothesis import given
    import hypothesis.internal.conjecture.engine as eng
    eng.MAX_SHRINKING_SECONDS = seconds
    strat = check.strategy(tier)
    last = {}
    t_end = time.monotonic() + seconds * 2

    @hypothesis.seed(seed)
    @_hyp_settings(n_examples, shrink=True)
    @given(strat)
    def hunt(case):
        outcome = guarded_run(check, case)
        for fail in outcome.failures:
            if fail.signature == signature:
                last['case'] = fail.case if fail.case is not None else case
                last['detail'] = fail.detail
                raise _Found()
        if 'case' not in last and time.monotonic() > t_end:
            raise HarnessError('shrink budget exhausted before re-finding')

    try:
        hunt()
    except _Found:
        pass
    except HarnessError:
        return None
    except Exception as exc:  # flaky etc.: fall back to unshrunk
        if 'case' in last:
            return last
        sys.stderr.write(f'shrink: {type(exc).__name__}: {exc}\n')
        return None
    return last if 'case' in last else None


# --------------------------------------------------------------------------
# shard worker (runs in a forked process)

def _shard_main(args):
    mod_name, tier, seed, shard, nshards, n_examples, seconds, enum_on = args
    import importlib
    try:
        check = importlib.import_module(mod_name)
        if hasattr(check, 'setup'):
            check.setup(tier)
        CTX['check'] = check
        CTX['known'] = load_known(check.ID)
        tally = Tally()
        tally.shard = shard
        deadline = time.monotonic() + seconds
        if enum_on and hasattr(check, 'enumerations'):
            # enumerations get their own budget (default: three times the sweep budget); one
            # that is cut short is reported as incomplete (then 'exhaustive' is not claimed)
            enum_deadline = time.monotonic() + float(
                check.BUDGET[tier].get('enum_seconds', 3 * seconds))
            for name, gen, _exh in check.enumerations(tier):
                for idx, case in enumerate(gen()):
                    if idx % nshards != shard:
                        continue
                    if time.monotonic() > enum_deadline:
                        tally.budget_exhausted = True
                        tally.labels['enum-incomplete:' + name] = \
                            tally.labels.get('enum-incomplete:' + name, 0) + 1
                        break
                    outcome = guarded_run(check, case)
                    tally.add(case, outcome, 'enum:' + name)
        if n_examples > 0:
            run_generated(check, tier, seed * 1000 + shard, n_examples, deadline, tally)
        extra = None
        if hasattr(check, 'shard_extra'):
            extra = check.shard_extra(tier, seed, shard, nshards, tally, deadline)
        return ('ok', shard, tally, extra)
    except BaseException as exc:  # harness error in a shard
        return ('error', shard, ''.join(traceback.format_exception(exc)), None)


def explore(check, tier, seed):
    """Run enumerations + generated sweep over all shards; returns merged Tally."""
    import multiprocessing as mp
    budget = check.BUDGET[tier]
    nshards = int(os.environ.get('VERIF_SHARDS', budget.get('shards', 16)))
    # VERIF_CASES_SCALE: fraction of the generated cases (used by tools/seedsweep.py for a first,
    # cheaper pass over the seeded changes; a miss there is re-run with the full budget)
    total = max(nshards, int(budget['cases'] * float(os.environ.get('VERIF_CASES_SCALE', 1))))
    seconds = budget.get('seconds', 600)
    per = [total // nshards + (1 if k < total % nshards else 0) for k in range(nshards)]
    jobs = [(check.__name__, tier, seed, k, nshards, per[k], seconds, True)
            for k in range(nshards)]
    tally = Tally()
    extras = []
    if nshards == 1:
        results = [_shard_main(jobs[0])]
    else:
        ctx = mp.get_context('fork')
        with ctx.Pool(nshards) as pool:
            results = pool.map(_shard_main, jobs, chunksize=1)
    for status, shard, payload, extra in results:
        if status != 'ok':
            raise HarnessError(f'shard {shard} failed:\n{payload}')
        tally.merge(payload)
        if extra is not None:
            extras.append(extra)
    return tally, per, extras


# --------------------------------------------------------------------------
# replay files

def replay_dir(prop_id):
    path = os.path.join(VERIF, 'replay', prop_id)
    os.makedirs(path, exist_ok=True)
    return path


def write_replay(prop_id, signature, case_enc, detail, shrunk):
    name = hashlib.blake2b(signature.encode(), digest_size=6).hexdigest() + '.json'
    path = os.path.join(replay_dir(prop_id), name)
    with open(path, 'w') as fil:
        json.dump({'property': prop_id, 'signature': signature, 'detail': detail,
                   'shrunk': shrunk, 'case': case_enc}, fil, indent=1, sort_keys=True)
    return path


def read_replay(path):
    with open(path) as fil:
        data = json.load(fil)
    return data, jsonio.dec(data['case'])


def corpus_files(prop_id):
    path = os.path.join(VERIF, 'corpus', prop_id)
    if not os.path.isdir(path):
        return []
    return sorted(os.path.join(path, f) for f in os.listdir(path) if f.endswith('.json'))
