"""Schedule-owning harness for the thread-based scheduling back-end.

The modules under test (``valjean/cosette/backends/queue.py`` and
``valjean/cosette/env.py``) are loaded from the working tree, unmodified, into
private module objects whose ``import threading / queue / time`` resolve to
the look-alikes below.  Controlled threads are real OS threads, but exactly
one runs at any time (baton passing over private semaphores); every operation
on an instrumented primitive is a *scheduling point* where the running thread
publishes the operation it is about to perform together with its enabling
condition, and the schedule decides which thread's operation happens next.

Scheduling points are placed *before* every acquiring or blocking operation
and before every operation that publishes to a shared object (Queue.put /
task_done, time, thread start, probe yield points).  Releases (RLock.release,
the release part of Condition.wait) and Condition.notify under the lock are
performed without a scheduling point: a release is a left-mover and an
operation inside a critical section on state protected by that lock is a
both-mover (Lipton), so every interleaving with a switch just before such an
operation is equivalent to one with the switch just after it, which the next
scheduling point of the same thread provides.

Verdicts computed by the controller itself (no timers): deadlock, thread
death, threads alive when the call came back, leak, step bound.
"""
import builtins
import collections
import importlib.util
import os
import sys
import threading as _rt
import types

SRC = os.environ.get('VALJEAN_SRC', '/repo')


class Abort(BaseException):
    """Raised inside controlled threads to unwind them after a verdict."""


class HarnessGap(Exception):
    """The code under test used a primitive the look-alikes do not model."""


# --------------------------------------------------------------------------
# schedules

class ChoiceSchedule:
    """k-th decision takes order[c_k mod len(order)], where order = [current
    thread if enabled] + the other enabled threads by id; afterwards the
    default policy (choice 0: keep running, else lowest id) finishes the run."""

    def __init__(self, choices, cyclic=False):
        self.choices = list(choices)
        self.pos = 0
        self.cyclic = cyclic and bool(self.choices)

    def pick(self, ctrl, current, order):
        if self.cyclic:
            choice = self.choices[self.pos % len(self.choices)] % len(order)
            self.pos += 1
        elif self.pos < len(self.choices):
            choice = self.choices[self.pos] % len(order)
            self.pos += 1
        else:
            choice = 0
        return choice


class SparseSchedule:
    """Choice 0 (keep running / lowest id) everywhere except at the given
    branching-point numbers: a direct sample of the bounded-pre-emption space."""

    def __init__(self, points):
        self.points = {int(pos): int(choice) for pos, choice in points}
        self.pos = 0

    def pick(self, ctrl, current, order):
        choice = self.points.get(self.pos, 0) % len(order)
        self.pos += 1
        return choice


class PCTSchedule:
    """Probabilistic concurrency testing: the enabled thread of highest
    priority runs; at the given step numbers the running thread's priority
    drops below all others."""

    def __init__(self, priorities, change_points):
        self.priorities = list(priorities) or [0]
        self.change_points = sorted(set(change_points))
        self.prio = {}
        self.low = -1

    def pick(self, ctrl, current, order):
        for tid in order:
            if tid not in self.prio:
                self.prio[tid] = self.priorities[tid % len(self.priorities)] * 64 + tid
        while self.change_points and ctrl.steps >= self.change_points[0]:
            self.change_points.pop(0)
            if current is not None and current in self.prio:
                self.prio[current] = self.low
                self.low -= 1
        best = max(order, key=lambda t: self.prio[t])
        return order.index(best)


# --------------------------------------------------------------------------
# controller

class Controller:
    def __init__(self, schedule, max_steps=20000, record=True):
        self.schedule = schedule
        self.threads = {}
        self.next_tid = 0
        self.steps = 0
        self.max_steps = max_steps
        self.trace = []          # (tid, op)
        self.decisions = []      # (n_options, current_enabled, choice)
        self.record = record
        self.aborting = False
        self.verdict = None      # None | ('deadlock', {...}) | ('step-bound', n)
        self.clock = 0
        self.ticks = None        # optional pattern of clock increments (0 = the clock stutters)
        self.time_calls = 0
        self.preemptions = 0
        self.events = []         # probe events appended by the check
        self.locals = _rt.local()

    # -- registration
    def register(self, name):
        tid = self.next_tid
        self.next_tid += 1
        self.threads[tid] = dict(name=name, sem=_rt.Semaphore(0), guard=None, op='begin',
                                 done=False, died=None, real=None)
        return tid

    def adopt_current(self, name='master'):
        tid = self.register(name)
        self.locals.tid = tid
        return tid

    def me(self):
        return getattr(self.locals, 'tid', None)

    # -- scheduling points
    def sched_point(self, op, guard=None):
        """Publish the operation the running thread is about to perform."""
        if self.aborting:
            raise Abort()
        tid = self.me()
        if tid is None:
            raise HarnessGap(f'operation {op} from an uncontrolled thread')
        state = self.threads[tid]
        state['guard'] = guard
        state['op'] = op
        self._dispatch(tid)
        if self.aborting:
            raise Abort()

    def note(self, op):
        """Record an operation that is not a scheduling point."""
        if self.aborting:
            raise Abort()
        if self.record:
            self.trace.append((self.me(), op, False))

    def _enabled(self, state):
        return not state['done'] and (state['guard'] is None or state['guard']())

    def _dispatch(self, tid):
        self.steps += 1
        if self.steps > self.max_steps:
            self._abort(('step-bound', self.steps))
            return
        enabled = [t for t, s in self.threads.items() if self._enabled(s)]
        if not enabled:
            if all(s['done'] for s in self.threads.values()):
                return
            self._abort(('deadlock', {s['name']: s['op'] for s in self.threads.values()
                                      if not s['done']}))
            return
        cur_enabled = tid in enabled
        order = ([tid] if cur_enabled else []) + [t for t in enabled if t != tid]
        choice = self.schedule.pick(self, tid, order) if len(order) > 1 else 0
        nxt = order[choice]
        if cur_enabled and nxt != tid:
            self.preemptions += 1
        if len(order) > 1:
            # only branching points are decisions (and consume a choice)
            self.decisions.append((len(order), cur_enabled, choice))
        if self.record:
            self.trace.append((nxt, self.threads[nxt]['op'], cur_enabled and nxt != tid))
        if nxt != tid:
            self.threads[nxt]['sem'].release()
            if not self.threads[tid]['done']:
                self.threads[tid]['sem'].acquire()

    def _abort(self, verdict):
        if self.verdict is None:
            self.verdict = verdict
        self.aborting = True
        me = self.me()
        for tid, state in self.threads.items():
            if tid != me:
                state['sem'].release()

    def thread_exit(self, tid):
        self.threads[tid]['done'] = True
        if self.aborting:
            return
        self._dispatch(tid)

    # -- end of the call under test (runs in the master thread)
    def finish(self):
        """Called by the master after the call came back.  Returns
        (alive_at_return, leak) where ``alive_at_return`` lists the controlled
        threads that had not exited and ``leak`` is None or the operations the
        remaining threads are blocked in for ever."""
        me = self.me()
        alive = sorted(s['name'] for t, s in self.threads.items() if t != me and not s['done'])
        leak = None
        if not self.aborting and alive:
            # let the others run: the master waits for all of them
            try:
                self.sched_point('harness.final', lambda: all(
                    s['done'] for t, s in self.threads.items() if t != me))
            except Abort:
                if self.verdict and self.verdict[0] == 'deadlock':
                    leak = {k: v for k, v in self.verdict[1].items() if k != 'master'}
                    self.verdict = None
        self.threads[me]['done'] = True
        if not self.aborting:
            self._abort(self.verdict)   # wake anything left (nothing should be)
        for state in self.threads.values():
            real = state['real']
            if real is not None:
                real.join(10)
                if real.is_alive():
                    raise HarnessGap(f'OS thread {state["name"]} did not unwind')
        return alive, leak


CTRL = None   # the controller of the case being run (one case at a time per process)


def _ctrl():
    if CTRL is None:
        raise HarnessGap('instrumented primitive used outside a controlled run')
    return CTRL


# --------------------------------------------------------------------------
# look-alikes

class VThread:
    """Stand-in for threading.Thread (subclassable, run() overridable)."""
    _count = 0

    def __init__(self, group=None, target=None, name=None, args=(), kwargs=None, *,
                 daemon=None):
        VThread._count += 1
        self.name = name or f'Thread-{VThread._count}'
        self._target, self._args, self._kwargs = target, args, kwargs or {}
        self.daemon = bool(daemon)
        self._vs_tid = None
        self._real = None

    def run(self):
        if self._target is not None:
            self._target(*self._args, **self._kwargs)

    def start(self):
        ctrl = _ctrl()
        ctrl.sched_point('thread.start')
        tid = ctrl.register(self.name)
        self._vs_tid = tid
        state = ctrl.threads[tid]

        def body():
            ctrl.locals.tid = tid
            state['sem'].acquire()
            try:
                if not ctrl.aborting:
                    self.run()
            except Abort:
                pass
            except BaseException as exc:   # thread death
                state['died'] = exc
            finally:
                try:
                    ctrl.thread_exit(tid)
                except Abort:
                    pass

        real = _rt.Thread(target=body, name='vs-' + self.name, daemon=True)
        state['real'] = real
        self._real = real
        real.start()

    def join(self, timeout=None):
        ctrl = _ctrl()
        if timeout is not None:
            raise HarnessGap('Thread.join(timeout) is not modelled')
        state = ctrl.threads[self._vs_tid]
        ctrl.sched_point('thread.join', lambda: state['done'])

    def is_alive(self):
        ctrl = _ctrl()
        return self._vs_tid is not None and not ctrl.threads[self._vs_tid]['done']


class VLockBase:
    reentrant = False

    def __init__(self):
        self.owner = None
        self.count = 0

    def acquire(self, blocking=True, timeout=-1):
        ctrl = _ctrl()
        me = ctrl.me()
        if not blocking or timeout not in (-1, None):
            raise HarnessGap('non-blocking / timed lock acquisition is not modelled')
        if self.reentrant:
            ctrl.sched_point('lock.acquire', lambda: self.owner in (None, me))
        else:
            ctrl.sched_point('lock.acquire', lambda: self.owner is None)
        self.owner = me
        self.count += 1
        return True

    def release(self):
        ctrl = _ctrl()
        if ctrl.aborting:
            raise Abort()
        if self.owner != ctrl.me() and self.reentrant:
            raise RuntimeError('cannot release un-acquired lock')
        if self.count <= 0:
            raise RuntimeError('release unlocked lock')
        # no scheduling point: a release is a left-mover (see module docstring)
        ctrl.note('lock.release')
        self.count -= 1
        if self.count == 0:
            self.owner = None

    def __enter__(self):
        return self.acquire()

    def __exit__(self, *exc):
        self.release()

    def locked(self):
        return self.owner is not None


class VRLock(VLockBase):
    reentrant = True


class VLock(VLockBase):
    reentrant = False


class VCondition:
    def __init__(self, lock=None):
        self.lock = lock if lock is not None else VRLock()
        self.waiters = []

    def acquire(self, *args, **kwargs):
        return self.lock.acquire(*args, **kwargs)

    def release(self):
        self.lock.release()

    def __enter__(self):
        return self.lock.acquire()

    def __exit__(self, *exc):
        self.lock.release()

    def wait(self, timeout=None):
        ctrl = _ctrl()
        me = ctrl.me()
        if timeout is not None:
            raise HarnessGap('Condition.wait(timeout) is not modelled')
        if self.lock.owner != me:
            raise RuntimeError('cannot wait on un-acquired lock')
        ctrl.note('cond.wait-enter')
        saved = self.lock.count
        self.lock.count = 0
        self.lock.owner = None
        token = [False]
        self.waiters.append(token)
        entered = ctrl.steps
        spurious = getattr(ctrl, 'spurious', None)
        # optional spurious wake-ups (allowed by the documentation of threading.Condition):
        # the waiter becomes runnable ``spurious`` scheduling points after it went to sleep,
        # notified or not.  They never rescue a deadlock: steps only advance while some
        # thread runs.
        ctrl.sched_point('cond.wait', lambda: (token[0] or (spurious and ctrl.steps - entered >= spurious))
                         and self.lock.owner is None)
        if not token[0]:
            ctrl.note('cond.spurious-wakeup')
            if token in self.waiters:
                self.waiters.remove(token)
        self.lock.owner = me
        self.lock.count = saved
        return True

    def notify(self, n=1):
        ctrl = _ctrl()
        if self.lock.owner != ctrl.me():
            raise RuntimeError('cannot notify on un-acquired lock')
        ctrl.note('cond.notify')   # inside the critical section: a both-mover
        for token in self.waiters[:n]:
            token[0] = True
        del self.waiters[:n]

    def notify_all(self):
        self.notify(len(self.waiters) + 1)

    notifyAll = notify_all


class VQueue:
    def __init__(self, maxsize=0):
        self.maxsize = int(maxsize)      # <= 0: unbounded; otherwise put() blocks while full
        self.items = collections.deque()
        self.unfinished = 0
        # documented-by-use internals of queue.Queue: the deque of items and its mutex
        self.queue = self.items
        self.mutex = VLock()

    @property
    def unfinished_tasks(self):
        return self.unfinished

    def __getattr__(self, attr):
        raise HarnessGap(f'Queue.{attr} is not modelled by the look-alike')

    def put(self, item, block=True, timeout=None):
        if self.maxsize > 0:
            if not block or timeout is not None:
                raise HarnessGap('non-blocking / timed Queue.put is not modelled')
            _ctrl().sched_point('queue.put', lambda: len(self.items) < self.maxsize)
        else:
            _ctrl().sched_point('queue.put')
        self.items.append(item)
        self.unfinished += 1

    def get(self, block=True, timeout=None):
        if not block or timeout is not None:
            raise HarnessGap('non-blocking / timed Queue.get is not modelled')
        _ctrl().sched_point('queue.get', lambda: len(self.items) > 0)
        return self.items.popleft()

    def task_done(self):
        _ctrl().sched_point('queue.task_done')
        if self.unfinished <= 0:
            raise ValueError('task_done() called too many times')
        self.unfinished -= 1

    def join(self):
        _ctrl().sched_point('queue.join', lambda: self.unfinished == 0)

    def qsize(self):
        return len(self.items)

    def empty(self):
        return not self.items


class _Shim:
    """Module look-alike: unknown attributes raise HarnessGap."""

    def __init__(self, name, **attrs):
        self.__dict__['_name'] = name
        self.__dict__.update(attrs)

    def __getattr__(self, attr):
        raise HarnessGap(f'{self._name}.{attr} is not modelled by the harness')


def _vtime():
    ctrl = _ctrl()
    ctrl.sched_point('time')
    ticks = ctrl.ticks
    if ticks:
        ctrl.clock += ticks[ctrl.time_calls % len(ticks)]
    else:
        ctrl.clock += 1
    ctrl.time_calls += 1
    return float(ctrl.clock)


def _current_thread():
    ctrl = _ctrl()
    return types.SimpleNamespace(name=ctrl.threads[ctrl.me()]['name'])


SHIMS = {
    'threading': _Shim('threading', Thread=VThread, RLock=VRLock, Lock=VLock,
                       Condition=VCondition, current_thread=_current_thread),
    'queue': _Shim('queue', Queue=VQueue),
    'time': _Shim('time', time=_vtime),
}


def load_private(modname, relpath, shims=None, extra_builtins=None):
    """Load ``relpath`` of the source tree as a private module object whose
    imports of the shimmed names resolve to the look-alikes."""
    shims = SHIMS if shims is None else shims
    real_import = builtins.__import__

    def imp(name, globals=None, locals=None, fromlist=(), level=0):
        if level == 0 and name in shims:
            return shims[name]
        return real_import(name, globals, locals, fromlist, level)

    bdict = dict(vars(builtins))
    bdict['__import__'] = imp
    bdict.update(extra_builtins or {})
    path = os.path.join(SRC, relpath)
    spec = importlib.util.spec_from_file_location(modname, path)
    mod = importlib.util.module_from_spec(spec)
    mod.__dict__['__builtins__'] = bdict
    spec.loader.exec_module(mod)
    return mod


_LOADED = {}


def modules():
    """(env module, queue back-end module), loaded once per process."""
    if not _LOADED:
        import valjean.cosette.backends  # noqa: F401  (parent packages for relative imports)
        _LOADED['env'] = load_private('valjean.cosette.env', 'valjean/cosette/env.py')
        _LOADED['queue'] = load_private('valjean.cosette.backends.queue',
                                        'valjean/cosette/backends/queue.py')
    return _LOADED['env'], _LOADED['queue']


def scheduler_module():
    """A private copy of valjean/cosette/scheduler.py whose default back-end is the privately loaded
    (controlled) QueueScheduling: ``Scheduler(hard_graph=...)`` without a back-end, as most callers
    write it.  Back-end objects that the module itself keeps (a shared default instance, say) are
    replaced by controlled ones with the same number of workers."""
    if 'scheduler' not in _LOADED:
        envmod, qmod = modules()
        smod = load_private('valjean.cosette.scheduler', 'valjean/cosette/scheduler.py')
        real_backend = smod.QueueScheduling
        smod.QueueScheduling = qmod.QueueScheduling
        smod.Env = envmod.Env
        for name, val in list(vars(smod).items()):
            if isinstance(val, real_backend) and not isinstance(val, type):
                setattr(smod, name, qmod.QueueScheduling(val.n_workers))
        _LOADED['scheduler'] = smod
    return _LOADED['scheduler']


def run_controlled(schedule, body, max_steps=20000, clock_start=0, ticks=None, spurious=None):
    """Run ``body()`` as the master thread under ``schedule``.

    Returns (ctrl, how, value) with how in 'returned' | 'raised' | 'aborted'."""
    global CTRL
    if CTRL is not None:
        raise HarnessGap('nested controlled run')
    VThread._count = 0
    ctrl = Controller(schedule, max_steps=max_steps)
    ctrl.clock = clock_start
    ctrl.ticks = list(ticks) if ticks else None
    ctrl.spurious = int(spurious) if spurious else None
    CTRL = ctrl
    ctrl.adopt_current('master')
    how, value = None, None
    try:
        try:
            value = body()
            how = 'returned'
        except Abort:
            how = 'aborted'
        except HarnessGap:
            raise
        except Exception as exc:
            how, value = 'raised', exc
        ctrl.alive_at_return, ctrl.leak = ctrl.finish()
    finally:
        CTRL = None
        ctrl.locals.tid = None
    return ctrl, how, value


# --------------------------------------------------------------------------
# bounded-preemption depth-first enumeration of schedules (stateless replay)

def dfs_schedules(run, max_preemptions, limit=None, part=(0, 1)):
    """Enumerate all schedules of ``run`` with at most ``max_preemptions``
    pre-emptions.  ``run(choices)`` executes one schedule (ChoiceSchedule
    semantics) and returns the controller's ``decisions`` list.  Yields the
    choice list of every schedule executed; ``run`` is called once per
    schedule."""
    stack = [[]]
    count = 0
    child = 0
    while stack:
        prefix = stack.pop()
        root = not prefix
        decisions = run(prefix, root and part[0] != 0)
        count += 1
        if not (root and part[0] != 0):
            yield prefix
        if limit is not None and count >= limit:
            return
        # cost of the prefix
        cost = 0
        for (nopt, cur_en, choice) in decisions[:len(prefix)]:
            if cur_en and choice != 0:
                cost += 1
        full = [d[2] for d in decisions]
        run_cost = cost
        for i in range(len(prefix), len(decisions)):
            nopt, cur_en, choice = decisions[i]
            # default choice 0 was taken at i; alternatives:
            for alt in range(1, nopt):
                extra = 1 if cur_en else 0
                if run_cost + extra <= max_preemptions:
                    if root:
                        child += 1
                        if child % part[1] != part[0]:
                            continue
                    stack.append(full[:i] + [alt])
            # choice 0 never costs a pre-emption
