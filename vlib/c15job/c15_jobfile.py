"""Job file used by checks/c15_task_identity.py to drive
valjean.cambronne.common.collect_tasks: job() returns the task list that the
check stored in CURRENT just before the call."""
CURRENT = []


def job():
    return list(CURRENT)
