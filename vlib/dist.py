"""Independent reference implementations of the probability laws used by the
statistical checks (C05 Student / normal, C07 chi-square).

Plain Python floats and the ``math`` / ``statistics`` modules only: neither
numpy nor scipy is used by the routines themselves (scipy is imported only
inside :func:`crosscheck_scipy`, a measuring tool that no check depends on).

* normal law: two-sided p-value ``erfc(|t|/sqrt 2)``, two-sided critical value
  ``-NormalDist().inv_cdf(alpha/2)``;
* Student law: two-sided p-value ``I_x(ndf/2, 1/2)`` with ``x = ndf/(ndf+t^2)``
  (regularised incomplete beta function, modified Lentz continued fraction,
  the complement relation near ``x = 1``); two-sided critical value by
  bisection on that p-value;
* chi-square law: upper tail ``Q(ndf/2, x/2)`` (regularised upper incomplete
  gamma function: power series for ``x < a+1``, Lentz continued fraction
  otherwise).

Measured agreement with scipy 1.17.1 (``python -m vlib.dist``; grid
ndf in [1, 1e6], |t| in [1e-3, 50] and a few up to 1e250, alpha in [1e-8, 0.999]; chi-square ndf in
[1, 400], x in [1e-3, 4000], p-values >= 1e-300), maximum relative difference:

    Student two-sided p-value   4.5e-11   (at ndf = 1e6; 4.8e-13 for ndf <= 1e4)
    Student critical value      1.4e-11   (at alpha = 0.999; 5.8e-12 for alpha <= 0.5)
    normal two-sided p-value    1.7e-13
    normal critical value       4.5e-16
    chi-square upper tail       1.7e-13

(output of ``cd /verif && /venv/bin/python -m vlib.dist``).  The checks compare with tolerances of 1e-7 (critical
value) and 1e-6 (p-values): five orders of magnitude above the measured
disagreement and four below the smallest error a wrong formula produces
(alpha for alpha/2, one-sided for two-sided, cdf for sf: all >= 1e-2).
"""
import functools
import math
from statistics import NormalDist

_ND = NormalDist()
_SQRT2 = math.sqrt(2.0)
_TINY = 1e-300
_EPS = 1e-16
_MAXIT = 200000


# ---------------------------------------------------------------- normal law

def norm_two_sided_p(tval):
    """P(|X| >= |t|) for a standard normal X."""
    if math.isnan(tval):
        return math.nan
    return math.erfc(abs(tval) / _SQRT2)


def norm_crit(alpha):
    """Two-sided critical value c: P(|X| >= c) = alpha."""
    return -_ND.inv_cdf(0.5 * alpha)


# --------------------------------------------------------------- Student law

def _lgamma_half_ratio(aval):
    """ln Gamma(a + 1/2) - ln Gamma(a).  For large a the difference of two
    lgamma values loses digits (each is ~ a ln a), so the asymptotic series is
    used there; both branches agree to 1e-14 around the switch point."""
    if aval < 40.0:
        return math.lgamma(aval + 0.5) - math.lgamma(aval)
    inv = 1.0 / aval
    inv2 = inv * inv
    return (0.5 * math.log(aval)
            + inv * (-1.0 / 8.0 + inv2 * (1.0 / 192.0 + inv2 * (
                -1.0 / 640.0 + inv2 * (17.0 / 14336.0 + inv2 * (-31.0 / 18432.0))))))


def _betacf(aval, bval, xval):
    """Continued fraction of the incomplete beta function (modified Lentz)."""
    qab, qap, qam = aval + bval, aval + 1.0, aval - 1.0
    cval = 1.0
    dval = 1.0 - qab * xval / qap
    if abs(dval) < _TINY:
        dval = _TINY
    dval = 1.0 / dval
    hval = dval
    for mit in range(1, _MAXIT):
        m2 = 2 * mit
        aa = mit * (bval - mit) * xval / ((qam + m2) * (aval + m2))
        dval = 1.0 + aa * dval
        if abs(dval) < _TINY:
            dval = _TINY
        cval = 1.0 + aa / cval
        if abs(cval) < _TINY:
            cval = _TINY
        dval = 1.0 / dval
        hval *= dval * cval
        aa = -(aval + mit) * (qab + mit) * xval / ((aval + m2) * (qap + m2))
        dval = 1.0 + aa * dval
        if abs(dval) < _TINY:
            dval = _TINY
        cval = 1.0 + aa / cval
        if abs(cval) < _TINY:
            cval = _TINY
        dval = 1.0 / dval
        delta = dval * cval
        hval *= delta
        if abs(delta - 1.0) < _EPS:
            return hval
    raise ArithmeticError(f'betacf did not converge: a={aval} b={bval} x={xval}')


def student_two_sided_p(tval, ndf):
    """P(|T| >= |t|) for Student's law with ``ndf`` degrees of freedom."""
    if math.isnan(tval):
        return math.nan
    tabs = abs(tval)
    if tabs == 0.0:
        return 1.0
    if math.isinf(tabs):
        return 0.0
    if tabs < 1e-150:                     # t*t underflows: p = 1 to machine precision
        return 1.0
    aval, bval = 0.5 * ndf, 0.5
    # x = ndf/(ndf+t^2), y = 1-x = t^2/(ndf+t^2); logs without cancellation
    if tabs > 1e150:                      # t*t would overflow
        xval = (ndf / tabs) / tabs
        yval = 1.0
        lnx = math.log(ndf) - 2.0 * math.log(tabs)
        lny = -xval
    else:
        t2 = tabs * tabs
        xval = ndf / (ndf + t2)
        yval = t2 / (ndf + t2)
        lnx = -math.log1p(t2 / ndf)
        lny = -math.log1p(ndf / t2)
    # ln of x^a y^b / B(a, b), B(a, 1/2) = Gamma(a) sqrt(pi) / Gamma(a + 1/2)
    lnfront = _lgamma_half_ratio(aval) - 0.5 * math.log(math.pi) + aval * lnx + bval * lny
    if xval < (aval + 1.0) / (aval + bval + 2.0):
        if lnfront < -745.0:
            return 0.0
        return math.exp(lnfront) * _betacf(aval, bval, xval) / aval
    return 1.0 - math.exp(lnfront) * _betacf(bval, aval, yval) / bval


@functools.lru_cache(maxsize=4096)
def student_crit(alpha, ndf):
    """Two-sided critical value c: P(|T| >= c) = alpha, by bisection on
    :func:`student_two_sided_p` (which decreases with c)."""
    low = norm_crit(alpha)           # Student tails are heavier than normal ones
    if student_two_sided_p(low, ndf) < alpha:
        low = 0.0
    high = max(2.0 * low, 1.0)
    while student_two_sided_p(high, ndf) > alpha:
        low = high
        high *= 2.0
        if high > 1e300:
            raise ArithmeticError(f'no bracket for alpha={alpha} ndf={ndf}')
    for _ in range(200):
        mid = 0.5 * (low + high)
        if mid <= low or mid >= high:
            break
        if student_two_sided_p(mid, ndf) > alpha:
            low = mid
        else:
            high = mid
        if high - low <= 4e-16 * high:
            break
    return 0.5 * (low + high)


def two_sided_p(tval, ndf=None):
    """Two-sided p-value: normal law when ``ndf`` is None, Student otherwise."""
    return norm_two_sided_p(tval) if ndf is None else student_two_sided_p(tval, ndf)


def crit(alpha, ndf=None):
    """Two-sided critical value: normal law when ``ndf`` is None."""
    return norm_crit(alpha) if ndf is None else student_crit(alpha, ndf)


# ------------------------------------------------------------ chi-square law

def gamma_q(aval, xval):
    """Regularised upper incomplete gamma function Q(a, x), a > 0, x >= 0."""
    if math.isnan(xval) or math.isnan(aval):
        return math.nan
    if aval <= 0.0:
        raise ValueError('gamma_q needs a > 0')
    if xval < 0.0:
        return 1.0
    if xval == 0.0:
        return 1.0
    if math.isinf(xval):
        return 0.0
    lnfront = -xval + aval * math.log(xval) - math.lgamma(aval)
    if xval < aval + 1.0:
        # P(a, x) = x^a e^-x / Gamma(a) * sum_n x^n / (a (a+1) ... (a+n))
        apn = aval
        term = 1.0 / aval
        total = term
        for _ in range(_MAXIT):
            apn += 1.0
            term *= xval / apn
            total += term
            if abs(term) < abs(total) * _EPS:
                break
        else:
            raise ArithmeticError(f'gamma series did not converge: a={aval} x={xval}')
        return 1.0 - total * math.exp(lnfront)
    if lnfront < -745.0:
        return 0.0
    bval = xval + 1.0 - aval
    cval = 1.0 / _TINY
    dval = 1.0 / bval
    hval = dval
    for itr in range(1, _MAXIT):
        an = -itr * (itr - aval)
        bval += 2.0
        dval = an * dval + bval
        if abs(dval) < _TINY:
            dval = _TINY
        cval = bval + an / cval
        if abs(cval) < _TINY:
            cval = _TINY
        dval = 1.0 / dval
        delta = dval * cval
        hval *= delta
        if abs(delta - 1.0) < _EPS:
            return math.exp(lnfront) * hval
    raise ArithmeticError(f'gamma continued fraction did not converge: a={aval} x={xval}')


def chi2_sf(xval, ndf):
    """Upper-tail probability P(X >= x) of the chi-square law, ndf >= 1."""
    if math.isnan(xval):
        return math.nan
    return gamma_q(0.5 * ndf, 0.5 * xval)


# ------------------------------------------------------------------ selftest

# two-sided Student critical values t_{1-alpha/2}(ndf), standard tables
_T_TABLE = [
    (0.05, 1, 12.706), (0.01, 1, 63.657), (0.05, 2, 4.303), (0.01, 2, 9.925),
    (0.05, 5, 2.571), (0.01, 5, 4.032), (0.05, 10, 2.228), (0.01, 10, 3.169),
    (0.05, 30, 2.042), (0.01, 30, 2.750), (0.05, 120, 1.980), (0.01, 120, 2.617),
    # valjean/gavroche/stat_tests/student.py, module docstring (table and doctests)
    (0.01, 1000, 2.5807547), (0.05, 1000, 1.9623391), (0.01, None, 2.5758293),
    (0.05, None, 1.9600),
    # the N = 10 row of the docstring table (2.7638, 1.8125) holds the
    # *one-sided* 1 % and 5 % values, i.e. the two-sided 2 % and 10 % ones
    (0.02, 10, 2.7638), (0.10, 10, 1.8125),
]
# (t, ndf, two-sided p): doctests of student.py
_P_TABLE = [
    (0.2321192, 1000, 0.8164929), (-2.2283441, 1000, 2.6079281e-02),
]
# chi-square upper critical values x: Q = prob, standard tables
_CHI2_TABLE = [
    (0.05, 1, 3.841), (0.05, 2, 5.991), (0.05, 5, 11.070), (0.05, 10, 18.307),
    (0.05, 20, 31.410), (0.05, 50, 67.505), (0.05, 100, 124.342),
    (0.01, 1, 6.635), (0.01, 2, 9.210), (0.01, 5, 15.086), (0.01, 10, 23.209),
    (0.01, 100, 135.807), (0.95, 10, 3.940), (0.99, 5, 0.554),
]
# (x, ndf, p): doctests of chi2.py and tests/gavroche/test_stats.py
_CHI2_P_TABLE = [
    (0.3080328 * 5, 5, 0.9083889), (0.2900273 * 6, 6, 0.9419786), (1.0, 1, 0.317311),
]


def _rel(got, exp):
    if exp == 0.0:
        return abs(got)
    return abs(got - exp) / abs(exp)


def selftest():
    """Validate the routines against tabulated values and closed forms.
    Returns the list of problems (empty when everything agrees)."""
    bad = []
    for alpha, ndf, exp in _T_TABLE:
        got = crit(alpha, ndf)
        # tables are rounded to 3-4 decimals
        if abs(got - exp) > 6e-4 and _rel(got, exp) > 1e-7:
            bad.append(f'crit({alpha}, {ndf}) = {got!r}, table {exp}')
        # the critical value must invert the p-value
        back = two_sided_p(got, ndf)
        if _rel(back, alpha) > 1e-9:
            bad.append(f'two_sided_p(crit({alpha}, {ndf})) = {back!r}')
    for tval, ndf, exp in _P_TABLE:
        got = two_sided_p(tval, ndf)
        if _rel(got, exp) > 2e-6:
            bad.append(f'two_sided_p({tval}, {ndf}) = {got!r}, docstring {exp}')
    # closed forms: ndf = 1 (Cauchy), ndf = 2, ndf = 3
    for tval in (1e-3, 0.1, 0.5, 1.0, 2.0, 10.0, 1e3, 1e6, 1e12, 1e100, 1e200):
        exact = {1: 2.0 / math.pi * math.atan2(1.0, tval),
                 2: None, 3: None}
        root = math.sqrt(2.0 + tval * tval)
        # 1 - t/sqrt(2+t^2) = 2 / (root (root + t))
        exact[2] = 2.0 / (root * (root + tval))
        if tval <= 10.0:                  # the closed form cancels for large t
            th = math.atan2(tval, math.sqrt(3.0))
            exact[3] = 1.0 - 2.0 / math.pi * (th + math.sin(th) * math.cos(th))
        for ndf, exp in exact.items():
            if exp is None:
                continue
            got = student_two_sided_p(tval, ndf)
            if _rel(got, exp) > 1e-12:
                bad.append(f'student_two_sided_p({tval}, {ndf}) = {got!r}, exact {exp!r}')
    # Student -> normal for ndf -> infinity (difference is O(1/ndf))
    for tval in (0.3, 1.0, 2.5, 4.0):
        if _rel(student_two_sided_p(tval, 10**9), norm_two_sided_p(tval)) > 1e-7:
            bad.append(f'student p at ndf=1e9 differs from normal p at t={tval}')
    # normal: tabulated P(|X| >= c)
    for cval, exp in ((1.0, 0.31731050786291415), (1.959963984540054, 0.05),
                      (2.5758293035489004, 0.01), (3.0, 0.0026997960632601866)):
        if _rel(norm_two_sided_p(cval), exp) > 1e-12:
            bad.append(f'norm_two_sided_p({cval}) = {norm_two_sided_p(cval)!r}')
    for alpha in (0.5, 0.1, 1e-3, 1e-8):
        if _rel(norm_two_sided_p(norm_crit(alpha)), alpha) > 1e-12:
            bad.append(f'norm_crit({alpha}) does not invert the p-value')
    # chi-square
    for prob, ndf, xval in _CHI2_TABLE:
        got = chi2_sf(xval, ndf)
        if _rel(got, prob) > 3e-3:          # x rounded to 3 decimals
            bad.append(f'chi2_sf({xval}, {ndf}) = {got!r}, table {prob}')
    for xval, ndf, exp in _CHI2_P_TABLE:
        got = chi2_sf(xval, ndf)
        if _rel(got, exp) > 2e-6:
            bad.append(f'chi2_sf({xval}, {ndf}) = {got!r}, docstring {exp}')
    for xval in (1e-6, 0.01, 0.5, 1.0, 2.9, 3.1, 7.0, 50.0, 700.0, 1300.0):
        exact = {1: math.erfc(math.sqrt(0.5 * xval)),
                 2: math.exp(-0.5 * xval),
                 4: math.exp(-0.5 * xval) * (1.0 + 0.5 * xval),
                 6: math.exp(-0.5 * xval) * (1.0 + 0.5 * xval + 0.125 * xval * xval)}
        for ndf, exp in exact.items():
            got = chi2_sf(xval, ndf)
            if _rel(got, exp) > 2e-12:
                bad.append(f'chi2_sf({xval}, {ndf}) = {got!r}, exact {exp!r}')
    if chi2_sf(0.0, 3) != 1.0 or chi2_sf(math.inf, 3) != 0.0 \
            or not math.isnan(chi2_sf(math.nan, 3)):
        bad.append('chi2_sf special values')
    if student_two_sided_p(0.0, 7) != 1.0 or student_two_sided_p(math.inf, 7) != 0.0 \
            or not math.isnan(student_two_sided_p(math.nan, 7)):
        bad.append('student_two_sided_p special values')
    return bad


def crosscheck_scipy(verbose=True):
    """Measure the agreement with scipy over a grid (not used by any check)."""
    from scipy import stats                      # pylint: disable=import-outside-toplevel
    worst = {'student_p': (0.0, None), 'student_crit': (0.0, None), 'norm_p': (0.0, None),
             'norm_crit': (0.0, None), 'chi2_sf': (0.0, None)}

    def note(key, rel, where):
        if rel > worst[key][0]:
            worst[key] = (rel, where)

    ndfs = [1, 2, 3, 4, 5, 7, 10, 17, 30, 79, 80, 81, 100, 333, 1000, 4567, 10**4, 10**5,
            10**6]
    tvals = [10 ** (-3 + 0.1 * k) for k in range(0, 48)] + [50.0, 1e-6, 1e3, 1e8, 1e100, 1e250]
    alphas = ([10 ** (-8 + 0.25 * k) for k in range(0, 31)]
              + [0.5, 0.05, 0.01, 0.3, 0.49, 0.75, 0.9, 0.99, 0.999])
    for ndf in ndfs:
        for tval in tvals:
            exp = 2.0 * float(stats.t.sf(tval, ndf))
            if exp >= 1e-300:
                note('student_p', _rel(student_two_sided_p(tval, ndf), exp), (tval, ndf))
        for alpha in alphas:
            exp = abs(float(stats.t.ppf(0.5 * alpha, ndf)))
            note('student_crit', _rel(student_crit(alpha, ndf), exp), (alpha, ndf))
    for tval in tvals:
        exp = 2.0 * float(stats.norm.sf(tval))
        if exp >= 1e-300:
            note('norm_p', _rel(norm_two_sided_p(tval), exp), tval)
    for alpha in alphas:
        note('norm_crit', _rel(norm_crit(alpha), abs(float(stats.norm.ppf(0.5 * alpha)))), alpha)
    for ndf in list(range(1, 130)) + [200, 400]:
        for k in range(0, 67):
            xval = 10 ** (-3 + 0.1 * k)
            exp = float(stats.chi2.sf(xval, ndf))
            if exp >= 1e-300:
                note('chi2_sf', _rel(chi2_sf(xval, ndf), exp), (xval, ndf))
    if verbose:
        for key, (rel, where) in worst.items():
            print(f'{key:14s} max relative difference {rel:.2e} at {where}')
    return worst


if __name__ == '__main__':
    PROBLEMS = selftest()
    print('selftest:', 'ok' if not PROBLEMS else PROBLEMS)
    crosscheck_scipy()
