"""Optional coverage-guided stage of C11 (thorough tier): an atheris target
that decodes the fuzzer's bytes into a C11 case (a prefix of a shipped or
recombined listing -- the input never leaves the domain of the property) and
runs the same ``run_case``.  libFuzzer stops at the first crash, so the target
never raises for a violation: it buckets failures itself and writes the first
case of every bucket to ``findings.json``; the caller replays them through
``run_case`` and adds them to the tally.

``python -m vlib.t4fuzz WORKDIR -runs=N -seed=S`` is the child process;
``stage()`` is called from the shard.
"""
import importlib.util
import json
import os
import shutil
import subprocess
import sys
import tempfile
import time

RUNS_TOTAL = 200000
SETUP = ('/venv/bin/pip install --no-index --find-links /opt/veriftools/wheels '
         '--target /verif/.deps atheris')


def stage(check, seed, shard, nshards, tally, deadline):
    """Run the fuzz stage of one shard; returns counters for the evidence file."""
    from vlib import jsonio
    if importlib.util.find_spec('atheris') is None:
        return {'fuzz_stage': f'skipped: atheris cannot be imported (set-up: {SETUP})',
                'fuzz_executions': 0}
    runs = int(os.environ.get('VERIF_FUZZ_RUNS', RUNS_TOTAL)) // nshards
    left = deadline - time.monotonic()
    if left < 30 or runs <= 0:
        return {'fuzz_stage': 'skipped: time budget of the tier exhausted by the sweep',
                'fuzz_executions': 0}
    work = tempfile.mkdtemp(prefix='vv-c11-fuzz-', dir='/var/tmp')
    try:
        corpus = os.path.join(work, 'corpus')
        os.makedirs(corpus)
        from vlib import t4trunc
        for idx, (_name, data) in enumerate(t4trunc.shipped()):
            for kdx, off in enumerate((len(data), len(data) // 2, 3000)):
                with open(os.path.join(corpus, f'seed-{idx}-{kdx}'), 'wb') as fil:
                    fil.write(bytes([(idx << 1) & 0xff]) + (off % (1 << 24)).to_bytes(3, 'little'))
                with open(os.path.join(corpus, f'seed-r-{idx}-{kdx}'), 'wb') as fil:
                    fil.write(bytes([((idx << 1) | 1) & 0xff]) + (off % (1 << 24)).to_bytes(3, 'little')
                              + bytes([kdx, 1, 1, kdx + 1, 1, 1, 1]))
        cmd = [sys.executable, '-m', 'vlib.t4fuzz', work, f'-runs={runs}',
               f'-seed={seed * 1000 + shard + 1}', '-max_len=20', '-len_control=0',
               f'-max_total_time={int(left)}', corpus]
        try:
            proc = subprocess.run(cmd, stdout=subprocess.DEVNULL, stderr=subprocess.PIPE,
                                  timeout=left + 60, check=False,
                                  cwd=os.path.dirname(os.path.dirname(os.path.abspath(__file__))))
            status = f'ran (exit {proc.returncode})'
            tail = proc.stderr.decode('utf-8', 'replace')[-600:]
        except subprocess.TimeoutExpired:
            status, tail = 'ran (stopped at the time budget)', ''
        stats = {'executions': 0, 'findings': []}
        path = os.path.join(work, 'findings.json')
        if os.path.exists(path):
            with open(path) as fil:
                stats = json.load(fil)
        elif 'ran (exit' in status:
            status = 'failed to start: ' + tail.replace('\n', ' | ')
        for enc in stats['findings']:
            case = jsonio.dec(enc)
            tally.add(case, check.run_case(case), 'fuzz')
        return {'fuzz_stage': status, 'fuzz_executions': stats['executions'],
                'fuzz_buckets_replayed': len(stats['findings'])}
    finally:
        shutil.rmtree(work, ignore_errors=True)


def _child(argv):
    import logging
    import warnings
    import atheris
    work = argv[1]
    warnings.simplefilter('ignore')
    logging.disable(logging.CRITICAL)
    import numpy as np
    np.seterr(all='ignore')
    with atheris.instrument_imports(include=['valjean.eponine.tripoli4']):
        import valjean.eponine.tripoli4.scan      # noqa: F401  pylint: disable=unused-import
        import valjean.eponine.tripoli4.parse     # noqa: F401  pylint: disable=unused-import
    from vlib import jsonio
    import checks.c11_truncation as check
    check.setup('thorough')
    check.fuzz_mode()
    state = {'executions': 0, 'findings': [], 'seen': set(), 'dirty': True}
    path = os.path.join(work, 'findings.json')

    def flush():
        with open(path + '.tmp', 'w') as fil:
            json.dump({'executions': state['executions'], 'findings': state['findings']}, fil)
        os.replace(path + '.tmp', path)
        state['dirty'] = False

    def one_input(blob):
        case = check.case_from_bytes(blob)
        if case is None:
            return
        outcome = check.run_case(case)
        state['executions'] += 1
        for fail in outcome.failures:
            if fail.signature not in state['seen']:
                state['seen'].add(fail.signature)
                state['findings'].append(jsonio.enc(fail.case if fail.case is not None else case))
                state['dirty'] = True
        if state['dirty'] or state['executions'] % 10 == 0:
            flush()

    flush()
    atheris.Setup([argv[0]] + argv[2:], one_input)
    atheris.Fuzz()


if __name__ == '__main__':
    _child(sys.argv)
