"""Shared generators and builders of the statistical-test checks (C05, C07).

Domain of the generated numbers (stated in DESIGN.md section 3, C05): finite
non-zero magnitudes lie in [1e-140, 1e140] so that squares, their sums and the
quotient ``d / q`` neither overflow nor lose bits to underflow; exact zeros,
NaN and +-inf are added on request.
"""
import math

import numpy as np
from hypothesis import strategies as st

from valjean.eponine.dataset import Dataset
from vlib import dsutil

MAG_LO, MAG_HI = 1e-140, 1e140


def clamp(xval):
    """Bring a finite non-zero float into the magnitude range of the domain."""
    if xval == 0.0 or math.isnan(xval) or math.isinf(xval):
        return xval
    mag = abs(xval)
    if mag < MAG_LO:
        return math.copysign(MAG_LO, xval)
    if mag > MAG_HI:
        return math.copysign(MAG_HI, xval)
    return xval


def in_domain(xval, special=True):
    """Is ``xval`` a number of the generated domain?"""
    if xval == 0.0:
        return True
    if math.isnan(xval) or math.isinf(xval):
        return special
    return MAG_LO <= abs(xval) <= MAG_HI


def shapes():
    """() to 3-D, 1-5 cells per dimension, small shapes more likely."""
    dim = st.sampled_from([1, 2, 2, 3, 3, 4, 5])
    return st.one_of(st.just([]), st.lists(dim, min_size=1, max_size=1),
                     st.lists(dim, min_size=1, max_size=1),
                     st.lists(dim, min_size=2, max_size=2),
                     st.lists(st.sampled_from([1, 2, 2, 3, 4, 5]), min_size=3, max_size=3))


def kinds_for(draw, shape):
    """Bins shared by all datasets of a case: None or one kind per dimension."""
    if not shape or draw(st.integers(0, 2)) == 0:
        return None
    return [draw(st.sampled_from('ec')) for _ in shape]


_MODERATE = st.floats(-3.0, 3.0)
_WIDE = st.floats(-140.0, 140.0)


def magnitude(draw):
    """Positive finite magnitude: mostly moderate, sometimes the full range."""
    expo = draw(_WIDE) if draw(st.integers(0, 3)) == 0 else draw(_MODERATE)
    return clamp(10.0 ** expo)


def value(draw, special_rate):
    """A value: finite of either sign, exact zero, NaN or +-inf.
    ``special_rate`` is the per-mille rate of each of {0, NaN, inf}."""
    roll = draw(st.integers(0, 999))
    if roll < special_rate:
        return math.nan
    if roll < 2 * special_rate:
        return math.inf if draw(st.booleans()) else -math.inf
    if roll < 2 * special_rate + max(special_rate, 30):
        return 0.0
    mag = magnitude(draw)
    return mag if draw(st.booleans()) else -mag


def error(draw, val, special_rate, zero_rate):
    """A non-negative error: relative to ``val``, free magnitude, exact zero,
    NaN or +inf (rates per mille)."""
    roll = draw(st.integers(0, 999))
    if roll < special_rate:
        return math.nan
    if roll < 2 * special_rate:
        return math.inf
    if roll < 2 * special_rate + zero_rate:
        return 0.0
    if roll % 4 == 0 or val == 0.0 or math.isnan(val) or math.isinf(val):
        return magnitude(draw)
    return clamp(abs(val) * 10.0 ** draw(st.floats(-6.0, 0.0)))


def alphas(tiny=False):
    """Significance levels in (0, 1); with ``tiny`` also levels down to 1e-100 (where
    1 - alpha/2 is no longer representable: formulas written for the upper tail break)."""
    base = [st.floats(-8.0, math.log10(0.5)).map(lambda x: 10.0 ** x),
            st.floats(0.001, 0.999),
            st.sampled_from([0.01, 0.05, 0.1, 0.001])]
    if tiny:
        base += [st.floats(-100.0, -8.0).map(lambda x: 10.0 ** x),
                 st.floats(-17.0, -9.0).map(lambda x: 10.0 ** x)]
    return st.one_of(*base)


def make_dataset(shape, kinds, values, errors, name='ds', layout='C', vdtype=None):
    """Dataset from flat lists; shape [] gives a scalar (numpy.float64) dataset.  ``layout``
    'F': the same numbers in Fortran memory order (what a transposed view has).  ``vdtype``
    'i4' / 'i8': the values (integers then: counts, tallies) are stored with that integer dtype."""
    shape = tuple(shape)
    vtype = np.dtype(vdtype) if vdtype else np.dtype(float)
    if not shape:
        return Dataset(vtype.type(values[0]), np.float64(errors[0]), name=name, what='w')
    val = np.array(values, dtype=vtype).reshape(shape)
    err = np.array(errors, dtype=float).reshape(shape)
    val, err = dsutil.relayout(val, layout), dsutil.relayout(err, layout)
    bins = dsutil.make_bins(shape, kinds) if kinds else None
    return Dataset(val, err, bins=bins, name=name, what='w')


def size_of(shape):
    """Number of cells of a shape given as a list."""
    size = 1
    for dim in shape:
        size *= dim
    return size


def flat(obj):
    """Flatten a result component (numpy scalar, 0-d or N-d array) to floats."""
    return [float(x) for x in np.asarray(obj, dtype=float).ravel()]


def flat_bool(obj):
    """Flatten a boolean result component to a list of bool."""
    return [bool(x) for x in np.asarray(obj).ravel()]


def close(got, exp, rel, absolute=0.0):
    """NaN-aware, infinity-aware comparison with stated tolerances."""
    if math.isnan(exp) or math.isnan(got):
        return math.isnan(exp) and math.isnan(got)
    if math.isinf(exp) or math.isinf(got):
        return exp == got
    return abs(got - exp) <= max(rel * abs(exp), absolute)
