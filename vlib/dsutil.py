"""Helpers shared by the dataset checks (C05-C09, C12, C13): building
datasets from plain case descriptions, well-formedness, byte snapshots."""
from collections import OrderedDict

import numpy as np


LAYOUTS = ['C', 'C', 'C', 'F', 'S', 'R']


def relayout(arr, layout):
    """The same numbers in another memory layout: 'F' Fortran order (what a transposed view has,
    >= 2-D only), 'S' a strided view (every second element of a larger buffer along the last
    axis: not contiguous), 'R' a view with a negative stride along the last axis."""
    if not isinstance(arr, np.ndarray) or arr.ndim == 0:
        return arr
    if layout == 'F' and arr.ndim >= 2:
        return np.asfortranarray(arr)
    if layout == 'S':
        big = np.zeros(arr.shape[:-1] + (2 * arr.shape[-1],), dtype=arr.dtype)
        big[..., ::2] = arr
        return big[..., ::2]
    if layout == 'R':
        return np.ascontiguousarray(arr[..., ::-1])[..., ::-1]
    return arr


def make_bins(shape, kinds, offsets=None):
    """Bins per dimension: kind 'e' = N+1 edges, 'c' = N centres.  All bin
    values are distinct across positions and dimensions."""
    bins = OrderedDict()
    for dim, (n, kind) in enumerate(zip(shape, kinds)):
        off = (offsets[dim] if offsets else 0.0) + 1000.0 * dim
        if kind == 'e':
            bins[f'd{dim}'] = off + np.arange(n + 1, dtype=float)
        else:
            bins[f'd{dim}'] = off + 0.5 + np.arange(n, dtype=float)
    return bins


def wellformed(dset, expect_bins=True):
    """Return a list of reasons why ``dset`` is not a well-formed dataset."""
    bad = []
    val, err = dset.value, dset.error
    if np.shape(val) != np.shape(err):
        bad.append(f'value.shape {np.shape(val)} != error.shape {np.shape(err)}')
    if not isinstance(dset.bins, OrderedDict):
        bad.append(f'bins is {type(dset.bins).__name__}')
        return bad
    if dset.bins:
        if len(dset.bins) != np.ndim(val):
            bad.append(f'{len(dset.bins)} bins for ndim {np.ndim(val)}')
        else:
            for (key, arr), size in zip(dset.bins.items(), np.shape(val)):
                if len(arr) not in (size, size + 1):
                    bad.append(f'bins[{key}] has {len(arr)} entries for {size} cells')
    return bad


def snapshot(dset):
    """Byte-level snapshot of a dataset (value, error, bins, name, what)."""
    def arr(x):
        a = np.asarray(x)
        mask = None
        if isinstance(x, np.ma.MaskedArray):
            mask = np.ma.getmaskarray(x).tobytes()
            a = np.asarray(x.data)
        return (str(a.dtype), a.shape, a.tobytes(), mask)
    return (arr(dset.value), arr(dset.error),
            tuple((k, arr(v)) for k, v in dset.bins.items()),
            dset.name, dset.what)


def same_array(a, b):
    """Bit-level equality of two arrays (NaN-aware through the bytes)."""
    a, b = np.asarray(a), np.asarray(b)
    return a.shape == b.shape and a.dtype == b.dtype and a.tobytes() == b.tobytes()
