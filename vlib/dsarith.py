"""Reference model of C08: first-order propagation of *uncorrelated* errors
through + - * /, one cell at a time, in plain Python floats.

Nothing here imports the code under test.  ``expect_cell`` returns
``(value, error, comparable)``; ``comparable`` is False when a straightforward
double-precision evaluation of the textbook formula (squares of the
partial-derivative terms, ``r*r``, ``l*dr``) leaves the range where it is
accurate to far better than the 1e-12 tolerance of the check -- such cells are
counted as *excluded*, never as failures and never as passes.
"""
import math

TOL = 1e-12          # relative tolerance of every numeric comparison
T_LO, T_HI = 1e-150, 1e150      # dominant partial-derivative term (its square must be a normal double)
W_LO, W_HI = 1e-290, 1e290      # plain products / squares of inputs


def _finite(*xs):
    return all(math.isfinite(x) for x in xs)


def _in(x, lo, hi):
    x = abs(x)
    return x == 0.0 or lo <= x <= hi


def expect_cell(op, lv, le, rv, re=None):
    """Expected (value, error, comparable) of ``(lv +- le) op (rv +- re)``.

    ``re is None`` means the right operand is a constant (number or array
    cell): it carries no error; as a factor it scales the error by ``|rv|``.
    """
    lv, le, rv = float(lv), float(le), float(rv)
    if re is None:
        if not _finite(lv, le, rv):
            return None, None, False
        if op == 'add':
            val, err = lv + rv, le
        elif op == 'sub':
            val, err = lv - rv, le
        elif op == 'mul':
            val, err = lv * rv, le * abs(rv)
        elif op == 'div':
            val, err = lv / rv, le / abs(rv)
        else:
            raise ValueError(op)
        return val, err, _finite(val, err) and abs(val) <= W_HI and abs(err) <= W_HI
    re = float(re)
    if not _finite(lv, le, rv, re):
        return None, None, False
    if op in ('add', 'sub'):
        val = lv + rv if op == 'add' else lv - rv
        terms = (le, re)
        okay = True
    elif op == 'mul':
        val = lv * rv
        terms = (le * rv, re * lv)            # d/dl = r, d/dr = l
        okay = True
    elif op == 'div':
        val = lv / rv
        terms = (le / rv, (lv / rv) * (re / rv))   # d/dl = 1/r, d/dr = -l/r^2
        okay = _in(rv, T_LO, T_HI) and _in(lv * re, W_LO, W_HI) and \
            (lv == 0.0 or re == 0.0 or _in(lv / rv, W_LO, W_HI) and _in(re / rv, W_LO, W_HI))
    else:
        raise ValueError(op)
    if not _finite(val, *terms):
        return None, None, False
    err = math.hypot(*terms)
    tmax = max(abs(t) for t in terms)
    okay = okay and _in(tmax, T_LO, T_HI) and _finite(err)
    return val, err, okay


def close(got, exp, tol=TOL):
    """|got - exp| <= tol * |exp| (exact equality required when exp == 0)."""
    got = float(got)
    if not math.isfinite(got):
        return False
    if got == exp:
        return True
    return abs(got - exp) <= tol * abs(exp)
