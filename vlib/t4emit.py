"""Emitter of synthetic Tripoli-4 listings from an explicit ground truth.

Used by C10 (numbers read are the numbers written) and available to C11
(truncation).  Three layers:

``expand(case) -> truth``
    deterministic expansion of a compact generated case (plain dict drawn by
    Hypothesis) into an explicit *ground truth*: every number that will be
    printed is stored as the very token that is printed (a string such as
    ``'-1.234567e+01'``), so the oracle compares with ``float(token)``.

``emit(truth) -> str``
    the listing text.  Prologue (input echo ... ``initialization time``), the
    per-batch blocks and the epilogue (generator state, ``NORMAL COMPLETION``)
    are copied verbatim from shipped listings (``PROLOGUE_FILES``); the result
    sections are assembled from the response / scoring-zone / spectrum / time
    step / integrated-result layouts of the shipped listings, character for
    character (tabs and blanks included).

``truth_from_parse(browser items, globals)``
    the inverse direction, used only to validate the emitter against shipped
    listings (re-emitting what the parser extracted from an example must parse
    to the same result).

Covered family: responses made of score blocks (scoring mode + scoring zone
Volume / Volume Sum / Frontier, spectrum with 1..n energy groups printed
increasing or decreasing, optionally per time step, energy-integrated line or
``NOT YET CONVERGED``) and the "generic" responses (``ENERGY INTEGRATED
RESULTS`` only).  Not covered: meshes, mu/phi angular zones, vov spectra, Green
bands, keff blocks, k_ij, IFP/sensitivities, perturbations, parallel listings.

Ground truth (all numbers are tokens = str unless stated)::

  {'prologue': 'noaopt'|'tts', 'init_time': int, 'edition_line': bool,
   'editions': [{'batch': int, 'sim_time': int, 'source_intensity': tok,
                 'mwl': (score, sigma, sigma%) | None,
                 'responses': [RESPONSE...]}]}
  RESPONSE (score)  : {'kind': 'score', 'function': str, 'name': str|None,
                       'score_name': str|None, 'esplit': str|None,
                       'particle': str, 'carac': None|'nucleus'|'tabulated',
                       'concentration': tok, 'nucleus': str, 'composition': str,
                       'scores': [SCORE...]}
  RESPONSE (generic): {'kind': 'generic', 'function': str,
                       'used': int, 'score': tok, 'sigma': tok} or
                      {..., 'nc': True}
  SCORE: {'mode': str, 'zone': {'type': 'Volume'|'Volume Sum'|'Frontier',
                                'id': int | [int..], 'vol': tok|None,
                                'detail': bool},
          'disc': int, 'units': None | [e, score, sigma, leth],
          'steps': [{'time': None | (num, tmin, tmax),
                     'rows': [(elo, ehi, score, sigma, leth)...],   # printed order
                     'integ': None | 'NC' | (used, score, sigma),
                     'idisc': int}]}
"""
import os

DATA_DIR = os.environ.get('T4_DATA_DIR', '/repo/tests/eponine/tripoli4/data')
PROLOGUE_FILES = {'noaopt': 'failure_noaopt_uniform_sources.d.res',
                  'tts': 'ttsSimplePacket20.d.res.ceav5'}
STARS57 = '*' * 57
STARS78 = '*' * 78
_CACHE = {}


def fmt(val):
    """Tripoli-4 prints reals with %e."""
    return '%e' % val


def _template(name):
    """(prologue text, per-batch block template, epilogue text) cut out of a
    shipped listing."""
    if name in _CACHE:
        return _CACHE[name]
    with open(os.path.join(DATA_DIR, PROLOGUE_FILES[name]), errors='ignore',
              encoding='utf-8') as fil:
        lines = fil.readlines()
    first = next(i for i, l in enumerate(lines) if l.startswith(' batch number :'))
    prologue = ''.join(lines[:first])
    # block of batch 1: from ' batch number : 1' to the line before the next
    # ' batch number' / stars / 'simulation time' line
    end = first + 1
    while not (lines[end].startswith(' batch number :') or lines[end].startswith('*')
               or 'simulation time' in lines[end] or 'KEFF at step' in lines[end]):
        end += 1
    block = ''.join(lines[first + 1:end])
    gen = next(i for i, l in enumerate(lines)
               if 'Type and parameters of random generator at the end' in l)
    epilogue = ''.join(lines[gen:])
    _CACHE[name] = (prologue, block, epilogue)
    return _CACHE[name]


def _patch_batch(prologue, nbatch):
    """Keep the input echo coherent with the editions: 'BATCH n'."""
    out = []
    done = False
    for line in prologue.splitlines(keepends=True):
        toks = line.split()
        if (not done and 'BATCH' in toks and '_' not in line and len(toks) == 2
                and toks[1].isdigit()):
            line = line.replace(toks[1], str(nbatch))
            done = True
        out.append(line)
    return ''.join(out)


# --------------------------------------------------------------------------
# emission

def _emit_zone(zone):
    ztype = zone['type']
    if ztype == 'Volume':
        txt = (f'\t scoring zone : \t Volume \t num of volume : {zone["id"]}\n'
               f'\t Volume in cm3: {zone["vol"]}\n')
        if zone.get('detail'):
            txt += '\t The result is integrated over the volume\n'
        return txt
    if ztype == 'Volume Sum':
        ids = '+'.join(str(i) for i in zone['id'])
        return ('\t scoring zone : \t Volume Sum \t num of volumes : \n'
                f'\t\t{ids}\t Total volume in cm3: {zone["vol"]}\n')
    if ztype == 'Frontier':
        txt = (f'\t scoring zone : \t Frontier \t volumes : '
               f'{zone["id"][0]},{zone["id"][1]}\n')
        if zone.get('detail'):
            txt += '\t The result is integrated over the surface\n'
        return txt
    raise ValueError(f'unknown zone type {ztype!r}')


def _emit_spectrum(score, step):
    out = ['\t SPECTRUM RESULTS\n',
           f'\t number of first discarded batches : {score["disc"]}\n', '\n']
    if score.get('units'):
        uni = score['units']
        out.append('\t group\t\t\t score\t\t sigma_% \t score/lethargy\n')
        out.append(f'Units:\t {uni[0]}\t\t\t {uni[1]}\t {uni[2]}\t\t {uni[3]}\n')
    else:
        out.append('\t group (MeV) \t\t score   \t sigma_% \t score/lethargy\n')
    out.append('\n')
    for elo, ehi, sco, sig, leth in step['rows']:
        out.append(f'{elo} - {ehi}\t{sco}\t{sig}\t{leth}\n')
    out.append('\n')
    integ = step.get('integ')
    if integ is not None:
        out.append('\t ENERGY INTEGRATED RESULTS\n\n')
        out.append(f'\t number of first discarded batches : {step.get("idisc", score["disc"])}\n\n')
        if integ == 'NC':
            out.append('\t NOT YET CONVERGED \n')
        else:
            used, sco, sig = integ
            out.append(f'number of batches used: {used}\t{sco}\t{sig}\n')
        out.append('\n\n')
    return ''.join(out)


def _emit_score(score):
    out = [f'\t scoring mode : {score["mode"]}\n', _emit_zone(score['zone']), '\n\n']
    for step in score['steps']:
        if step.get('time') is not None:
            num, tmin, tmax = step['time']
            out.append(f'\t TIME STEP NUMBER : {num}\n'
                       '\t ------------------------------------\n'
                       f'\t\t time min. = {tmin}\n'
                       f'\t\t time max. = {tmax}\n\n')
        out.append(_emit_spectrum(score, step))
    if not (score['steps'] and score['steps'][-1].get('integ') is not None):
        out.append('\n')
    return ''.join(out)


def _emit_response(resp):
    if resp['kind'] == 'generic':
        out = [STARS78 + '\n', f'RESPONSE FUNCTION : {resp["function"]}\n', STARS78 + '\n', '\n',
               '\tENERGY INTEGRATED RESULTS\n', '\n']
        if resp.get('nc'):
            out.append('\t NOT YET CONVERGED \n')
        else:
            out.append(f'number of batches used:\t{resp["used"]}\t{resp["score"]}\t{resp["sigma"]}\n')
        out.append('\n\n')
        return ''.join(out)
    out = [STARS78 + '\n', f'RESPONSE FUNCTION : {resp["function"]}\n']
    if resp.get('name') is not None:
        out.append(f'RESPONSE NAME : {resp["name"]}\n')
    if resp.get('score_name') is not None:
        out.append(f'SCORE NAME : {resp["score_name"]}\n')
    if resp.get('esplit') is not None:
        out.append(f'ENERGY DECOUPAGE NAME : {resp["esplit"]}\n')
    out.append('\n\n')
    out.append(f' PARTICULE : {resp["particle"]} \n')
    carac = resp.get('carac')
    if carac == 'nucleus':
        out.append(f'\n\n reaction on nucleus : {resp["nucleus"]} temperature :300\n\n'
                   f' composition : {resp["composition"]}\n\n'
                   f' concentration : {resp["concentration"]}\n\n'
                   ' reaction consists in codes : \n\t\t33\n')
    elif carac == 'tabulated':
        out.append(' temperature :0\n\n composition : none \n\n'
                   f' concentration : {resp["concentration"]}\n\n'
                   ' reaction consists in tabulated data\n\n')
    out.append(STARS78 + '\n\n')
    for score in resp['scores']:
        out.append(_emit_score(score))
    out.append('\n\n')
    return ''.join(out)


def emit_edition(edition, edition_line=True):
    """Text of one result section, from the stars before 'RESULTS ARE GIVEN'
    to the blank lines after 'simulation time'."""
    out = [STARS57 + '\n\n',
           f' RESULTS ARE GIVEN FOR SOURCE INTENSITY : {edition["source_intensity"]}\n',
           STARS57 + '\n\n\n']
    if edition.get('mwl') is not None:
        sco, sig, pct = edition['mwl']
        out.append(f' Mean weight leakage = {sco}\t sigma = {sig}\t sigma% = {pct}\n\n\n')
    if edition_line:
        out.append(f' Edition after batch number : {edition["batch"]}\n\n\n')
    out.append('\n')
    for resp in edition['responses']:
        out.append(_emit_response(resp))
    out.append(f' simulation time (s) : {edition["sim_time"]}\n\n\n')
    return ''.join(out)


def emit(truth):
    """Complete listing."""
    prologue, block, epilogue = _template(truth.get('prologue', 'noaopt'))
    editions = truth['editions']
    prologue = _patch_batch(prologue, editions[-1]['batch'])
    init = truth.get('init_time')
    if init is not None:
        lines = prologue.splitlines(keepends=True)
        for i, line in enumerate(lines):
            if line.startswith(' initialization time (s):'):
                lines[i] = f' initialization time (s): {init}\n'
        prologue = ''.join(lines)
    out = [prologue]
    batch = 0
    for edition in editions:
        while batch < edition['batch']:
            batch += 1
            out.append(f' batch number : {batch}\n')
            out.append(block)
        out.append(emit_edition(edition, truth.get('edition_line', True)))
    out.append(epilogue)
    return ''.join(out)


# --------------------------------------------------------------------------
# expansion of a compact generated case

ENERGY_LADDER = [1e-11, 2.5e-9, 6.25e-7, 1.5e-5, 1e-3, 0.125, 1.0, 2.0, 5.0, 10.0, 15.0, 20.0]
TIME_LADDER = [0.0, 1e-9, 3.13e-7, 1e-5, 1e-3, 1.0, 2.0, 4.0, 1e35]
MODES = ['SCORE_TRACK', 'SCORE_COLL', 'SCORE_SURF', 'LOCAL_ENERGY_DEPOSITION']
TEMPLATES = {
    # name: (function, carac, particle, nucleus, composition)
    'flux': ('FLUX', None, 'NEUTRON', None, None),
    'flux_photon': ('FLUX', None, 'PHOTON', None, None),
    'reaction': ('REACTION', 'nucleus', 'NEUTRON', 'U235', 'FUEL'),
    'courant': ('COURANT', 'tabulated', 'NEUTRON', None, None),
    'deposited': ('DEPOSITED_ENERGY', 'tabulated', 'PHOTON', None, None),
}
GENERIC_FUNCTIONS = ['PRODUCTION', 'ABSORPTION', 'LEAKAGE', 'LEAKAGE_INSIDE', 'NXN EXCESS',
                     'FLUX TOTAL', 'ENERGY LEAKAGE', 'TOTAL FISSION RATE']
UNITS = ['MeV', 'neut.s^-1', '%', 'neut.s^-1']


class Tokens:
    """Source of pairwise distinct printed numbers (distinct 6-digit
    fractional parts: 7919 is coprime with 10**6)."""

    def __init__(self, seed):
        self.seed = seed
        self.count = 0

    def _next(self):
        self.count += 1
        k = self.count
        lead = 1 + (k * 37 + self.seed) % 9
        frac = (k * 7919 + self.seed * 104729) % 1000000
        exp = (k * 5 + self.seed) % 9 - 4
        return lead, frac, exp

    def score(self, sign='pos', zero=False):
        lead, frac, exp = self._next()
        if zero:
            return '0.000000e+00'
        neg = sign == 'neg' or (sign == 'mix' and self.count % 2 == 1)
        return f'{"-" if neg else ""}{lead}.{frac:06d}e{exp:+03d}'

    def sigma(self, zero=False):
        lead, frac, _exp = self._next()
        if zero:
            return '0.000000e+00'
        if self.count % 11 == 0:
            return '1.000000e+02'
        return f'{lead}.{frac:06d}e{(self.count % 3) - 1:+03d}'


def _zone(ztype, number, detail):
    if ztype == 'vol':
        return {'type': 'Volume', 'id': number, 'vol': fmt(1.0 + 0.37 * number),
                'detail': bool(detail)}
    # the numbers of a sum of volumes / of a frontier are listed in either order (for a frontier
    # the order is the crossing direction)
    if ztype == 'volsum':
        ids = [number, number + 100, number + 200][:1 + number % 3]
        return {'type': 'Volume Sum', 'id': ids[::-1] if number % 2 else ids,
                'vol': fmt(2.0 + 0.53 * number), 'detail': False}
    return {'type': 'Frontier', 'id': [number + 100, number] if number % 2 else [number, number + 100],
            'vol': None, 'detail': bool(detail)}


def expand(case):
    """Compact generated case -> explicit ground truth (see module doc)."""
    toks = Tokens(case.get('seed', 0))
    truth = {'prologue': case.get('prologue', 'noaopt'), 'init_time': case.get('init_time', 0),
             'edition_line': case.get('edition_line', True), 'editions': []}
    batch, stime = 0, 0
    for ied, edc in enumerate(case['editions']):
        batch += max(1, edc['dbatch'])
        stime += max(0, edc['dtime'])
        edition = {'batch': batch, 'sim_time': stime, 'source_intensity': '1.000000e+00',
                   'mwl': (toks.score(), toks.sigma(), toks.sigma()), 'responses': []}
        znum = case.get('seed', 0) % 7
        for iresp, rsp in enumerate(case['responses']):
            if rsp['tmpl'] == 'generic':
                resp = {'kind': 'generic',
                        'function': GENERIC_FUNCTIONS[iresp % len(GENERIC_FUNCTIONS)]}
                resp.update(used=batch, score=toks.score(rsp.get('sign', 'pos'),
                                                        zero=rsp.get('zeros', False)),
                            sigma=toks.sigma(zero=rsp.get('zeros', False)))
                edition['responses'].append(resp)
                continue
            func, carac, particle, nucleus, compo = TEMPLATES[rsp['tmpl']]
            named = rsp.get('named', False)
            resp = {'kind': 'score', 'function': func,
                    'name': f'resp_{iresp}' if named else '',
                    'score_name': f'score_{iresp}' if named else None,
                    'esplit': f'DEC_E{iresp}', 'particle': particle, 'carac': carac,
                    'nucleus': nucleus, 'composition': compo,
                    'concentration': fmt(7.6864e-05 * (iresp + 1)) if carac else None,
                    'scores': []}
            edges = sorted(set(rsp['egrid']))
            ebounds = [fmt(ENERGY_LADDER[i]) for i in edges]
            groups = list(zip(ebounds[:-1], ebounds[1:]))        # increasing (lo, hi)
            if rsp.get('edec'):
                groups = [(hi, lo) for lo, hi in reversed(groups)]
            tedges = sorted(set(rsp.get('tgrid') or []))
            if len(tedges) >= 2:
                tbounds = [fmt(TIME_LADDER[i]) for i in tedges]
                tsteps = list(zip(tbounds[:-1], tbounds[1:]))
                if rsp.get('tdec'):
                    tsteps = list(reversed(tsteps))
                times = [(num, tmin, tmax) for num, (tmin, tmax) in enumerate(tsteps)]
            else:
                times = [None]
            for izone, zon in enumerate(rsp['zones']):
                znum += 1 + (izone + iresp) % 3
                score = {'mode': MODES[zon.get('mode', 0) % len(MODES)],
                         'zone': _zone(zon['ztype'], znum, zon.get('detail')),
                         'disc': case.get('disc', 0) % (batch + 1),
                         'units': list(UNITS) if rsp.get('units') else None, 'steps': []}
                integ_mode = zon.get('integ', 'yes')
                if len(times) > 1 and integ_mode == 'no':
                    integ_mode = 'yes'   # time-dependent scores always carry the integrated line
                for itime, tim in enumerate(times):
                    rows = []
                    for igrp, (elo, ehi) in enumerate(groups):
                        zero = bool(zon.get('zeros')) and (igrp + itime + ied) % 2 == 0
                        rows.append((elo, ehi, toks.score(zon.get('sign', 'pos'), zero),
                                     toks.sigma(zero), toks.score(zon.get('sign', 'pos'), zero)))
                    if integ_mode == 'no':
                        integ = None
                    elif integ_mode == 'nc' and ied % 2 == 0:
                        integ = 'NC'
                    else:
                        allzero = bool(zon.get('zeros')) and len(groups) == 1 and rows[0][2][0] == '0'
                        integ = (batch - score['disc'], toks.score(zon.get('sign', 'pos'), allzero),
                                 toks.sigma(allzero))
                    score['steps'].append({'time': tim, 'rows': rows, 'integ': integ,
                                           'idisc': score['disc']})
                resp['scores'].append(score)
            edition['responses'].append(resp)
        truth['editions'].append(edition)
    return truth


# --------------------------------------------------------------------------
# inverse direction (emitter validation on shipped listings)

def _tok(val):
    return fmt(float(val))


def covered_item(item):
    """Does this browser item belong to the family the emitter covers?"""
    if item.get('response_type') == 'generic':
        return set(item['results']) <= {'score_generic', 'used_batches'}
    if item.get('response_type') != 'score':
        return False
    if item.get('scoring_zone_type') not in ('Volume', 'Volume Sum', 'Frontier'):
        return False
    res = item['results']
    if 'score' not in res or 'score/lethargy' not in res:
        return False
    allowed = {'score', 'score/lethargy', 'score_integrated', 'score_eintegrated',
               'discarded_batches', 'used_batches', 'units'}
    if not set(res) <= allowed:
        return False
    shape = res['score'].value.shape
    return shape[:3] == (1, 1, 1) and shape[5:] == (1, 1)


def truth_from_items(items, raw_items):
    """Build the responses of one edition from parsed browser items
    (``items``: dicts with Dataset results; ``raw_items``: the corresponding
    entries of ParseResult.pres['list_responses'], which still hold sigma%).
    Bins come back increasing, so the re-emitted listing prints increasing
    groups whatever the original order was."""
    responses = []
    by_resp = {}
    for item, raw in zip(items, raw_items):
        if item['response_type'] == 'generic':
            gen = raw['results']['generic']
            resp = {'kind': 'generic', 'function': item['response_function']}
            if 'not_converged' in gen:
                resp['nc'] = True
            else:
                resp.update(used=int(raw['results']['used_batches']),
                            score=_tok(gen['score']), sigma=_tok(gen['sigma']))
            responses.append(resp)
            continue
        key = item['response_index']
        if key not in by_resp:
            carac = None
            if 'reaction_on_nucleus' in item:
                carac = 'nucleus'
            elif 'composition' in item:
                carac = 'tabulated'
            by_resp[key] = {
                'kind': 'score', 'function': item['response_function'],
                'name': item.get('response_name', ''),
                'score_name': item.get('score_name'),
                'esplit': item.get('energy_split_name'),
                'particle': item['particle'], 'carac': carac,
                'nucleus': (item.get('reaction_on_nucleus') or [None])[0],
                'composition': (item.get('composition') or [None])[0],
                'concentration': (_tok(item['concentration'][0])
                                  if 'concentration' in item else None),
                'scores': []}
            responses.append(by_resp[key])
        spec = raw['results']['spectrum']
        arr = spec['array']
        ebins = spec['bins']['e']
        tbins = spec['bins']['t']
        ztype = item['scoring_zone_type']
        zid = item['scoring_zone_id']
        zone = {'type': ztype,
                'id': int(zid) if ztype == 'Volume' else [int(z) for z in zid],
                'vol': _tok(item['scoring_zone_volsurf']) if 'scoring_zone_volsurf' in item else None,
                'detail': 'scoring_zone_details' in item}
        units = None
        if spec['units'].get('score') != 'unknown':
            units = [spec['units']['e'], spec['units']['score'], spec['units']['sigma'],
                     spec['units']['score']]
        score = {'mode': item['scoring_mode'], 'zone': zone,
                 'disc': int(raw['results']['discarded_batches']), 'units': units, 'steps': []}
        ntime = arr.shape[4]
        for itime in range(ntime):
            rows = [(_tok(ebins[ie]), _tok(ebins[ie + 1]),
                     _tok(arr['score'][0, 0, 0, ie, itime, 0, 0]),
                     _tok(arr['sigma'][0, 0, 0, ie, itime, 0, 0]),
                     _tok(arr['score/lethargy'][0, 0, 0, ie, itime, 0, 0]))
                    for ie in range(arr.shape[3])]
            tim = None
            if len(tbins) > 1:
                tim = (itime, _tok(tbins[itime]), _tok(tbins[itime + 1]))
            integ = None
            if 'eintegrated_array' in spec:
                eint = spec['eintegrated_array']
                integ = (int(raw['results'].get('used_batches', 0)),
                         _tok(eint['score'][0, 0, 0, 0, itime, 0, 0]),
                         _tok(eint['sigma'][0, 0, 0, 0, itime, 0, 0]))
            elif 'integrated' in raw['results']:
                igr = raw['results']['integrated']
                if 'not_converged' in igr:
                    integ = 'NC'
                else:
                    integ = (int(raw['results'].get('used_batches', 0)),
                             _tok(igr['score']), _tok(igr['sigma']))
            score['steps'].append({'time': tim, 'rows': rows, 'integ': integ,
                                   'idisc': score['disc']})
        by_resp[key]['scores'].append(score)
    return responses
