"""Deep structural snapshots of live objects (used by C13, usable by others).

``take(obj)`` turns an arbitrary object graph into a tree of plain tuples that
can be compared with ``==``:

* objects       -> ('obj', qualified class name, ((attribute, snapshot), ...)) with the
                   attributes of ``__dict__`` (and ``__slots__``) sorted by name;
* mappings      -> ('map', type name, default-factory name or None,
                   ((key snapshot, value snapshot), ...)) **in iteration order**: a key inserted
                   by reading a ``defaultdict`` changes the snapshot, and so does a re-ordering;
* lists/tuples  -> ('seq', type name, (snapshots ...)) in order;
* sets          -> ('set', type name, sorted snapshots);
* numpy arrays  -> ('arr', dtype, shape, bytes, mask bytes or None); object arrays by element;
* numpy scalars -> ('npy', dtype, bytes);
* floats        -> ('flt', 8 bytes of the IEEE-754 pattern)  (NaN payloads and signed zeros count);
* enum members  -> ('enum', class name, member name);
* exceptions    -> like objects, with their ``args`` as the attribute ``<args>``;
* callables, classes, modules -> ('ref', kind, qualified name)  (identity by name only);
* a container that contains itself -> ('cycle', distance to the ancestor).

``diff(a, b)`` returns ``None`` when two snapshots are equal, otherwise
``(path, what)`` for the first difference found, ``path`` being a list of
attribute names (str) / mapping keys (``('key', label)``) / positions (int) and ``what`` a short description.
``generic_path(path)`` drops the indices so that the path can be used in a
root-cause bucket signature.
"""
import enum
import struct
import sys
import types

import numpy as np

_MAX_DEPTH = 60


def _qualname(cls):
    return f'{cls.__module__}.{cls.__qualname__}'


def _array(arr):
    mask = None
    if isinstance(arr, np.ma.MaskedArray):
        mask = np.ma.getmaskarray(arr).tobytes()
        arr = np.asarray(arr.data)
    return arr, mask


def take(obj, _stack=None):
    """Snapshot of ``obj`` (see the module documentation)."""
    kind = type(obj)
    if kind is str or kind is bool or obj is None:
        return ('val', kind.__name__, obj)
    if kind is float:
        return ('flt', struct.pack('<d', obj))
    if kind is np.float64:
        return ('npy', '<f8', obj.tobytes())
    if kind is np.ndarray and obj.dtype != object:
        if obj.dtype.byteorder not in ('=', '|', '<' if sys.byteorder == 'little' else '>'):
            # the numbers, not their byte order in memory (numpy itself may change the latter,
            # e.g. when pickling arrays that share a dtype object)
            obj = obj.astype(obj.dtype.newbyteorder('='))
        return ('arr', obj.dtype.str, obj.shape, obj.tobytes(), None)
    if obj is None or isinstance(obj, (bool, str, bytes)):
        return ('val', type(obj).__name__, obj)
    if isinstance(obj, enum.Enum):
        return ('enum', _qualname(type(obj)), obj.name)
    if isinstance(obj, int):
        return ('val', type(obj).__name__, int(obj))
    if isinstance(obj, float):
        return ('flt', struct.pack('<d', obj))
    if isinstance(obj, complex):
        return ('cpx', struct.pack('<dd', obj.real, obj.imag))
    if isinstance(obj, np.generic):
        return ('npy', obj.dtype.str, obj.tobytes())
    stack = _stack if _stack is not None else []
    if isinstance(obj, np.ndarray):
        arr, mask = _array(obj)
        if arr.dtype == object:
            return ('oarr', arr.shape, tuple(take(x, stack) for x in arr.ravel().tolist()), mask)
        if arr.dtype.byteorder not in ('=', '|', '<' if sys.byteorder == 'little' else '>'):
            arr = arr.astype(arr.dtype.newbyteorder('='))
        return ('arr', arr.dtype.str, arr.shape, arr.tobytes(), mask)
    if isinstance(obj, (types.FunctionType, types.BuiltinFunctionType, types.MethodType, type,
                        types.ModuleType)):
        name = getattr(obj, '__qualname__', None) or getattr(obj, '__name__', '?')
        return ('ref', type(obj).__name__, f'{getattr(obj, "__module__", "")}.{name}')
    ident = id(obj)
    if ident in stack:
        return ('cycle', len(stack) - stack.index(ident))
    if len(stack) > _MAX_DEPTH:
        raise RecursionError('snapshot deeper than %d levels' % _MAX_DEPTH)
    stack.append(ident)
    try:
        if isinstance(obj, dict):
            factory = getattr(obj, 'default_factory', None)
            fname = None if factory is None else getattr(factory, '__qualname__', repr(factory))
            return ('map', _qualname(type(obj)), fname,
                    tuple((take(k, stack), take(v, stack)) for k, v in obj.items()))
        if isinstance(obj, (list, tuple)):
            return ('seq', _qualname(type(obj)), tuple(take(x, stack) for x in obj))
        if isinstance(obj, (set, frozenset)):
            return ('set', _qualname(type(obj)), tuple(sorted((take(x, stack) for x in obj), key=repr)))
        attrs = {}
        if isinstance(obj, BaseException):
            attrs['<args>'] = obj.args
        if hasattr(obj, '__dict__'):
            attrs.update(vars(obj))
        for klass in type(obj).__mro__:
            slots = klass.__dict__.get('__slots__', ())
            for slot in ((slots,) if isinstance(slots, str) else slots):
                if slot not in ('__dict__', '__weakref__') and hasattr(obj, slot):
                    attrs[slot] = getattr(obj, slot)
        if not attrs and not hasattr(obj, '__dict__') and not hasattr(type(obj), '__slots__'):
            return ('opaque', _qualname(type(obj)), repr(obj))
        return ('obj', _qualname(type(obj)),
                tuple((name, take(val, stack)) for name, val in sorted(attrs.items())))
    finally:
        stack.pop()


def _short(snap, limit=70):
    text = repr(snap)
    return text if len(text) <= limit else text[:limit] + '...'


def _key_label(ksnap):
    if ksnap[0] in ('val', 'enum'):
        return str(ksnap[2])
    return _short(ksnap, 30)


def diff(one, two, path=None):
    """First difference between two snapshots: ``None`` or ``(path, what)``."""
    path = path if path is not None else []
    if one == two:
        return None
    if not (isinstance(one, tuple) and isinstance(two, tuple)) or one[0] != two[0]:
        return path, f'{_short(one)} became {_short(two)}'
    tag = one[0]
    if tag == 'obj':
        if one[1] != two[1]:
            return path, f'class {one[1]} became {two[1]}'
        names1, names2 = [n for n, _ in one[2]], [n for n, _ in two[2]]
        if names1 != names2:
            gone = sorted(set(names1) - set(names2))
            new = sorted(set(names2) - set(names1))
            return path + ['<attributes>'], f'attributes added {new} removed {gone}'
        for (name, sub1), (_n, sub2) in zip(one[2], two[2]):
            found = diff(sub1, sub2, path + [name])
            if found:
                return found
    elif tag == 'map':
        if one[1] != two[1] or one[2] != two[2]:
            return path, f'mapping type {one[1:3]} became {two[1:3]}'
        keys1, keys2 = [k for k, _ in one[3]], [k for k, _ in two[3]]
        if keys1 != keys2:
            lab1, lab2 = [_key_label(k) for k in keys1], [_key_label(k) for k in keys2]
            if sorted(lab1) == sorted(lab2) and len(set(lab1)) == len(lab1):
                return path + ['<key-order>'], f'keys {lab1} re-ordered to {lab2}'
            return path + ['<keys>'], f'keys {lab1} became {lab2}'
        for (key, sub1), (_k, sub2) in zip(one[3], two[3]):
            found = diff(sub1, sub2, path + [('key', _key_label(key))])
            if found:
                return found
    elif tag in ('seq', 'set'):
        if one[1] != two[1]:
            return path, f'type {one[1]} became {two[1]}'
        if len(one[2]) != len(two[2]):
            return path + ['<length>'], f'length {len(one[2])} became {len(two[2])}'
        for idx, (sub1, sub2) in enumerate(zip(one[2], two[2])):
            found = diff(sub1, sub2, path + [idx])
            if found:
                return found
    elif tag == 'oarr':
        if one[1] != two[1]:
            return path + ['<shape>'], f'shape {one[1]} became {two[1]}'
        for idx, (sub1, sub2) in enumerate(zip(one[2], two[2])):
            found = diff(sub1, sub2, path + [idx])
            if found:
                return found
        return path + ['<mask>'], 'mask changed'
    elif tag == 'arr':
        if one[1] != two[1]:
            return path + ['<dtype>'], f'dtype {one[1]} became {two[1]}'
        if one[2] != two[2]:
            return path + ['<shape>'], f'shape {one[2]} became {two[2]}'
        if one[3] != two[3]:
            arr1 = np.frombuffer(one[3], dtype=one[1]) if one[3] else np.array([])
            arr2 = np.frombuffer(two[3], dtype=two[1]) if two[3] else np.array([])
            return path + ['<data>'], f'array {arr1.tolist()[:8]} became {arr2.tolist()[:8]}'
        return path + ['<mask>'], 'mask changed'
    return path, f'{_short(one)} became {_short(two)}'


def generic_path(path):
    """The path of a difference without positions (for bucket signatures)."""
    parts = []
    for part in path:
        if isinstance(part, int):
            continue
        parts.append('[]' if isinstance(part, tuple) else str(part))
    return '.'.join(parts).replace('.[]', '[]') or '<root>'


def show_path(path):
    """Readable form of a complete path."""
    return '.'.join(f'[{p[1]}]' if isinstance(p, tuple) else str(p) for p in path) or '<root>'
