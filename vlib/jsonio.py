"""Exact, self-contained JSON encoding of generated cases.

Cases are plain Python values (dict / list / tuple / str / int / float / bool /
None / bytes / numpy arrays / frozenset).  Floats are stored by their hex
representation so that replay is bit-exact (NaN, infinities and signed zeros
included); every tagged value is a one-key dictionary whose key starts with
``$``.
"""
import hashlib
import json

try:
    import numpy as np
except ImportError:  # pragma: no cover
    np = None


def enc(obj):
    if obj is None or isinstance(obj, (bool, str)):
        return obj
    if isinstance(obj, int):
        return obj
    if isinstance(obj, float):
        return {'$f': obj.hex(), 'repr': repr(obj)}
    if isinstance(obj, complex):
        return {'$c': [obj.real.hex(), obj.imag.hex()]}
    if isinstance(obj, bytes):
        return {'$b': obj.hex()}
    if isinstance(obj, tuple):
        return {'$t': [enc(x) for x in obj]}
    if isinstance(obj, list):
        return [enc(x) for x in obj]
    if isinstance(obj, frozenset):
        return {'$fs': sorted((enc(x) for x in obj), key=lambda e: json.dumps(e, sort_keys=True))}
    if isinstance(obj, dict):
        if all(isinstance(k, str) and not k.startswith('$') for k in obj):
            return {k: enc(v) for k, v in obj.items()}
        return {'$d': [[enc(k), enc(v)] for k, v in obj.items()]}
    if np is not None:
        if isinstance(obj, np.ndarray):
            return {'$a': {'dtype': str(obj.dtype), 'shape': list(obj.shape),
                           'data': [enc(x) for x in obj.ravel().tolist()]}}
        if isinstance(obj, np.generic):
            return enc(obj.item())
    raise TypeError(f'cannot encode {type(obj).__name__}: {obj!r}')


def dec(obj):
    if isinstance(obj, list):
        return [dec(x) for x in obj]
    if isinstance(obj, dict):
        if len(obj) <= 2 and any(k.startswith('$') for k in obj):
            if '$f' in obj:
                return float.fromhex(obj['$f'])
            if '$c' in obj:
                return complex(float.fromhex(obj['$c'][0]), float.fromhex(obj['$c'][1]))
            if '$b' in obj:
                return bytes.fromhex(obj['$b'])
            if '$t' in obj:
                return tuple(dec(x) for x in obj['$t'])
            if '$fs' in obj:
                return frozenset(dec(x) for x in obj['$fs'])
            if '$d' in obj:
                return {dec(k): dec(v) for k, v in obj['$d']}
            if '$a' in obj:
                spec = obj['$a']
                data = [dec(x) for x in spec['data']]
                return np.array(data, dtype=spec['dtype']).reshape(spec['shape'])
        return {k: dec(v) for k, v in obj.items()}
    return obj


def dumps(obj, **kw):
    return json.dumps(enc(obj), sort_keys=True, **kw)


def loads(text):
    return dec(json.loads(text))


def digest(obj):
    """Structural hash of a case (used to count distinct cases)."""
    return hashlib.blake2b(dumps(obj).encode(), digest_size=8).hexdigest()


def brief(obj, limit=1500):
    """Encoded case for evidence samples, cut to a readable size."""
    e = enc(obj)
    text = json.dumps(e, sort_keys=True)
    if len(text) <= limit:
        return e
    return {'truncated_json': text[:limit] + '...', 'full_length': len(text)}
