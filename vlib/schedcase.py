"""Generated scheduling cases for C01-C04: graphs, outcomes, schedules, probe
tasks, the controlled run and the reference model of final statuses.

Case (plain value)::

    {'n': 3,                         # tasks t0..t2 ; edges (i, j, kind): ti depends on tj
     'edges': [(1, 0, 'h'), (2, 1, 's'), (2, 0, 'b')],   # kind h(ard) s(oft) b(oth); j < i unless 'back'
     'back': [(0, 2, 'h')],          # optional extra edges that may close cycles (C03)
     'outcomes': ['done', 'raise', 'nonpair'],
     'workers': 2,
     'init': {'0': 'DONE'},          # optional initial entries (C03)
     'order': [2, 0, 1],             # optional: order of insertion of the tasks into the graphs
     'groups': [{'lo': 1, 'hi': 1, 'deps': [(0, 'h')], 'by': [(2, 's')]}],   # optional nested graph nodes
     'sched': ('choices', [0, 3, 1]) | ('pct', [prio...], [points...]) | ('dfs', P)}
"""
import collections
import types

from hypothesis import strategies as st

from valjean.cosette.task import Task, TaskStatus
from valjean.cosette.depgraph import DepGraph
from valjean.cosette.scheduler import Scheduler

from . import vsched

OUTCOMES_OK = ['done']
OUTCOMES_FAIL = ['failed', 'raise', 'raise_value', 'raise_type', 'raise_exit']
OUTCOMES_MALFORMED = ['none', 'nonpair', 'triple', 'badstatus_str', 'badstatus_int',
                      'badupdate_int', 'badupdate_list', 'badupdate_emptylist', 'badupdate_zero',
                      'badupdate_emptystr', 'partial_clash', 'badstatus_waiting',
                      'badstatus_pending', 'badstatus_rawint_waiting', 'badstatus_rawint_pending']
# updates that are mappings but cannot be merged into the environment (C03 only: whether the
# merge fails depends on which task publishes first, so C01/C02 have no schedule-free model)
OUTCOMES_UNMERGEABLE = ['clash_scalar', 'clash_mapping', 'ownsection_scalar']
ALL_OUTCOMES = OUTCOMES_OK + OUTCOMES_FAIL + OUTCOMES_MALFORMED
FINAL = (TaskStatus.DONE, TaskStatus.FAILED, TaskStatus.SKIPPED)


class ProbeError(Exception):
    pass


SHARED = 'shared-results'     # a top-level key that every probe task contributes to
CONST = 'constant'            # a top-level scalar put in the initial environment (see prepare)


def expected_update(name, version):
    """What a probe task returns: its own section plus one entry under a
    top-level key shared by all tasks (Env.apply merges updates recursively)."""
    return {name: {'payload': {'a': version, 'nested': {'b': version}},
                   'version': version, 'marker': name},
            SHARED: {name: {'v': version}, 'by-version': {name: {str(version): True}}}}


def update_visible(env, name, version):
    """Is the complete update of ``expected_update`` readable from ``env``?"""
    try:
        section = env.get(name)
        shared = env.get(SHARED)
        return (section['payload']['a'] == version
                and section['payload']['nested']['b'] == version
                and section['version'] == version and section['marker'] == name
                and shared[name]['v'] == version
                and shared['by-version'][name][str(version)] is True)
    except (KeyError, TypeError):
        return False


def section_visible(env, name, version):
    """Is the task's own section of ``expected_update`` readable (entries carried over from
    an earlier run have no share in the common key)?"""
    try:
        section = env.get(name)
        return (section['payload']['a'] == version
                and section['payload']['nested']['b'] == version
                and section['version'] == version and section['marker'] == name)
    except (KeyError, TypeError):
        return False


class _NoController:
    """Stand-in used when the probe tasks run on real threads (vlib/realrun.py)."""
    @staticmethod
    def sched_point(_op, _guard=None):
        import time as _time
        _time.sleep(0)      # give the other threads a chance


class Probe(Task):
    def __init__(self, name, outcome, run):
        super().__init__(name)
        self.outcome = outcome
        self.run = run          # RunState
        self.hard = []
        self.soft = []
        self.executions = 0
        self.returned = False
        self.version = 1
        self.echo = False
        self.mapkind = None
        self.nested = None

    def do(self, env, config):
        ctrl = vsched.CTRL if vsched.CTRL is not None else _NoController
        ctrl.sched_point('probe.start')
        self.executions += 1
        seen = {}
        for dep in self.hard + self.soft:
            if dep.name in seen:
                continue
            section = env.get(dep.name)
            status = section.get('status') if isinstance(section, dict) else None
            seen[dep.name] = {
                'status': status,
                'returned': dep.returned,
                'visible': update_visible(env, dep.name, dep.version),
                'visible0': section_visible(env, dep.name, 0),     # entry of an earlier run
                'executions': dep.executions,
            }
        self.run.starts.append((self.name, seen))
        ctrl.sched_point('probe.end')
        if self.nested is not None:
            self.nested()         # this task schedules a graph of its own (see install_nested)
        self.returned = True
        kind = self.outcome
        update = expected_update(self.name, self.version)
        if self.mapkind:
            # the update is a mapping, but not a dict (a read-only view, a UserDict, a ChainMap)
            update = {'proxy': types.MappingProxyType, 'userdict': collections.UserDict,
                      'chainmap': lambda upd: collections.ChainMap({}, upd)}[self.mapkind](update)
        if self.echo and isinstance(update, dict):
            # a task that reads its own section, adds its results to a copy of it and returns
            # the whole section: the copy carries the status (PENDING) and the clocks that the
            # scheduler wrote there; what the scheduler writes at the end must prevail
            own = env.get(self.name)
            update[self.name] = dict(own if isinstance(own, dict) else {}, **update[self.name])
        if kind == 'done':
            return update, TaskStatus.DONE
        if kind == 'failed':
            return update, TaskStatus.FAILED
        if kind == 'raise':
            raise ProbeError(self.name)
        if kind == 'raise_value':              # exception types that the worker itself handles
            raise ValueError(self.name)        # for malformed results
        if kind == 'raise_type':
            raise TypeError(self.name)
        if kind == 'raise_exit':               # not an Exception: a task calling sys.exit()
            raise SystemExit(3)
        if kind == 'none':
            return None
        if kind == 'nonpair':
            return 42
        if kind == 'triple':
            return update, TaskStatus.DONE, 'extra'
        if kind == 'badstatus_str':
            return update, 'fine'
        if kind == 'badstatus_int':
            return update, 7
        if kind == 'badstatus_waiting':        # a task status, but not one a finished task can have
            return update, TaskStatus.WAITING
        if kind == 'badstatus_pending':
            return update, TaskStatus.PENDING
        if kind == 'badstatus_rawint_waiting':   # plain numbers that equal a non-final status
            return update, 1
        if kind == 'badstatus_rawint_pending':
            return update, 2.0
        if kind == 'badupdate_int':
            return 3, TaskStatus.DONE
        if kind == 'badupdate_list':
            return [1, 2], TaskStatus.DONE
        if kind == 'partial_clash':
            # a complete, well-formed update followed by an entry that can never be merged (a
            # mapping for a top-level key that holds a scalar since before the run): whatever is
            # applied of it, the task cannot be seen as DONE -- it fails, whatever the schedule
            return dict(update, **{CONST: {'k': 1}}), TaskStatus.DONE
        if kind == 'clash_scalar':             # two tasks disagree about the type of a shared key
            return {'clash': 3}, TaskStatus.DONE
        if kind == 'clash_mapping':
            return {'clash': {'k': 1}}, TaskStatus.DONE
        if kind == 'ownsection_scalar':        # the task's own section replaced by a scalar
            return {self.name: 5}, TaskStatus.DONE
        if kind == 'badupdate_emptylist':      # falsy things that are not mappings either
            return [], TaskStatus.DONE
        if kind == 'badupdate_zero':
            return 0, TaskStatus.DONE
        if kind == 'badupdate_emptystr':
            return '', TaskStatus.DONE
        raise AssertionError(kind)


class RunState:
    def __init__(self):
        self.starts = []


def all_edges(case):
    return [tuple(e) for e in case['edges']] + [tuple(e) for e in case.get('back', [])]


def deps_of(case):
    """(hard, soft) dependency index sets per task, from the generated graph.

    Group nodes (``case['groups']``, nested dependency graphs used as nodes, see
    :func:`build`) contribute the dependencies they stand for: a task that
    depends on a group comes after every member of the group, every member
    comes after what the group depends on, and a group without members is
    transparent (its dependees come after its dependencies; that relation is
    hard only if both edges are hard)."""
    hard = {i: set() for i in range(case['n'])}
    soft = {i: set() for i in range(case['n'])}

    def add(i, j, kind):
        if kind in ('h', 'b'):
            hard[i].add(j)
        if kind in ('s', 'b'):
            soft[i].add(j)
    for (i, j, kind) in all_edges(case):
        add(i, j, kind)
    for grp in case.get('groups') or ():
        members = range(grp['lo'], grp['hi'])
        for (i, kind) in grp['by']:
            for mem in members:
                add(i, mem, kind)
            if not members:
                for (j, kind2) in grp['deps']:
                    if kind in ('h', 'b') and kind2 in ('h', 'b'):
                        add(i, j, 'b' if kind == 'b' and kind2 == 'b' else 'h')
                    if not (kind == 'h' and kind2 == 'h'):
                        add(i, j, 's')
        for (j, kind2) in grp['deps']:
            for mem in members:
                add(mem, j, kind2)
    return hard, soft


def is_cyclic(case):
    hard, soft = deps_of(case)
    full = {i: hard[i] | soft[i] for i in hard}
    state = {}

    def visit(node):
        if state.get(node) == 1:
            return True
        if state.get(node) == 2:
            return False
        state[node] = 1
        if any(visit(d) for d in full[node]):
            return True
        state[node] = 2
        return False
    return any(visit(i) for i in full)


def model_statuses(case):
    """Reference model (acyclic graphs, empty initial environment): final
    status and expected number of executions per task."""
    hard, _soft = deps_of(case)
    status, execs = {}, {}
    for i in range(case['n']):      # edges go from higher to lower index: 0..n-1 is topological
        if any(status[d] in ('FAILED', 'SKIPPED') for d in hard[i]):
            status[i], execs[i] = 'SKIPPED', 0
        else:
            status[i] = 'DONE' if case['outcomes'][i] == 'done' else 'FAILED'
            execs[i] = 1
    return status, execs


def group_members(case):
    return {mem for grp in case.get('groups') or () for mem in range(grp['lo'], grp['hi'])}


def build(case, run):
    """Probe tasks and the hard / soft graphs handed to Scheduler.

    ``case['order']`` (optional) is the order in which the tasks are inserted
    into the graphs.  ``case['groups']`` (optional) are nested DepGraph objects
    used as nodes, the same object in the hard and in the soft graph: members
    are the tasks lo..hi-1 with their mutual hard edges inside the nested
    graph; ``deps`` = [(task j, kind)] the group depends on, ``by`` = [(task i,
    kind)] depending on the group."""
    tasks = [Probe(f't{i}', case['outcomes'][i], run) for i in range(case['n'])]
    for task in tasks:
        task.echo = bool(case.get('echo'))
        task.mapkind = case.get('mapkind')
    hard, soft = deps_of(case)
    for i, task in enumerate(tasks):
        task.hard = [tasks[j] for j in sorted(hard[i])]
        task.soft = [tasks[j] for j in sorted(soft[i])]
    members = group_members(case)
    inner = set()
    hgraph, sgraph = DepGraph(), DepGraph()
    order = [i % case['n'] for i in case.get('order') or range(case['n'])]
    order += [i for i in range(case['n']) if i not in order]
    for idx in order:
        if idx not in members:
            hgraph.add_node(tasks[idx])
            sgraph.add_node(tasks[idx])
    for grp in case.get('groups') or ():
        nested = DepGraph()
        rng = range(grp['lo'], grp['hi'])
        for mem in rng:
            nested.add_node(tasks[mem])
        for (i, j, kind) in all_edges(case):
            if i in rng and j in rng and kind in ('h', 'b'):
                nested.add_dependency(tasks[i], on=tasks[j])
                inner.add((i, j, 'h'))
        # the group is always a node of the hard graph (its inner edges are hard ones); it
        # enters the soft graph through its soft edges, if any
        hgraph.add_node(nested)
        for (j, kind) in grp['deps']:
            if kind in ('h', 'b'):
                hgraph.add_dependency(nested, on=tasks[j])
            if kind in ('s', 'b'):
                sgraph.add_dependency(nested, on=tasks[j])
        for (i, kind) in grp['by']:
            if kind in ('h', 'b'):
                hgraph.add_dependency(tasks[i], on=nested)
            if kind in ('s', 'b'):
                sgraph.add_dependency(tasks[i], on=nested)
    back = {tuple(e) for e in case.get('back', [])}
    presort = bool(case.get('presort'))
    for late in ((False, True) if presort else (None,)):
        for idx in order:
            for (i, j, kind) in all_edges(case):
                if i != idx or (late is not None and ((i, j, kind) in back) != late):
                    continue
                if kind in ('h', 'b') and (i, j, 'h') not in inner:
                    hgraph.add_dependency(tasks[i], on=tasks[j])
                if kind in ('s', 'b'):
                    sgraph.add_dependency(tasks[i], on=tasks[j])
        if late is False:
            # the graphs are sorted once while still acyclic, then edited (edges that may
            # close a cycle are added between existing nodes), then scheduled
            for graph in (hgraph, sgraph):
                try:
                    graph.topological_sort()
                except Exception:      # pylint: disable=broad-except
                    pass               # (a graph holding nested graph nodes cannot be sorted)
    return tasks, hgraph, sgraph


def shape_labels(case):
    """Labels describing the decorations of the graph (for evidence classes)."""
    labs = []
    if case.get('order'):
        labs.append('insertion-order-permuted')
    if case.get('prelude'):
        labs.append('backend-reused-after-other-graph')
    if case.get('echo'):
        labs.append('tasks-return-their-whole-section')
    if case.get('mapkind'):
        labs.append('updates-are-mappings-but-not-dicts')
    if case.get('nested') is not None:
        labs.append('a-task-schedules-a-graph-of-its-own')
    if case.get('spurious'):
        labs.append('spurious-wakeups')
    if case.get('reloaded'):
        labs.append('initial-env-reloaded')
    if case.get('presort'):
        labs.append('sorted-before-last-edits')
    groups = case.get('groups') or ()
    if groups:
        labs.append('group-nodes')
    for grp in groups:
        if grp['lo'] == grp['hi'] and grp['deps'] and grp['by']:
            labs.append('empty-group-between')
            kinds = {k for (_x, k) in grp['deps']} | {k for (_x, k) in grp['by']}
            if 'h' in kinds and 's' in kinds:
                labs.append('empty-group-between-mixed-kinds')
        if grp['hi'] > grp['lo'] and (grp['deps'] or grp['by']):
            labs.append('group-with-members-and-edges')
    return sorted(set(labs))


class Record:
    """What one controlled run produced."""


def make_schedule(spec):
    kind = spec[0]
    if kind == 'choices':
        return vsched.ChoiceSchedule(spec[1])
    if kind == 'cyclic':
        return vsched.ChoiceSchedule(spec[1], cyclic=True)
    if kind == 'sparse':
        return vsched.SparseSchedule(spec[1])
    if kind == 'pct':
        return vsched.PCTSchedule(spec[1], spec[2])
    raise ValueError(kind)


def initial_entry(name, status, clock):
    """Entry of an earlier run as the back-end leaves it."""
    if status == 'DONE':
        entry = dict(expected_update(name, 0)[name])
        entry.update(status=TaskStatus.DONE, start_clock=float(clock), end_clock=float(clock + 1))
    elif status == 'FAILED':
        entry = dict(status=TaskStatus.FAILED, start_clock=float(clock), end_clock=float(clock + 1))
    else:
        entry = dict(status=TaskStatus.SKIPPED)
    return entry


def prepare(case, envmod):
    """Tasks, graphs and initial environment of a case (``envmod``: the module providing Env)."""
    run = RunState()
    tasks, hgraph, sgraph = build(case, run)
    env = envmod.Env()
    for key, status in sorted((case.get('init') or {}).items()):
        idx = int(key)
        env[tasks[idx].name] = initial_entry(tasks[idx].name, status, -10 + 2 * idx)
    if 'partial_clash' in case['outcomes']:
        env[CONST] = 3
    if case.get('reloaded'):
        # the environment of the earlier run was unpickled (Env.from_file): same path through
        # __getstate__ / __setstate__ (a privately loaded class cannot be pickled by reference)
        state = env.__getstate__()
        env = envmod.Env.__new__(envmod.Env)
        env.__setstate__(state)
    return run, tasks, hgraph, sgraph, env


def install_nested(case, tasks, envmod, smod):
    """``case['nested']`` = index of a task that, while it runs, schedules a two-task graph of its
    own with a Scheduler created WITHOUT a back-end (the documented default); the outer call then
    uses the default back-end too.  Two schedule() calls overlap in time: each has its own graph
    and environment and must come back."""
    if case.get('nested') is None:
        return

    def inner():
        one, two = Probe('inner0', 'done', RunState()), Probe('inner1', 'done', RunState())
        graph = DepGraph()
        graph.add_dependency(two, on=one)
        smod.Scheduler(hard_graph=graph).schedule(env=envmod.Env())
    tasks[int(case['nested']) % len(tasks)].nested = inner


def make_body(case, envmod, qmod, hgraph, sgraph, env, backend_box, passthrough=(), smod=None):
    """The call sequence under test as a closure: [prelude on the same back-end object,]
    Scheduler(...).schedule(env) [, again].  ``passthrough``: exception types of the harness
    that the prelude must not swallow.  ``smod``: the module providing Scheduler (default: the
    real one)."""
    sched_cls = smod.Scheduler if smod is not None else Scheduler

    def body():
        backend = qmod.QueueScheduling(case['workers'])
        backend_box['backend'] = backend
        prelude = case.get('prelude')
        if prelude:
            # the same back-end object first schedules ANOTHER graph over tasks with the same
            # names (own task objects, own environment); whatever that call does -- return or
            # raise -- must not influence the call that is judged
            pcase = {'n': case['n'], 'edges': prelude['edges'], 'workers': case['workers'],
                     'outcomes': prelude.get('outcomes') or ['done'] * case['n']}
            ptasks, phard, psoft = build(pcase, RunState())
            penv = envmod.Env()
            for key, status in sorted((prelude.get('init') or {}).items()):
                penv[ptasks[int(key)].name] = initial_entry(ptasks[int(key)].name, status, -50)
            try:
                Scheduler(hard_graph=phard, soft_graph=psoft, backend=backend).schedule(env=penv)
            except passthrough:
                raise
            except Exception as exc:      # e.g. AssertionError for FAILED initial entries
                backend_box['prelude_raised'] = repr(exc)
        if case.get('nested') is not None:
            sched = sched_cls(hard_graph=hgraph, soft_graph=sgraph)      # default back-end
            backend_box['backend'] = sched.backend
        else:
            sched = sched_cls(hard_graph=hgraph, soft_graph=sgraph, backend=backend)
        res = sched.schedule(env=env)
        for _ in range(int(case.get('again') or 0)):
            # the same Scheduler (and back-end) object is used again on the environment
            # that the previous call left (entries DONE / FAILED / SKIPPED of an earlier run)
            res = sched.schedule(env=env)
        return res
    return body


def execute(case, sched_spec=None, max_steps=20000):
    """Run one case under one schedule; returns a Record."""
    envmod, qmod = vsched.modules()
    run, tasks, hgraph, sgraph, env = prepare(case, envmod)
    backend_box = {}
    smod = vsched.scheduler_module() if case.get('nested') is not None else None
    install_nested(case, tasks, envmod, smod)
    body = make_body(case, envmod, qmod, hgraph, sgraph, env, backend_box,
                     passthrough=(vsched.Abort, vsched.HarnessGap), smod=smod)

    schedule = make_schedule(sched_spec or case['sched'])
    max_steps = max(max_steps, 60 * case['n'])      # wide graphs need more scheduling points
    ctrl, how, value = vsched.run_controlled(schedule, body, max_steps=max_steps,
                                             spurious=case.get('spurious'))
    rec = Record()
    rec.ctrl, rec.how, rec.value = ctrl, how, value
    rec.tasks, rec.env, rec.starts = tasks, env, run.starts
    rec.verdict = ctrl.verdict
    rec.alive_at_return = getattr(ctrl, 'alive_at_return', [])
    rec.leak = getattr(ctrl, 'leak', None)
    rec.deaths = {s['name']: s['died'] for s in ctrl.threads.values() if s['died'] is not None}
    backend = backend_box.get('backend')
    rec.queue_items = len(backend.queue.items) if backend is not None else 0
    rec.queue_unfinished = backend.queue.unfinished if backend is not None else 0
    rec.statuses = {}
    for idx, task in enumerate(tasks):
        section = env.dictionary.get(task.name)
        rec.statuses[idx] = section.get('status') if isinstance(section, dict) else None
    rec.executions = {idx: task.executions for idx, task in enumerate(tasks)}
    return rec


def trace_features(rec):
    """Pre-emption statistics of a run: total, and those that fall between a
    worker's first environment publication after do() and its notify."""
    ctrl = rec.ctrl
    names = {tid: s['name'] for tid, s in ctrl.threads.items()}
    in_window = set()
    window_preempt = 0
    master_waits = 0
    last = None
    for (tid, op, preempt) in ctrl.trace:
        if op == 'probe.end':
            in_window.add(tid)
        elif op == 'cond.notify':
            in_window.discard(tid)
        if op == 'cond.wait' and names.get(tid) == 'master':
            master_waits += 1
        if preempt and last in in_window:
            window_preempt += 1
        last = tid
    return {'preemptions': ctrl.preemptions, 'window_preemptions': window_preempt,
            'master_waits': master_waits, 'steps': ctrl.steps}


def trace_digest(rec):
    import hashlib
    text = ';'.join(f'{tid}:{op}' for (tid, op, _p) in rec.ctrl.trace)
    return hashlib.blake2b(text.encode(), digest_size=8).hexdigest()


# --------------------------------------------------------------------------
# strategies

def _kind():
    return st.sampled_from(['h', 'h', 's', 's', 'b'])


@st.composite
def graphs(draw, max_tasks=7, min_tasks=1):
    n = draw(st.integers(min_tasks, max_tasks))
    density = draw(st.sampled_from([0.2, 0.5, 0.8]))
    edges = []
    for i in range(n):
        for j in range(i):
            if draw(st.floats(0, 1)) < density:
                edges.append((i, j, draw(_kind())))
    return n, edges


@st.composite
def preludes(draw, n, with_init=False):
    """Optional earlier use of the same back-end object on another graph over the same task
    names (dict to merge into the case, possibly empty)."""
    if draw(st.integers(0, 5)) != 0:
        return {}
    _n, edges = draw(graphs(max_tasks=n, min_tasks=n))
    pre = {'edges': edges}
    if draw(st.booleans()):
        pre['outcomes'] = draw(outcomes(n, 0.3))
    if with_init and draw(st.booleans()):
        init = {}
        for i in range(n):
            stt = draw(st.sampled_from([None, None, 'DONE', 'FAILED', 'SKIPPED']))
            if stt:
                init[str(i)] = stt
        if init:
            pre['init'] = init
    return {'prelude': pre}


@st.composite
def extras(draw, n):
    """Optional decorations of a graph over n tasks: insertion order and group
    nodes (nested graphs).  Returns a dict to merge into the case."""
    extra = {}
    if n >= 2 and draw(st.integers(0, 2)) == 0:
        extra['order'] = draw(st.permutations(list(range(n))))
    if draw(st.integers(0, 5)) == 0:
        extra['echo'] = True       # tasks return their whole own section (see Probe.do)
    elif draw(st.integers(0, 5)) == 0:
        extra['mapkind'] = draw(st.sampled_from(['proxy', 'userdict', 'chainmap']))
    if draw(st.integers(0, 11)) == 5:
        extra['nested'] = draw(st.integers(0, n - 1))     # see install_nested
    if draw(st.integers(0, 7)) == 0:
        # Condition.wait may return without a notification after that many scheduling points
        extra['spurious'] = draw(st.sampled_from([2, 5, 15, 40]))
    if draw(st.integers(0, 3)) == 0:
        groups = []
        start = 0
        for _ in range(draw(st.integers(1, 2))):
            if start > n:
                break
            lo = draw(st.integers(start, n))
            hi = draw(st.sampled_from([lo, lo, min(n, lo + 1), min(n, lo + 2)]))
            deps = ([(j, draw(_kind())) for j in draw(st.lists(st.integers(0, lo - 1), max_size=2,
                                                               unique=True))] if lo > 0 else [])
            dependees = ([(i, draw(_kind())) for i in draw(st.lists(st.integers(hi, n - 1), max_size=2,
                                                                    unique=True))] if hi < n else [])
            groups.append({'lo': lo, 'hi': hi, 'deps': deps, 'by': dependees})
            start = hi + 1
        if groups:
            extra['groups'] = groups
    return extra


def wide_cases():
    """Graphs far wider than the generated ones (hundreds to thousands of tasks that are ready at
    the same time, a few failures, one task that softly depends on the first and the last):
    the region where sizes of queues and pools matter.  One fixed schedule each."""
    for n, workers in ((300, 3), (1100, 1), (1100, 2), (2100, 2)):
        outs = ['done'] * n
        for k, bad in zip((3, n // 2, n - 2), ('failed', 'raise', 'none')):
            outs[k] = bad
        yield {'n': n, 'edges': [(n - 1, 0, 's'), (n - 1, n - 2, 's'), (n - 3, 3, 'h')],
               'outcomes': outs, 'workers': workers, 'sched': ('choices', [])}


def outcomes(n, fail_weight, unmergeable=False):
    """Per-task outcome; ``fail_weight`` in [0, 1] is the share of failing kinds.
    Among the failing kinds, FAILED / raise take half, the malformed returns
    (all of them, uniformly) the other half."""
    bad = st.one_of(st.sampled_from(OUTCOMES_FAIL), st.sampled_from(OUTCOMES_MALFORMED))
    if unmergeable:
        bad = st.one_of(bad, bad, st.sampled_from(OUTCOMES_UNMERGEABLE))
    one = st.tuples(st.integers(0, 999), bad).map(
        lambda pair: pair[1] if pair[0] < int(fail_weight * 1000) else 'done')
    return st.lists(one, min_size=n, max_size=n)


def schedules(max_len=80):
    choices = st.tuples(st.just('choices'),
                        st.lists(st.sampled_from([0, 0, 0, 1, 1, 2, 3]), max_size=max_len))
    dense = st.tuples(st.just('choices'), st.lists(st.integers(0, 7), max_size=max_len))
    pct = st.tuples(st.just('pct'), st.lists(st.integers(0, 9), min_size=1, max_size=6),
                    st.lists(st.integers(1, 150), max_size=3))
    sparse = st.tuples(st.just('sparse'),
                       st.lists(st.tuples(st.integers(0, 40 * 8), st.integers(1, 3)),
                                min_size=1, max_size=10))
    cyclic = st.tuples(st.just('cyclic'),
                       st.lists(st.sampled_from([0, 0, 0, 0, 1, 2]), min_size=3, max_size=40))
    kind = st.sampled_from(['choices', 'dense', 'pct', 'sparse', 'cyclic', 'cyclic'])
    table = {'choices': choices, 'dense': dense, 'pct': pct, 'sparse': sparse, 'cyclic': cyclic}
    return kind.flatmap(lambda k: table[k])


def dfs_run(case, max_preemptions, visit, limit=None, max_steps=20000, part=(0, 1)):
    """Depth-first enumeration of all schedules with <= max_preemptions
    pre-emptions; ``visit(choices, rec)`` is called for every schedule."""
    def run(choices, structure_only=False):
        rec = execute(case, ('choices', choices), max_steps=max_steps)
        if not structure_only:
            visit(choices, rec)
        return rec.ctrl.decisions
    count = 0
    for _ in vsched.dfs_schedules(run, max_preemptions, limit=limit, part=part):
        count += 1
    return count
