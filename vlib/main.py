"""Entry point: python -m vlib.main <ID> [--tier quick|thorough] [--replay FILE]"""
import argparse
import glob
import importlib
import json
import logging
import os
import sys
import time
import traceback
import warnings


def _load_check(prop_id):
    from . import core
    pats = glob.glob(os.path.join(core.VERIF, 'checks', prop_id.lower() + '_*.py'))
    if len(pats) != 1:
        raise core.HarnessError(f'no unique check module for {prop_id}: {pats}')
    name = 'checks.' + os.path.basename(pats[0])[:-3]
    return importlib.import_module(name)


def _write_evidence(check, tier, seed, tally, wall, violations, extra_cov, known_seen):
    from . import core
    cov = {
        'evaluations': tally.evaluations,
        'distinct_nontrivial': len(tally.nontrivial_keys),
        'rule': check.RULE,
        'samples': tally.samples[:8],
        'classes': dict(sorted(tally.labels.items())),
        'origins': dict(sorted(tally.origins.items())),
        'cases_by_origin': dict(sorted(tally.case_counts.items())),
        'buckets': {sig: {'count': b['count'], 'clause': b['clause'], 'detail': b['detail'][:300]}
                    for sig, b in sorted(tally.buckets.items())},
        'known_findings_seen': known_seen,
        'excluded_or_boundary': tally.excluded,
        'budget_exhausted': tally.budget_exhausted,
        'source_tree': core.SRC,
    }
    cov.update(extra_cov or {})
    evid = {
        'property_id': check.ID, 'tier': tier, 'seed': seed, 'level': check.LEVEL,
        'coverage': cov, 'assumptions': list(getattr(check, 'ASSUMPTIONS', [])),
        'wall_s': round(wall, 2), 'violations': violations,
    }
    evdir = os.environ.get('VERIF_EVIDENCE_DIR') or (
        os.path.join(core.VERIF, 'evidence') if os.path.realpath(core.SRC) == '/repo'
        else os.path.join(core.VERIF, '.work', 'evidence-other-tree'))
    path = os.path.join(evdir, check.ID + '.json')
    os.makedirs(os.path.dirname(path), exist_ok=True)
    tmp = path + '.tmp'
    with open(tmp, 'w') as fil:
        json.dump(evid, fil, indent=1, sort_keys=True, default=str)
    os.replace(tmp, path)


def main(argv=None):
    from . import core, jsonio
    parser = argparse.ArgumentParser()
    parser.add_argument('id')
    parser.add_argument('--tier', default=os.environ.get('VERIF_TIER') or 'quick',
                        choices=['quick', 'thorough'])
    parser.add_argument('--replay')
    args = parser.parse_args(argv)
    seed = int(os.environ.get('VERIF_SEED') or 1)
    prop_id = args.id.upper()

    warnings.simplefilter('ignore')
    logging.disable(logging.CRITICAL)
    try:
        import numpy as np
        np.seterr(all='ignore')
    except ImportError:
        pass

    check = _load_check(prop_id)
    known = core.load_known(prop_id)
    core.CTX['check'] = check
    core.CTX['known'] = known
    if hasattr(check, 'setup'):
        check.setup(args.tier)

    if args.replay:
        data, case = core.read_replay(args.replay)
        outcome = core.guarded_run(check, case)
        bad = 0
        for fail in outcome.failures:
            entry = core.match_known(check, known, case, fail)
            if entry:
                print(f'KNOWN-FINDING: property={prop_id} {entry["id"]}: {entry["what"]}')
            else:
                bad += 1
                print(f'FAILURE clause={fail.clause} signature={fail.signature} '
                      f'detail={fail.detail}')
        if bad:
            print(f'VIOLATION property={prop_id} replay={args.replay}')
            return 1
        print(f'replay of {args.replay}: no violation '
              f'({len(outcome.failures)} failure(s), all known)')
        return 0

    t0 = time.monotonic()
    tally = core.Tally()
    # tier 0: committed regression corpus (known findings, fixed defects, seeded escapes)
    for path in ([] if os.environ.get('VERIF_NO_CORPUS') else core.corpus_files(prop_id)):
        _data, case = core.read_replay(path)
        outcome = core.guarded_run(check, case)
        tally.add(case, outcome, 'corpus')

    explored, per_shard, extras = core.explore(check, args.tier, seed)
    tally.merge(explored)

    # generator health: class floors
    gen_n = tally.case_counts.get('generated', 0)
    # (with failures at hand they are what gets reported: a broken tree may also shift the class
    # fractions, and that must not turn a VIOLATION into a harness error)
    floors = {} if tally.buckets else getattr(check, 'FLOORS', {})
    for label, floor in floors.items():
        frac = tally.labels.get(label, 0) / max(1, gen_n)
        # (20 % slack: the floors were set from measured fractions at a few seeds)
        if gen_n and frac < 0.8 * floor and not tally.budget_exhausted:
            raise core.HarnessError(
                f'generator floor not met: class {label!r} is {frac:.4f} < {floor}')

    violations = 0
    lines = []
    known_seen = dict(sorted(tally.known_seen.items()))
    for entry in known:
        if entry['id'] in known_seen:
            lines.append(f'KNOWN-FINDING: property={prop_id} {entry["id"]}: {entry["what"]}')
    shrunk_buckets = 0
    max_shrunk = int(os.environ.get('VERIF_MAX_SHRINK', 4))   # the others keep their smallest seen case
    for sig, buck in sorted(tally.buckets.items()):
        case = jsonio.dec(buck['case'])
        fail = core.Failure(buck['clause'], sig, buck['detail'])
        violations += 1
        shrunk = False
        detail = buck['detail']
        case_enc = buck['case']
        if (buck['origin'] == 'generated' and buck.get('shard') is not None
                and not sig.endswith('/no_termination') and shrunk_buckets < max_shrunk):
            shrunk_buckets += 1
            found = core.shrink_bucket(check, args.tier, seed * 1000 + buck['shard'],
                                       per_shard[buck['shard']], sig,
                                       seconds=int(check.BUDGET[args.tier].get('shrink_s', 45)))
            if found:
                case_enc, detail, shrunk = jsonio.enc(found['case']), found['detail'], True
        path = core.write_replay(prop_id, sig, case_enc, detail, shrunk)
        lines.append(f'# bucket {sig} count={buck["count"]} origin={buck["origin"]}: {detail[:200]}')
        lines.append(f'VIOLATION property={prop_id} replay={path}')

    extra_cov = {}
    for ex in extras:
        for key, val in (ex or {}).items():
            if isinstance(val, (int, float)) and not isinstance(val, bool):
                extra_cov[key] = extra_cov.get(key, 0) + val
            else:
                extra_cov[key] = val
    if hasattr(check, 'enumerations'):
        exh = {name: bool(e) and ('enum-incomplete:' + name) not in tally.labels
               for name, _g, e in check.enumerations(args.tier)}
        extra_cov['enumerations'] = exh
        if exh and all(exh.values()) and not gen_n:
            extra_cov['exhaustive'] = True
    wall = time.monotonic() - t0
    _write_evidence(check, args.tier, seed, tally, wall, violations, extra_cov, known_seen)
    for line in lines:
        print(line)
    print(f'{prop_id} tier={args.tier} seed={seed}: {tally.evaluations} cases, '
          f'{len(tally.nontrivial_keys)} distinct non-trivial, '
          f'{len(tally.buckets)} failure bucket(s), {violations} violation(s), '
          f'{len(known_seen)} known finding(s), {wall:.1f}s')
    return 1 if violations else 0


if __name__ == '__main__':
    try:
        code = main()
    except SystemExit:
        raise
    except BaseException as exc:   # harness error: never a VIOLATION
        sys.stdout.flush()
        sys.stderr.write('HARNESS ERROR\n' + ''.join(traceback.format_exception(exc)))
        code = 2
    sys.stdout.flush()
    sys.stderr.flush()
    os._exit(code)
