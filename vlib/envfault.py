"""Helpers of the C14 check: the ``open`` seam of ``valjean/cosette/env.py``
(interrupted writes, failing reads), construction of picklable payloads from
plain case values, and a type-strict, array-aware deep comparison.

The seam.  ``env.py`` calls the builtin ``open``; the name is resolved through
the module globals first, so a module-level attribute ``open`` shadows the
builtin for the code of that module only (same idea as the substituted
imports/builtins of ``vsched.load_private``).  A *privately loaded second copy*
of ``env.py`` cannot be used here: ``pickle`` stores ``Env`` by reference and
refuses to dump an instance of a class that is not
``sys.modules['valjean.cosette.env'].Env``.  The seam delegates to the real
``open`` unless a fault has been armed for exactly that path and mode.
"""
import builtins
import collections
import datetime
import decimal
import errno as _errno
import fractions
import pathlib
import os
import struct
import sys

import numpy as np

ERRNOS = {'ENOSPC': _errno.ENOSPC, 'EIO': _errno.EIO, 'EACCES': _errno.EACCES,
          'EDQUOT': _errno.EDQUOT}


class Killed(BaseException):
    """The process 'dies' inside a write (not an Exception: nothing in the
    code under test may catch it)."""


class Plan:
    """Faults armed for the next call(s) into the code under test."""

    def __init__(self):
        self.reset()

    def reset(self):
        self.write = {}    # path -> dict(after, errno, mode) ; mode: oserror | kill | open_err
        self.read = {}     # path -> dict(kind: eio_read | eacces_open | eio_open, after)
        self.log = []      # dicts: path, mode, fired, written
        self.opens = 0


PLAN = Plan()


class _FaultyWriter:
    """Binary file that lets ``after`` bytes reach the disk, then fails."""

    def __init__(self, raw, spec, rec):
        self.raw, self.spec, self.rec = raw, spec, rec
        self.done = 0

    def _fail(self):
        self.rec['fired'] = True
        if self.spec['mode'] == 'kill':
            raise Killed()
        num = ERRNOS[self.spec['errno']]
        raise OSError(num, os.strerror(num))

    def write(self, data):
        data = bytes(data)
        if self.rec['fired']:
            self._fail()
        room = self.spec['after'] - self.done
        if len(data) <= room:
            self.raw.write(data)
            self.done += len(data)
            self.rec['written'] = self.done
            return len(data)
        if room > 0:
            self.raw.write(data[:room])
            self.done += room
        self.rec['written'] = self.done
        self._fail()
        return 0

    def flush(self):
        self.raw.flush()

    def truncate(self, size=None):
        return self.raw.truncate(size) if size is not None else self.raw.truncate()

    def __getattr__(self, attr):          # tell, seek, fileno, ...
        return getattr(self.raw, attr)

    def close(self):
        self.raw.close()
        self.rec['closed'] = True

    def __enter__(self):
        return self

    def __exit__(self, *exc):
        self.close()
        return False


class _FaultyReader:
    """Binary file whose reads fail with EIO once they would go beyond
    ``after`` bytes (a short read would look like a truncated file to pickle,
    which is a different fault)."""

    def __init__(self, raw, spec, rec):
        self.raw, self.spec, self.rec = raw, spec, rec
        self.done = 0
        self.size = os.fstat(raw.fileno()).st_size

    def _fail(self):
        self.rec['fired'] = True
        raise OSError(_errno.EIO, os.strerror(_errno.EIO))

    def read(self, size=-1):
        left = self.size - self.done
        want = left if size is None or size < 0 else min(size, left)
        if self.done + want > self.spec['after']:
            self._fail()
        data = self.raw.read(want)
        self.done += len(data)
        return data

    def readline(self):
        data = self.raw.readline()
        if self.done + len(data) > self.spec['after']:
            self._fail()
        self.done += len(data)
        return data

    def close(self):
        self.raw.close()

    def __enter__(self):
        return self

    def __exit__(self, *exc):
        self.close()
        return False


def seam_open(path, mode='r', *args, **kwargs):
    """Replacement of ``open`` seen by the code of ``valjean.cosette.env``."""
    try:
        key = os.fspath(path)
    except TypeError:
        return builtins.open(path, mode, *args, **kwargs)
    PLAN.opens += 1
    if 'b' in mode and ('w' in mode or 'a' in mode or 'x' in mode):
        rec = {'path': key, 'mode': mode, 'fired': False, 'written': None, 'closed': False}
        PLAN.log.append(rec)
        spec = PLAN.write.get(key)
        if spec is not None:
            if spec['mode'] == 'open_err':
                rec['fired'] = True
                num = ERRNOS[spec['errno']]
                raise OSError(num, os.strerror(num), key)
            return _FaultyWriter(builtins.open(path, mode, buffering=0), spec, rec)
        # no fault armed for this path: plain write, but its completion is logged
        return _FaultyWriter(builtins.open(path, mode, buffering=0),
                             {'after': float('inf'), 'mode': 'none'}, rec)
    elif 'b' in mode and 'r' in mode and '+' not in mode:
        spec = PLAN.read.get(key)
        if spec is not None:
            rec = {'path': key, 'mode': mode, 'fired': False}
            PLAN.log.append(rec)
            if spec['kind'] == 'eacces_open':
                rec['fired'] = True
                raise PermissionError(_errno.EACCES, os.strerror(_errno.EACCES), key)
            if spec['kind'] == 'eio_open':
                rec['fired'] = True
                raise OSError(_errno.EIO, os.strerror(_errno.EIO), key)
            return _FaultyReader(builtins.open(path, mode), spec, rec)
    return builtins.open(path, mode, *args, **kwargs)


class _OsProxy:
    """Stands in for the ``os`` module inside ``valjean.cosette.env`` when that module
    imports it: files opened with ``os.open`` + ``os.fdopen`` go through the same fault
    injection as files opened with the builtin ``open``."""

    def __init__(self):
        self._paths = {}

    def __getattr__(self, attr):
        return getattr(os, attr)

    def open(self, path, flags, *args, **kwargs):
        desc = os.open(path, flags, *args, **kwargs)
        try:
            self._paths[desc] = os.fspath(path)
        except TypeError:
            pass
        return desc

    def fdopen(self, desc, mode='r', *args, **kwargs):
        key = self._paths.pop(desc, None)
        if key is None or 'b' not in mode or not ('w' in mode or 'a' in mode or 'x' in mode
                                                   or '+' in mode):
            return os.fdopen(desc, mode, *args, **kwargs)
        PLAN.opens += 1
        rec = {'path': key, 'mode': mode, 'fired': False, 'written': None, 'closed': False}
        PLAN.log.append(rec)
        spec = PLAN.write.get(key)
        if spec is not None and spec['mode'] == 'open_err':
            os.close(desc)
            rec['fired'] = True
            num = ERRNOS[spec['errno']]
            raise OSError(num, os.strerror(num), key)
        raw = os.fdopen(desc, mode, buffering=0)
        return _FaultyWriter(raw, spec if spec is not None
                             else {'after': float('inf'), 'mode': 'none'}, rec)


def install(envmod):
    """Shadow the builtin ``open`` (and ``os``, if imported) inside module ``envmod``."""
    envmod.__dict__['open'] = seam_open
    if 'os' in envmod.__dict__ and not isinstance(envmod.__dict__['os'], _OsProxy):
        envmod.__dict__['os'] = _OsProxy()


# --------------------------------------------------------------------------
# payloads

TS_TAG = '$TS'


OBJ_TAG = '$OBJ'
Score = collections.namedtuple('Score', ['value', 'sigma'])    # a class of "the job's module"


def _make_object(kind, arg):
    """Instances of picklable classes that live outside builtins / numpy / valjean: what the
    functions of a real job put in their results."""
    if kind == 'fraction':
        return fractions.Fraction(arg[0], arg[1])
    if kind == 'decimal':
        return decimal.Decimal(arg)
    if kind == 'timedelta':
        return datetime.timedelta(seconds=arg)
    if kind == 'path':
        return pathlib.PurePosixPath(arg)
    if kind == 'score':
        return Score(arg[0], arg[1])
    if kind == 'ordereddict':
        return collections.OrderedDict((str(k), k) for k in arg)
    if kind == 'frozenset':
        return frozenset(arg)
    if kind == 'cyclic':
        # a small tree whose nodes know their parent, and one list referenced twice
        root = {'name': 'root', 'children': [], 'level': arg}
        for k in range(2):
            root['children'].append({'name': k, 'parent': root})
        grid = [0.0, 1.0, float(arg)]
        return {'tree': root, 'bins': grid, 'edges': grid}
    if kind == 'deep':
        # a chain of lists, each holding the next one (picklable, but deeper than what a
        # recursive Python function can walk under the default recursion limit)
        chain = None
        for _ in range(arg):
            chain = [chain]
        return chain
    raise ValueError(kind)


def materialise(val, status_enum):
    """Plain case value -> payload object (``('$TS', name)`` -> TaskStatus, ``('$OBJ', kind,
    arg)`` -> instance of a standard-library / user class)."""
    if isinstance(val, tuple):
        if len(val) == 3 and isinstance(val[0], str) and val[0] == OBJ_TAG:
            return _make_object(val[1], val[2])
        if len(val) == 2 and isinstance(val[0], str) and val[0] == TS_TAG \
                and isinstance(val[1], str) \
                and val[1] in status_enum.__members__:
            return status_enum[val[1]]
        return tuple(materialise(x, status_enum) for x in val)
    if isinstance(val, list):
        return [materialise(x, status_enum) for x in val]
    if isinstance(val, dict):
        return {materialise(k, status_enum) if isinstance(k, tuple) else k:
                materialise(v, status_enum) for k, v in val.items()}
    if isinstance(val, np.ndarray):
        return val.copy()
    return val


def same(left, right):
    """Type-strict deep equality; floats by bit pattern (NaN == same NaN,
    0.0 != -0.0), arrays by dtype, shape and bytes.  Iterative (payloads may be
    deeper than the recursion limit); containers that contain themselves are
    compared as graphs (a pair of containers met again is taken as equal)."""
    seen = set()
    todo = [(left, right)]
    while todo:
        left, right = todo.pop()
        if type(left) is not type(right):
            return False
        if isinstance(left, float):
            if struct.pack('<d', left) != struct.pack('<d', right):
                return False
        elif isinstance(left, np.ndarray):
            if not (left.dtype == right.dtype and left.shape == right.shape
                    and left.tobytes() == right.tobytes()):
                return False
        elif isinstance(left, (list, tuple, dict)):
            pair = (id(left), id(right))
            if pair in seen:
                continue
            seen.add(pair)
            if len(left) != len(right):
                return False
            if isinstance(left, dict):
                rkeys = {(type(k), k): k for k in right}
                for key, val in left.items():
                    if (type(key), key) not in rkeys:
                        return False
                    todo.append((val, right[rkeys[(type(key), key)]]))
            else:
                todo.extend(zip(left, right))
        elif left != right:
            return False
    return True


def diff_keys(left, right):
    """Top-level keys of two entry dicts whose values differ (or are missing)."""
    if not isinstance(left, dict) or not isinstance(right, dict):
        return ['<not-a-dict>']
    bad = [k for k in left if k not in right or not same(left[k], right[k])]
    bad += [k for k in right if k not in left]
    return bad
