"""Helpers of the C11 check (truncated Tripoli-4 listings).

* the pool of shipped listings (``/repo/tests``) and a byte-exact line table
  with the class of every line the scanner interprets;
* a segmentation of a listing into head / batch blocks / editions / response
  blocks / tail, and a builder of *synthetic* listings that recombines whole
  blocks of shipped listings (never invents layout);
* ``observe``: one execution of the code under test on a file
  (``Parser(path)`` then ``parse_from_number`` / ``parse_from_index``) reduced
  to plain values (outcome classes and digests of the results);
* a *pristine server*: a freshly exec'ed interpreter that forks once per
  request, so that every request is served in the state of a process that has
  not parsed anything yet ("the first time in a fresh process").

The module can be run as ``python -m vlib.t4trunc --serve`` (the server).
"""
import bisect
import hashlib
import os
import pickle
import select
import shutil
import signal
import struct
import subprocess
import sys
import tempfile
import time
import traceback

TESTS_ROOT = '/repo/tests'      # listings are data: always the shipped ones, whatever VALJEAN_SRC is
DATA_DIRS = ('eponine/tripoli4/data', 'integration/data')
SHM = '/dev/shm' if os.path.isdir('/dev/shm') else '/var/tmp'

END_FLAGS = (b'simulation time', b'exploitation time', b'elapsed time')
RESP_RULE = b'*' * 78


# --------------------------------------------------------------------------
# shipped listings

_SHIPPED = None


def shipped():
    """[(name, bytes)] of the Tripoli-4 listings shipped under /repo/tests, sorted by name."""
    global _SHIPPED
    if _SHIPPED is None:
        found = []
        for sub in DATA_DIRS:
            path = os.path.join(TESTS_ROOT, sub)
            for fname in sorted(os.listdir(path)):
                if '.res' not in fname:
                    continue
                with open(os.path.join(path, fname), 'rb') as fil:
                    data = fil.read()
                name = fname if sub == DATA_DIRS[0] else 'integration/' + fname
                found.append((name, data))
        found.sort()
        _SHIPPED = found
    return _SHIPPED


def shipped_by_name(name):
    for nam, data in shipped():
        if nam == name:
            return data
    raise KeyError(name)


def short_id(data):
    return hashlib.blake2b(data, digest_size=6).hexdigest()


# --------------------------------------------------------------------------
# line table and line classes (used for offset selection, labels and the
# non-triviality rule -- never by the oracle)

def classify_line(line):
    """Class of a *complete* line among those the scanner interprets, else 'other'."""
    if b'Edition after batch number' in line:
        return 'edition_after'
    if line.startswith(b' batch number :'):
        return 'batch_number'
    if b'initialization time' in line:
        return 'initialization_time'
    for flag in END_FLAGS:
        if flag in line:
            return 'end_flag'
    if b'RESULTS ARE GIVEN' in line:
        return 'results_are_given'
    if b'number of batches used' in line:
        return 'batches_used'
    if b'PACKET_LENGTH' in line:
        return 'packet_length'
    if b'number of tasks' in line:
        return 'tasks'
    if b'BATCH_PER_SIMULATOR' in line:
        return 'batch_per_simulator'
    if b'BATCH' in line.split():
        return 'batch_keyword'
    if b'#' * 64 in line:
        return 'hashes'
    if b'DUMP HOMOGENIZED MATERIAL' in line:
        return 'dump_homog'
    if b'PARTIAL EDITION' in line:
        return 'partial_edition'
    if b'NORMAL COMPLETION' in line:
        return 'normal_completion'
    if b'WARNING' in line or b'ERROR' in line:
        return 'warning_error'
    if line.startswith(b' number of batch'):
        return 'number_of_batch'
    if b'Type and parameters of random generator' in line or b'COUNTER' in line:
        return 'generator_state'
    return 'other'


class Table:
    """Byte-exact line table of a listing."""

    def __init__(self, data):
        self.data = data
        self.size = len(data)
        self.lines = data.splitlines(keepends=True)
        self.starts = []
        pos = 0
        for line in self.lines:
            self.starts.append(pos)
            pos += len(line)
        self.classes = [classify_line(line) for line in self.lines]
        self.content_end = [s + len(line.rstrip(b'\r\n')) for s, line in zip(self.starts, self.lines)]
        # editions: (index of the RESULTS ARE GIVEN line, index of its end-flag line or None)
        self.editions = []
        idx = 0
        nlines = len(self.lines)
        seen_init = False
        while idx < nlines:
            cls = self.classes[idx]
            if cls == 'initialization_time':
                seen_init = True
            if cls == 'results_are_given' and seen_init:
                end = None
                for jdx in range(idx, nlines):
                    if self.classes[jdx] == 'end_flag':
                        end = jdx
                        break
                self.editions.append((idx, end))
                if end is None:
                    break
                idx = end + 1
                continue
            idx += 1

    def line_of(self, offset):
        """Index of the line that contains byte ``offset - 1`` (the last byte of the prefix)."""
        if offset <= 0 or not self.lines:
            return None
        return bisect.bisect_right(self.starts, offset - 1) - 1

    def cut_class(self, offset):
        """('boundary', None) if the prefix ends at a line boundary (or is empty), else
        (class of the line that is cut, True if at least one character of its content is missing)."""
        idx = self.line_of(offset)
        if idx is None:
            return 'boundary', False
        end = self.starts[idx] + len(self.lines[idx])
        if offset == end:
            return 'boundary', False
        return self.classes[idx], offset < self.content_end[idx]

    def context(self, offset):
        """Structural position of a prefix: numbers of complete / started editions."""
        complete = 0
        started = 0
        for rag, end in self.editions:
            if self.starts[rag] < offset:
                started += 1
            if end is not None and self.starts[end] + len(self.lines[end]) <= offset:
                complete += 1
        return complete, started

    def interpreted_windows(self, margin, per_class=None):
        """Sorted offsets inside, or within ``margin`` bytes of, an interpreted line.  With
        ``per_class`` only that many instances of every class are used (first, last, evenly
        spread in between)."""
        by_class = {}
        for idx, cls in enumerate(self.classes):
            if cls != 'other':
                by_class.setdefault(cls, []).append(idx)
        chosen = []
        for cls, idxs in sorted(by_class.items()):
            if per_class is not None and len(idxs) > per_class:
                step = (len(idxs) - 1) / (per_class - 1) if per_class > 1 else 0
                idxs = sorted({idxs[round(i * step)] for i in range(per_class)})
            chosen.extend(idxs)
        offsets = set()
        for idx in chosen:
            lo = max(0, self.starts[idx] - margin)
            hi = min(self.size, self.starts[idx] + len(self.lines[idx]) + margin)
            offsets.update(range(lo, hi + 1))
        return sorted(offsets)


_TABLES = {}


def table(data):
    key = short_id(data)
    tab = _TABLES.get(key)
    if tab is None:
        if len(_TABLES) > 64:
            _TABLES.clear()
        tab = _TABLES[key] = Table(data)
    return tab


# --------------------------------------------------------------------------
# segmentation and synthetic listings

class Segments:
    """head | (inter, edition)* | tail, all as lists of whole lines.

    * head: up to and including the ``initialization time`` line;
    * inter[i]: the lines between the previous edition (or the head) and edition i, split into
      *batch blocks* (a block starts at a `` batch number :`` line; lines before the first one form
      block 0);
    * edition i: from the line of ``*`` preceding ``RESULTS ARE GIVEN`` to its end-flag line, split
      into preamble / response blocks (a block starts at the rule of 78 ``*`` that precedes
      ``RESPONSE FUNCTION``) / the end-flag line;
    * tail: everything after the last edition.
    """

    def __init__(self, data):
        tab = table(data)
        self.ok = False
        lines = tab.lines
        init = next((i for i, c in enumerate(tab.classes) if c == 'initialization_time'), None)
        eds = [(r, e) for r, e in tab.editions if e is not None]
        if init is None or not eds:
            return
        self.head = lines[:init + 1]
        self.inter = []
        self.editions = []
        prev = init + 1
        for rag, end in eds:
            start = rag
            # the rule of '*' (and blank lines) that precede RESULTS ARE GIVEN belong to the edition
            while start - 1 >= prev and (lines[start - 1].strip() == b''
                                         or set(lines[start - 1].strip()) == {ord('*')}):
                start -= 1
            self.inter.append(self._batch_blocks(lines[prev:start]))
            self.editions.append(self._edition(lines[start:end + 1]))
            prev = end + 1
        self.tail = lines[prev:]
        self.ok = True

    @staticmethod
    def _batch_blocks(lines):
        blocks = [[]]
        for line in lines:
            if line.startswith(b' batch number :'):
                blocks.append([])
            blocks[-1].append(line)
        return blocks

    @staticmethod
    def _edition(lines):
        starts = [i for i in range(len(lines) - 1)
                  if lines[i].strip() == RESP_RULE and lines[i + 1].startswith(b'RESPONSE FUNCTION')]
        body_end = len(lines) - 1          # the end-flag line
        if not starts:
            return {'pre': lines[:body_end], 'blocks': [], 'end': lines[body_end:]}
        blocks = [lines[a:b] for a, b in zip(starts, starts[1:] + [body_end])]
        return {'pre': lines[:starts[0]], 'blocks': blocks, 'end': lines[body_end:]}


_SEGMENTS = {}


def segments(name):
    seg = _SEGMENTS.get(name)
    if seg is None:
        seg = _SEGMENTS[name] = Segments(shipped_by_name(name))
    return seg


def is_para(name):
    return any(b'number of tasks is' in line for line in segments(name).head)


def bases():
    """Names of the shipped listings that can be segmented (>= 1 complete edition)."""
    return [name for name, _ in shipped() if segments(name).ok]


# lines with characters that take several bytes in UTF-8 (comments of the echoed data file,
# messages of the job script between two editions): the scanner does not interpret them
NOTES = [' // vérification de la géométrie : données révisées à l\'été\n'.encode('utf-8'),
         ' sauvegarde des résultats terminée — répertoire /home/rené/résultats\n'.encode('utf-8'),
         ' ÉNERGIE déposée (µSv) – contrôle\n'.encode('utf-8')]


def note_offsets(data):
    """Offsets of ``data`` at which a cut falls inside a multi-byte character of a note."""
    offs = []
    for note in NOTES:
        start = data.find(note)
        while start >= 0:
            offs += [start + k for k, byte in enumerate(note) if 0x80 <= byte < 0xC0]
            start = data.find(note, start + 1)
    return sorted(set(offs))


def build_synthetic(recipe):
    """Bytes of the synthetic listing described by ``recipe`` (plain dict, every index is taken
    modulo the size of the pool it points into):

    ``base``   index into bases(): the listing the editions come from
    ``head``   None (own head) or index into the heads of the listings of the same kind
               (sequential / parallel) whose head is at most 6 KiB
    ``eds``    non-empty list of edition picks; the editions are used in listing order, without
               repetition (a pick indexes the editions not picked yet; picks beyond the number of
               editions are ignored); each pick is {'ed': index, 'keep': number of trailing batch blocks of the
               text before the edition that are kept (None = all), 'resp': None (all response blocks)
               or a list of indices into the response blocks except the last one; the last block,
               which carries the sections that close an edition, always stays last}
    ``tail``   bool: keep the text after the last edition
    ``notes``  optional list of {'where': 'head' | 'after', 'at': index, 'text': index}: a line of
               NOTES inserted after a line of the head / after the end of a chosen edition
    """
    names = bases()
    base = names[recipe['base'] % len(names)]
    seg = segments(base)
    head = seg.head
    if recipe.get('head') is not None:
        kind = is_para(base)
        donors = [n for n in names if is_para(n) == kind
                  and sum(map(len, segments(n).head)) <= 6144]
        if donors:
            head = segments(donors[recipe['head'] % len(donors)]).head
    picks = {}
    remaining = list(range(len(seg.editions)))
    for pick in recipe['eds']:
        if not remaining:
            break
        picks[remaining.pop(pick['ed'] % len(remaining))] = pick
    out = list(head)
    notes = recipe.get('notes') or []
    for note in notes:
        if note['where'] == 'head' and out:
            out.insert(1 + note['at'] % len(out), NOTES[note['text'] % len(NOTES)])
    for rank, idx in enumerate(sorted(picks)):
        pick = picks[idx]
        blocks = seg.inter[idx]
        keep = pick.get('keep')
        if keep is not None:
            blocks = blocks[len(blocks) - min(keep % 4, len(blocks)):] if keep % 4 else []
        for block in blocks:
            out.extend(block)
        edi = seg.editions[idx]
        out.extend(edi['pre'])
        resp = pick.get('resp')
        if resp is None or len(edi['blocks']) < 2:
            chosen = edi['blocks']
        else:
            inner = edi['blocks'][:-1]
            chosen = [inner[i % len(inner)] for i in resp] + [edi['blocks'][-1]]
        for block in chosen:
            out.extend(block)
        out.extend(edi['end'])
        for note in notes:
            if note['where'] == 'after' and note['at'] % len(picks) == rank:
                out.append(NOTES[note['text'] % len(NOTES)])
    if recipe.get('tail', True):
        out.extend(seg.tail)
    return b''.join(out)


# --------------------------------------------------------------------------
# canonical digests of parse results

def _feed(hsh, obj):
    import numpy as np
    from valjean.eponine.dataset import Dataset
    if isinstance(obj, dict):
        hsh.update(b'D%d{' % len(obj))
        for key in sorted(obj, key=lambda k: (type(k).__name__, str(k))):
            _feed(hsh, key)
            hsh.update(b':')
            _feed(hsh, obj[key])
        hsh.update(b'}')
    elif isinstance(obj, (list, tuple)):
        hsh.update(b'L%d[' % len(obj) if isinstance(obj, list) else b'T%d[' % len(obj))
        for item in obj:
            _feed(hsh, item)
            hsh.update(b',')
        hsh.update(b']')
    elif isinstance(obj, Dataset):
        hsh.update(b'DS(')
        _feed(hsh, obj.name)
        _feed(hsh, obj.what)
        _feed(hsh, obj.value)
        _feed(hsh, obj.error)
        _feed(hsh, list(obj.bins.items()))
        hsh.update(b')')
    elif isinstance(obj, np.ndarray):
        hsh.update(('A<%s|%s>' % (obj.dtype.str if obj.dtype.names is None else obj.dtype.descr,
                                  obj.shape)).encode())
        hsh.update(np.ascontiguousarray(obj).tobytes())
    elif isinstance(obj, np.generic):
        hsh.update(('G<%s>' % obj.dtype.str).encode())
        hsh.update(obj.tobytes())
    elif isinstance(obj, float):
        hsh.update(('f' + obj.hex()).encode())
    elif isinstance(obj, (bool, int, str, bytes, type(None))):
        hsh.update((type(obj).__name__ + ':' + repr(obj)).encode())
    else:
        hsh.update(('O<%s>' % type(obj).__name__).encode())
        _feed(hsh, getattr(obj, '__dict__', None) or repr(obj))


def digest(obj):
    hsh = hashlib.blake2b(digest_size=10)
    _feed(hsh, obj)
    return hsh.hexdigest()


def result_parts(res):
    """{path: digest} of a ``ParseResult.res`` without its ``run_data`` (scan-level bookkeeping of
    the run: counters of warnings, NORMAL COMPLETION, file name ...).  Response lists are digested
    item by item so that a difference can be located; arrays enter with dtype, shape and bytes."""
    parts = {}
    for key, val in res.items():
        if key == 'run_data':
            continue
        if key == 'batch_data' and isinstance(val, dict):
            for sub, item in val.items():
                parts[f'batch_data.{sub}'] = digest(item)
        elif isinstance(val, list):
            parts[f'{key}#len'] = str(len(val))
            for idx, item in enumerate(val):
                parts[f'{key}[{idx}]'] = digest(item)
        else:
            parts[key] = digest(val)
    return parts


# --------------------------------------------------------------------------
# one observation of the code under test

class Overrun(BaseException):
    """Raised by the interval timer when an observation exceeds its time budget."""


def _on_alarm(_signum, _frame):
    raise Overrun()


def _frame(exc):
    from vlib.core import valjean_frame
    tname, where = valjean_frame(exc)
    return ('EXC', tname, where, f'{tname}: {exc}'[:300])


def observe(path, which=None, cache=None):
    """Run the code under test on the file ``path``; returns plain values:

    ``{'scan': 'ok' | 'PE' | ('EXC', type, innermost valjean frame, message),
       'batches': [batch numbers],
       'eds': {batch number: ('ok', parts) | ('PE',) | ('EXC', ...)},
       'noed': outcome of parse_from_index(-1) when the scan succeeded without any edition}``

    Only ``ParserException`` is the parser's own error type.  ``which``: None = every edition, else
    a list of selectors (index modulo the number of editions); the last edition is always parsed,
    through ``parse_from_index(-1)`` (the documented default), the others through
    ``parse_from_number``.  ``cache`` (dict) short-cuts the parse of an edition whose text, times and
    scan variables are identical to one already parsed for the same caller.
    """
    from valjean.eponine.tripoli4.parse import Parser, ParserException
    obs = {'scan': None, 'batches': [], 'eds': {}, 'noed': None}
    try:
        parser = Parser(path)
    except ParserException:
        obs['scan'] = 'PE'
        return obs
    except Exception as exc:   # pylint: disable=broad-except
        obs['scan'] = _frame(exc)
        return obs
    obs['scan'] = 'ok'
    batches = list(parser.scan_res.keys())
    obs['batches'] = batches
    if not batches:
        try:
            pres = parser.parse_from_index(-1)
            obs['noed'] = ('ok', result_parts(pres.res))
        except ParserException:
            obs['noed'] = ('PE',)
        except Exception as exc:   # pylint: disable=broad-except
            obs['noed'] = _frame(exc)
        return obs
    if which is None:
        todo = list(range(len(batches)))
    else:
        todo = sorted({sel % len(batches) for sel in which} | {len(batches) - 1})
    for pos in todo:
        bnum = batches[pos]
        last = pos == len(batches) - 1
        key = None
        try:
            if cache is not None:
                gvars = parser.scan_res.global_variables(bnum)
                gvars.pop('t4_file', None)
                key = (last, hashlib.blake2b(parser.scan_res[bnum].encode('utf-8', 'replace'),
                                             digest_size=12).digest(),
                       repr(sorted(gvars.items())))
                if key in cache:
                    obs['eds'][bnum] = cache[key]
                    continue
            pres = parser.parse_from_index(-1) if last else parser.parse_from_number(bnum)
            out = ('ok', result_parts(pres.res))
        except ParserException:
            out = ('PE',)
        except Exception as exc:   # pylint: disable=broad-except
            out = _frame(exc)
        obs['eds'][bnum] = out
        if key is not None:
            cache[key] = out
    return obs


def observe_guarded(path, budget, which=None, cache=None):
    """``observe`` under an interval timer; returns (observation or None on overrun, seconds)."""
    old = signal.signal(signal.SIGALRM, _on_alarm)
    t_0 = time.perf_counter()
    obs = None
    try:
        try:
            signal.setitimer(signal.ITIMER_REAL, budget)
            obs = observe(path, which, cache)
        finally:
            signal.setitimer(signal.ITIMER_REAL, 0)
    except Overrun:
        obs = None
    finally:
        signal.signal(signal.SIGALRM, old)
    return obs, time.perf_counter() - t_0


class Workfile:
    """A scratch file in shared memory holding the current prefix."""

    def __init__(self):
        self.dir = tempfile.mkdtemp(prefix='vv-c11-', dir=SHM)
        self.path = os.path.join(self.dir, 'listing.res')

    def put(self, data, offset=None):
        with open(self.path, 'wb') as fil:
            fil.write(data if offset is None else data[:offset])
        return self.path

    def close(self):
        shutil.rmtree(self.dir, ignore_errors=True)


# --------------------------------------------------------------------------
# pristine server

def _send(stream, obj):
    blob = pickle.dumps(obj, protocol=4)
    stream.write(struct.pack('<Q', len(blob)))
    stream.write(blob)
    stream.flush()


def _recv(stream):
    head = stream.read(8)
    if len(head) < 8:
        return None
    size, = struct.unpack('<Q', head)
    blob = stream.read(size)
    if len(blob) < size:
        return None
    return pickle.loads(blob)


def _child(req, wfd):
    """Serve one request in a forked child of the (still pristine) server."""
    work = req['_work']
    try:
        path = os.path.join(work, 'listing.res')
        with open(path, 'wb') as fil:
            fil.write(req['data'])
        t_0 = time.perf_counter()
        obs = observe(path, req.get('which'))
        res = {'obs': obs, 'seconds': time.perf_counter() - t_0}
    except BaseException as exc:   # pylint: disable=broad-except
        res = {'error': ''.join(traceback.format_exception(exc))}
    with os.fdopen(wfd, 'wb') as out:
        out.write(pickle.dumps(res, protocol=4))


def _serve_batch(reqs, parallel):
    results = [None] * len(reqs)
    pending = list(enumerate(reqs))
    running = []
    while pending or running:
        while pending and len(running) < parallel:
            idx, req = pending.pop(0)
            work = tempfile.mkdtemp(prefix='vv-c11-srv-', dir=SHM)
            req = dict(req, _work=work)
            rfd, wfd = os.pipe()
            pid = os.fork()
            if pid == 0:
                os.close(rfd)
                code = 0
                try:
                    _child(req, wfd)
                except BaseException:   # pylint: disable=broad-except
                    code = 3
                os._exit(code)
            os.close(wfd)
            running.append({'idx': idx, 'pid': pid, 'rfd': rfd, 'work': work, 'buf': [],
                            'deadline': time.monotonic() + req.get('budget', 600.0)})
        ready, _, _ = select.select([r['rfd'] for r in running], [], [], 0.05)
        now = time.monotonic()
        for run in list(running):
            done = False
            if run['rfd'] in ready:
                chunk = os.read(run['rfd'], 1 << 20)
                if chunk:
                    run['buf'].append(chunk)
                else:
                    done = True
                    _pid, status = os.waitpid(run['pid'], 0)
                    blob = b''.join(run['buf'])
                    if blob:
                        results[run['idx']] = pickle.loads(blob)
                    else:
                        results[run['idx']] = {'error': f'child ended with status {status}'}
            elif now > run['deadline']:
                done = True
                os.kill(run['pid'], signal.SIGKILL)
                os.waitpid(run['pid'], 0)
                results[run['idx']] = {'timeout': True}
            if done:
                os.close(run['rfd'])
                shutil.rmtree(run['work'], ignore_errors=True)
                running.remove(run)
    return results


def _serve():
    import logging
    import warnings
    inp = os.fdopen(os.dup(0), 'rb')
    out = os.fdopen(os.dup(1), 'wb')
    devnull = os.open(os.devnull, os.O_RDWR)
    os.dup2(devnull, 0)
    os.dup2(2, 1)          # anything printed by the code under test goes to stderr
    warnings.simplefilter('ignore')
    logging.disable(logging.CRITICAL)
    import numpy as np
    np.seterr(all='ignore')
    # import, do not parse: the state of a process that has not parsed anything yet
    import valjean.eponine.tripoli4.parse   # noqa: F401  pylint: disable=unused-import
    import valjean.eponine.dataset          # noqa: F401  pylint: disable=unused-import
    _send(out, {'ready': True, 'valjean': os.path.dirname(valjean.__file__)})
    while True:
        msg = _recv(inp)
        if msg is None:
            break
        try:
            answer = _serve_batch(msg['batch'], int(msg.get('parallel', 1)))
        except BaseException as exc:   # pylint: disable=broad-except
            answer = {'server_error': ''.join(traceback.format_exception(exc))}
        _send(out, answer)


class Pristine:
    """Client of the pristine server (one server per process that needs it, started lazily)."""

    def __init__(self):
        self.proc = None
        self.pid = None

    def _start(self):
        env = dict(os.environ)
        self.proc = subprocess.Popen(
            [sys.executable, '-m', 'vlib.t4trunc', '--serve'], stdin=subprocess.PIPE,
            stdout=subprocess.PIPE, env=env, close_fds=True,
            cwd=os.path.dirname(os.path.dirname(os.path.abspath(__file__))))
        self.pid = os.getpid()
        hello = _recv(self.proc.stdout)
        if not hello or not hello.get('ready'):
            raise RuntimeError('pristine server did not start')
        self.valjean = hello['valjean']

    def batch(self, reqs, parallel=1):
        if self.proc is None or self.pid != os.getpid():   # never share a server across a fork
            self._start()
        _send(self.proc.stdin, {'batch': reqs, 'parallel': parallel})
        answer = _recv(self.proc.stdout)
        if answer is None or isinstance(answer, dict):
            raise RuntimeError(f'pristine server failed: {answer}')
        for res in answer:
            if 'error' in res:
                raise RuntimeError('pristine child failed:\n' + res['error'])
        return answer

    def one(self, data, which=None, budget=600.0):
        return self.batch([{'data': data, 'which': which, 'budget': budget}])[0]

    def close(self):
        if self.proc is not None and self.pid == os.getpid():
            try:
                self.proc.stdin.close()
                self.proc.wait(timeout=10)
            except Exception:   # pylint: disable=broad-except
                self.proc.kill()
        self.proc = None


if __name__ == '__main__':
    if '--serve' in sys.argv:
        _serve()
